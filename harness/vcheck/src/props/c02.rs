//! C02 — negotiated transport security is honoured; no downgrade.

use crate::memlink::MemLink;
use crate::peer::{CcKind, ServerParams};
use crate::props::c05::err_class;
use crate::runner::{Outcome, Prop, Tier};
use crate::tls::{tls_connect, Cert, ConnCfg, TlsPeer};
use rdp::core::{tpkt, x224};
use rdp::model::link::{Link, Stream};
use rdp::nla::ntlm::Ntlm;
use serde::Serialize;
use serde_json::{json, Value};
use std::cell::RefCell;
use std::rc::Rc;
use vref::bytes::{find, utf16le};
use vref::framing;

#[derive(Clone, Debug, Serialize)]
pub struct Case {
    /// None: through Connector::connect (mask derived from use_nla); Some(mask): x224::Client::connect directly
    pub direct_mask: Option<u32>,
    pub use_nla: bool,
    pub check_certificate: bool,
    pub cert: Cert,
    pub cc_kind: CcKind,
    pub selected: u32,
    pub cc_flags: u8,
    pub cc_len_field: u16,
    pub block: &'static str,
    /// 0 plain, 1 restricted admin, 2 blank credentials, 3 logon from the NT hash
    pub mode: u8,
    /// direct x224 connect without an authentication provider (only with selections that do not need one)
    pub no_provider: bool,
    /// Some((first_is_nla, first_check, second_is_nla, second_check)): two upgrade calls on the same transport
    /// (tpkt start_ssl / start_nla) against the certificate of the case; everything else is ignored
    pub upgrades: Option<(bool, bool, bool, bool)>,
    /// Some(pos): the transport refuses ONE write call, the one that would carry client byte `pos` (connector path
    /// only): the attempt may fail, but what was written stays within the rules — and so does the next connection
    pub write_refused_at: Option<usize>,
    /// ConnCfg::earlier_connections: the Connector object served other connect() calls before this one
    pub earlier: u8,
    /// ConnCfg::builder_order
    pub order: u8,
}

pub struct C02 {
    cases: Vec<Case>,
}

impl C02 {
    pub fn new() -> C02 {
        C02 { cases: vec![] }
    }
}

fn selected_values() -> Vec<u32> {
    let mut v: Vec<u32> = (0..256).collect();
    for b in 8..32 {
        v.push(1u32 << b);
    }
    v.extend([0xFFFF_FFFF, 0x8000_0001, 0x8000_0002, 0x0000_0101, 0x0000_0102, 0x0000_0108, 0x0001_0001, 0x8000_0008, 0x7FFF_FFFF]);
    v
}

/// scan a raw byte stream as TLS records; Err(description) if anything else is found
fn only_tls_records(b: &[u8]) -> Result<usize, String> {
    let mut p = 0;
    let mut n = 0;
    while p < b.len() {
        if b.len() - p < 5 {
            return Err(format!("{} stray bytes after the last TLS record", b.len() - p));
        }
        let ct = b[p];
        if !(0x14..=0x17).contains(&ct) || b[p + 1] != 3 {
            return Err(format!("non-TLS bytes on the raw transport at offset {}: {:02x?}", p, &b[p..(p + 8).min(b.len())]));
        }
        let len = u16::from_be_bytes([b[p + 3], b[p + 4]]) as usize;
        if b.len() - p - 5 < len {
            return Err("truncated TLS record".into());
        }
        p += 5 + len;
        n += 1;
    }
    Ok(n)
}

/// like `only_tls_records`, but the last record may be cut short (the transport refused a write)
fn only_tls_records_prefix(b: &[u8]) -> Result<(), String> {
    let mut p = 0;
    while p < b.len() {
        let ct = b[p];
        if !(0x14..=0x17).contains(&ct) || (b.len() - p > 1 && b[p + 1] != 3) {
            return Err(format!("non-TLS bytes on the raw transport at offset {}: {:02x?}", p, &b[p..(p + 8).min(b.len())]));
        }
        if b.len() - p < 5 {
            return Ok(());
        }
        let len = u16::from_be_bytes([b[p + 3], b[p + 4]]) as usize;
        if b.len() - p - 5 < len {
            return Ok(());
        }
        p += 5 + len;
    }
    Ok(())
}

/// two upgrade calls on one transport; judged: a call with checking on against an untrusted certificate must fail
/// and the server must not receive any application byte during it
fn two_upgrades(c: &Case, cfg: &ConnCfg, n1: bool, c1: bool, n2: bool, c2: bool) -> Outcome {
    let mut pp = ServerParams { selected: if n1 { 2 } else { 1 }, ..Default::default() };
    pp.acct_user = cfg.client.user.clone();
    pp.acct_domain = cfg.client.domain.clone();
    pp.acct_password = cfg.client.password.clone();
    let peer = match TlsPeer::new(pp, vec![], c.cert) {
        Ok(p) => Rc::new(RefCell::new(p)),
        Err(e) => return Outcome::fail("setup", "machinery", e),
    };
    // the server side starts TLS as soon as the client hello arrives: skip the X.224 negotiation
    peer.borrow_mut().expect_tls_immediately();
    let link = MemLink::with_peer(peer.clone());
    let mut t = tpkt::Client::new(Link::new(Stream::Raw(link)));
    let untrusted = !c.cert.trusted();
    let mut results = vec![];
    for (k, (nla, check)) in [(n1, c1), (n2, c2)].into_iter().enumerate() {
        let before = peer.borrow().plaintext_in.len();
        let mut ntlm = Ntlm::new(cfg.client.domain.clone(), cfg.client.user.clone(), cfg.client.password.clone());
        let r = if nla { t.start_nla(check, &mut ntlm, false) } else { t.start_ssl(check) };
        let sent = peer.borrow().plaintext_in.len() - before;
        let ok = r.is_ok();
        results.push(format!("{}{}:{}", if nla { "nla" } else { "ssl" }, if check { "+check" } else { "" }, if ok { "ok" } else { "err" }));
        if check && untrusted && (ok || sent > 0) {
            return Outcome::fail("mismatch", "untrusted-certificate-accepted-by-a-later-upgrade", format!("call #{} ({} with checking) returned ok={} and {} application bytes reached the server holding {:?}; calls so far {:?}", k + 1, if nla { "start_nla" } else { "start_ssl" }, ok, sent, c.cert, results));
        }
        match r {
            Ok(next) => t = next,
            Err(_) => break,
        }
    }
    Outcome::pass(format!("two-upgrades:{}", results.join(",")), true)
}

impl Prop for C02 {
    fn id(&self) -> &'static str {
        "C02"
    }
    fn level(&self) -> &'static str {
        "fault_enumeration"
    }
    fn workers(&self) -> usize {
        16
    }
    fn prepare(&mut self, tier: Tier) -> Result<(), String> {
        let mut cs = vec![];
        let base = Case { direct_mask: None, use_nla: true, check_certificate: false, cert: Cert::A, cc_kind: CcKind::Response, selected: 2, cc_flags: 0, cc_len_field: 8, block: "base", mode: 0, no_provider: false, upgrades: None, write_refused_at: None, earlier: 0, order: 0 };
        // A: every selected-protocol value x configuration (through the public connector)
        for use_nla in [true, false] {
            for check in [false, true] {
                for sel in selected_values() {
                    if tier == Tier::Quick && check && sel > 16 && sel != 0xFFFF_FFFF {
                        continue;
                    }
                    cs.push(Case { use_nla, check_certificate: check, selected: sel, block: "selected-value", ..base.clone() });
                }
            }
        }
        // A1b (thorough): every selected-protocol value of the low 16 bits, NLA on and off (the values above 255 are not only
        // "sampled" then), and every value whose low 16 bits are an acceptable selection with one more bit set above them
        if tier == Tier::Thorough {
            for use_nla in [true, false] {
                for v in 256..=0xFFFFu32 {
                    cs.push(Case { use_nla, selected: v, block: "selected-value-16-bits", ..base.clone() });
                }
                for low in [1u32, 2, 3] {
                    for b in 16..32 {
                        cs.push(Case { use_nla, selected: low | (1u32 << b), block: "selected-value-16-bits", ..base.clone() });
                    }
                }
            }
        }
        // A2: one write call refused by the transport at several points of the conversation (request, ClientHello, key
        // exchange, first application record, later); judged alone and, in the pair block, followed by another case
        for use_nla in [true, false] {
            for pos in [0usize, 5, 19, 25, 300, 500, 800, 1100, 1500, 2200, 3000] {
                cs.push(Case { use_nla, selected: if use_nla { 2 } else { 1 }, write_refused_at: Some(pos), block: "write-refused", ..base.clone() });
            }
        }
        // A3: the Connector object was used before (refused attempts, a complete connection) and re-configured
        for earlier in 1..=12u8 {
            for use_nla in [true, false] {
                for check in [false, true] {
                    for sel in [0u32, 1, 2, 8] {
                        cs.push(Case { use_nla, check_certificate: check, selected: sel, earlier, cert: if check { Cert::M } else { Cert::A }, block: "connector-reuse", ..base.clone() });
                    }
                }
            }
        }
        // B: reply kinds x values
        for use_nla in [true, false] {
            let mut kinds = vec![CcKind::Failure, CcKind::EchoRequest, CcKind::Absent];
            for t in 0..=255u8 {
                if !(1..=3).contains(&t) {
                    kinds.push(CcKind::OtherType(t));
                }
            }
            for k in kinds {
                for sel in [0u32, 1, 2, 3, 5, 8] {
                    cs.push(Case { use_nla, cc_kind: k.clone(), selected: sel, block: "reply-kind", ..base.clone() });
                }
            }
        }
        // C: every flag byte, wrong length fields (with a valid and an invalid selection): pairs (value, flag)
        for use_nla in [true, false] {
            for flags in 0..=255u8 {
                for sel in [if use_nla { 2u32 } else { 1 }, 0] {
                    cs.push(Case { use_nla, cc_flags: flags, selected: sel, block: "flags", ..base.clone() });
                }
            }
            for lf in [0u16, 7, 9, 16, 0xFFFF] {
                for sel in [1u32, 2, 0] {
                    cs.push(Case { use_nla, cc_len_field: lf, selected: sel, block: "length-field", ..base.clone() });
                }
            }
        }
        // D: direct x224::Client::connect with every offered mask
        for mask in [0u32, 1, 2, 3, 8, 0xB, 4, 0x10, 0x100, 0x1_0000, 0x1_0001, 0x1_0003, 0x8000_0000, 0xFFFF_0000, 0xFFFF_FFF4] {
            for sel in [0u32, 1, 2, 3, 4, 8, 9, 0x10, 0xB, 0xFFFF_FFFF] {
                for k in [CcKind::Response, CcKind::Failure, CcKind::Absent] {
                    cs.push(Case { direct_mask: Some(mask), cc_kind: k, selected: sel, block: "offered-mask", ..base.clone() });
                }
            }
        }
        // D2: the same without an authentication provider (selections that would need one are left out: offering NLA
        // without a provider is the caller's contradiction)
        for mask in [0u32, 1, 2, 3, 8, 9, 0xA, 0xB] {
            for sel in [0u32, 1, 4, 8, 9, 0x10, 0xFFFF_FFFD] {
                for k in [CcKind::Response, CcKind::Failure, CcKind::Absent] {
                    cs.push(Case { direct_mask: Some(mask), cc_kind: k, selected: sel, no_provider: true, block: "offered-mask-no-provider", ..base.clone() });
                }
            }
        }
        // A2: every selection under the other logon modes (the request on the wire must offer what the check assumes)
        for mode in 1..=3u8 {
            for use_nla in [true, false] {
                for sel in [0u32, 1, 2, 3, 4, 8, 0xB] {
                    cs.push(Case { use_nla, selected: sel, mode, block: "selected-value-x-mode", ..base.clone() });
                }
            }
        }
        // A2b: logon mode x NLA x RDP_NEG_RSP flag byte x selection (a flag of the reply must not change what counts as offered;
        // 0x08 = RESTRICTED_ADMIN_MODE_SUPPORTED, 0x01 = EXTENDED_CLIENT_DATA_SUPPORTED)
        for mode in 0..=3u8 {
            for use_nla in [true, false] {
                for flags in [0x08u8, 0x01, 0x09, 0x1F, 0xFF] {
                    for sel in [0u32, 1, 2, 8, 0xA] {
                        cs.push(Case { use_nla, selected: sel, mode, cc_flags: flags, block: "mode-x-flags-x-selection", ..base.clone() });
                    }
                }
            }
        }
        // F: two upgrade calls on the same transport: a call asking for certificate checking must fail against an
        // untrusted certificate and send nothing, whatever was done to the link before
        for cert in [Cert::M, Cert::Expired, Cert::A] {
            for a in 0..4u8 {
                for b in 0..4u8 {
                    cs.push(Case { cert, upgrades: Some((a & 1 != 0, a & 2 != 0, b & 1 != 0, b & 2 != 0)), block: "two-upgrades", ..base.clone() });
                }
            }
        }
        // E: certificates x checking
        for cert in [Cert::A, Cert::B, Cert::M, Cert::ChainTrusted, Cert::Expired, Cert::NotYetValid, Cert::ChainUntrusted, Cert::Forged, Cert::TamperedA] {
            for check in [false, true] {
                for use_nla in [true, false] {
                    cs.push(Case { cert, check_certificate: check, use_nla, selected: if use_nla { 2 } else { 1 }, block: "certificate", ..base.clone() });
                    if use_nla {
                        cs.push(Case { cert, check_certificate: check, use_nla, selected: 1, block: "certificate", ..base.clone() });
                    }
                    // the same with the builder calls in the five other orders (the decision must not depend on it)
                    for order in 1..=6u8 {
                        cs.push(Case { cert, check_certificate: check, use_nla, selected: if use_nla { 2 } else { 1 }, order, block: "certificate-x-builder-order", ..base.clone() });
                    }
                    // the same under the other logon modes (the certificate decision must not depend on them)
                    for mode in 1..=3u8 {
                        cs.push(Case { cert, check_certificate: check, use_nla, selected: if use_nla { 2 } else { 1 }, mode, block: "certificate-x-mode", ..base.clone() });
                    }
                }
            }
        }
        self.cases = cs;
        Ok(())
    }
    fn n_cases(&self) -> u64 {
        self.cases.len() as u64
    }
    /// pair block: every ordered pair of the certificate x checking x NLA cases (trusted after untrusted, checking
    /// on after checking off, ...) plus one refused confirm of each other block
    fn pair_reps(&self, _tier: Tier) -> Vec<u64> {
        let mut v: Vec<u64> = (0..self.cases.len()).filter(|i| self.cases[*i].block == "certificate").map(|i| i as u64).collect();
        for b in ["selected-value", "reply-kind", "offered-mask"] {
            if let Some(i) = self.cases.iter().position(|c| c.block == b) {
                v.push(i as u64);
            }
        }
        // a refused write in the request, in the TLS handshake and after it, NLA on and off
        v.extend((0..self.cases.len()).filter(|i| self.cases[*i].block == "write-refused" && matches!(self.cases[*i].write_refused_at, Some(5) | Some(500) | Some(1500) | Some(2200))).map(|i| i as u64));
        v
    }
    fn describe(&self, idx: u64) -> Value {
        json!({"idx": idx, "case": self.cases[idx as usize]})
    }
    fn rule(&self) -> String {
        "cases = (connector configuration | offered mask, server certificate, connection-confirm contents). [selected-value] all 256 low-byte values, every single bit 2^8..2^31 and mixed patterns x NLA on/off x certificate checking on/off (thorough: every value 0..65535, and the acceptable selections with one bit above bit 15); [reply-kind] failure / echoed request / absent / every other type byte x 6 values; [flags] every flag byte x valid and invalid selection; [length-field]; [offered-mask] x224::Client::connect with masks {0,1,2,3,8,0xB} and masks holding bits no protocol uses, in the low and in the high word (4, 0x10, 0x100, 0x10000, 0x10001, 0x10003, 0x80000000, 0xFFFF0000, 0xFFFFFFF4) x 10 selections x 3 kinds; [offered-mask-no-provider] the same without an authentication provider; [selected-value-x-mode] 7 selections under restricted admin / blank credentials / hash logon; [mode-x-flags-x-selection] 4 logon modes x NLA on/off x reply flag bytes {0x08, 0x01, 0x09, 0x1F, 0xFF} x selections {0,1,2,8,0xA}; the negotiation request on the wire must offer exactly the configured protocols; [write-refused] one write call refused by the transport at 11 byte positions from the request to the application records, NLA on and off: whatever was written obeys the same rules, and (pair block) so does the connection that follows in the same process; [connector-reuse] a Connector that served one / two refused attempts or a complete connection under another configuration (or one refused attempt under the same) and was re-configured, or that completed a connection under a configuration differing only in certificate checking / only in use_nla / only in the logon flags after which only those setters were called again, x NLA x checking (untrusted certificate when on) x selections {0,1,2,8}; [two-upgrades] every ordered pair of {start_ssl, start_nla} x {checking on, off} on one transport against an untrusted, an expired and a trusted certificate; [certificate] trusted RSA, trusted EC, a leaf of a trusted root; and six kinds of untrusted certificate: unknown self-signed, trusted-but-expired, trusted-but-not-yet-valid, leaf of an unknown root, leaf naming the trusted root but signed by another key, trusted certificate with a flipped signature bit; x checking x NLA x logon mode (plain, restricted admin, blank credentials, NT hash) and x the six orders of the Connector builder calls. Executed through the real Connector::connect over real TLS. Non-trivial: the reply is not the honest one for the configuration.".into()
    }
    fn assumptions(&self) -> Vec<String> {
        vec![
            "'trusted' = chains to /verif/fixtures/trust.pem through OpenSSL's SSL_CERT_FILE seam; rdp-rs connects with an empty host name and SNI off, so host-name matching is not exercised".into(),
            "a client may refuse a protocol it offered (HybridEx) — the statement only forbids continuing with one it did not offer".into(),
        ]
    }
    fn mem_rule(&self, _p: usize, maxreq: usize, _b: u64) -> Option<String> {
        if maxreq > (8 << 20) {
            Some(format!("allocation of {} bytes", maxreq))
        } else {
            None
        }
    }
    fn run_case(&mut self, idx: u64) -> Outcome {
        let c = self.cases[idx as usize].clone();
        let p = ServerParams { cc_kind: c.cc_kind.clone(), selected: c.selected, cc_flags: c.cc_flags, cc_len_field: c.cc_len_field, ..Default::default() };
        let offered: u32 = c.direct_mask.unwrap_or(if c.use_nla { 3 } else { 1 });
        let cfg = ConnCfg { use_nla: c.use_nla, check_certificate: c.check_certificate, restricted_admin: c.mode == 1, blank_creds: c.mode == 2, use_hash: c.mode == 3, earlier_connections: c.earlier, builder_order: c.order, ..Default::default() };
        if let Some((n1, c1, n2, c2)) = c.upgrades {
            return two_upgrades(&c, &cfg, n1, c1, n2, c2);
        }
        let (ok, err, peer, _sh): (bool, String, Rc<RefCell<TlsPeer>>, _) = match c.direct_mask {
            None => match crate::tls::tls_connect_fragmented(&cfg, p, vec![], c.cert, crate::memlink::ReadPlan::All, match c.write_refused_at { Some(pos) => crate::memlink::WritePlan::ErrOnceAt { pos, kind: std::io::ErrorKind::Other }, None => crate::memlink::WritePlan::All }) {
                Ok(t) => (t.client.is_some(), t.error.clone().unwrap_or_default(), t.peer.clone(), t.sh.clone()),
                Err(e) => return Outcome::fail("setup", "machinery", e),
            },
            Some(mask) => {
                let mut pp = p.clone();
                pp.acct_user = cfg.client.user.clone();
                pp.acct_domain = cfg.client.domain.clone();
                pp.acct_password = cfg.client.password.clone();
                let peer = match TlsPeer::new(pp, vec![], c.cert) {
                    Ok(p) => Rc::new(RefCell::new(p)),
                    Err(e) => return Outcome::fail("setup", "machinery", e),
                };
                let link = MemLink::with_peer(peer.clone());
                let sh = link.sh.clone();
                let t = tpkt::Client::new(Link::new(Stream::Raw(link)));
                let mut ntlm = Ntlm::new(cfg.client.domain.clone(), cfg.client.user.clone(), cfg.client.password.clone());
                let r = x224::Client::connect(t, mask, c.check_certificate, if c.no_provider { None } else { Some(&mut ntlm) }, false, false);
                (r.is_ok(), r.err().map(|e| format!("{:?}", e)).unwrap_or_default(), peer, sh)
            }
        };
        let pr = peer.borrow();
        if let Some(pos) = c.write_refused_at {
            // whatever reached the transport before the server asked for TLS is (a prefix of) the connection request,
            // nothing secret is on the raw transport, nothing credential-bearing outside TLS
            match framing::deframe(&pr.raw_before_tls) {
                framing::Deframe::Frame(framing::Frame::Tpkt(cr), n) if n == pr.raw_before_tls.len() && framing::parse_x224_cr(&cr).is_ok() => {}
                framing::Deframe::Incomplete if pr.raw_before_tls.len() < 19 => {}
                _ => return Outcome::fail("mismatch", "pre-tls-bytes-are-not-exactly-one-connection-request", format!("write refused at byte {}: {:02x?}", pos, &pr.raw_before_tls[..pr.raw_before_tls.len().min(48)])),
            }
            let raw_all = [&pr.raw_before_tls[..], &pr.raw_after_cc[..]].concat();
            for (what, needle) in [("NTLMSSP", b"NTLMSSP".to_vec()), ("password-utf8", cfg.client.password.as_bytes().to_vec()), ("password-utf16", utf16le(&cfg.client.password)), ("user-utf16", utf16le(&cfg.client.user))] {
                if find(&raw_all, &needle).is_some() {
                    return Outcome::fail("mismatch", format!("{}-on-raw-transport", what), format!("found in the clear in a conversation whose write at byte {} was refused", pos));
                }
            }
            for m in &pr.srv.log {
                if !m.inside_tls && (m.name.starts_with("cssp_") || m.name.starts_with("client_info")) {
                    return Outcome::fail("mismatch", format!("{}-sent-outside-tls", m.name.split('_').next().unwrap_or("msg")), format!("{} written in clear text", m.name));
                }
            }
            if !pr.raw_after_cc.is_empty() {
                if let Err(e) = only_tls_records_prefix(&pr.raw_after_cc) {
                    return Outcome::fail("mismatch", "non-tls-bytes-after-confirm", e);
                }
            }
            return Outcome::pass(format!("write-refused:{}", if ok { "connected" } else { "failed" }), true);
        }
        // 1. before the confirm: exactly one TPKT carrying the connection request
        match framing::deframe(&pr.raw_before_tls) {
            framing::Deframe::Frame(framing::Frame::Tpkt(cr), n) if n == pr.raw_before_tls.len() && framing::parse_x224_cr(&cr).is_ok() => {}
            _ => return Outcome::fail("mismatch", "pre-tls-bytes-are-not-exactly-one-connection-request", format!("{:02x?}", &pr.raw_before_tls[..pr.raw_before_tls.len().min(32)])),
        }
        // what the request on the wire offered: the selection is judged against it (and it must be what was configured)
        let offered = match framing::deframe(&pr.raw_before_tls) {
            framing::Deframe::Frame(framing::Frame::Tpkt(cr), _) => match framing::parse_x224_cr(&cr) {
                Ok(req) => {
                    let wire = req.neg.map(|n| n.2).unwrap_or(0);
                    if wire != offered {
                        return Outcome::fail("mismatch", "request-offers-something-else-than-configured", format!("requestedProtocols on the wire {:#x}, configured {:#x} (mode {})", wire, offered, c.mode));
                    }
                    wire
                }
                Err(_) => offered,
            },
            _ => offered,
        };
        // 2. secrets never on the raw transport
        let raw_all = [&pr.raw_before_tls[..], &pr.raw_after_cc[..]].concat();
        for (what, needle) in [("NTLMSSP", b"NTLMSSP".to_vec()), ("password-utf8", cfg.client.password.as_bytes().to_vec()), ("password-utf16", utf16le(&cfg.client.password)), ("user-utf16", utf16le(&cfg.client.user))] {
            if find(&raw_all, &needle).is_some() {
                return Outcome::fail("mismatch", format!("{}-on-raw-transport", what), format!("found in the clear after a confirm of kind {:?} selecting {:#x} (offered {:#x})", c.cc_kind, c.selected, offered));
            }
        }
        // 3. credential-bearing messages only inside TLS
        for m in &pr.srv.log {
            if !m.inside_tls && (m.name.starts_with("cssp_") || m.name.starts_with("client_info")) {
                return Outcome::fail("mismatch", format!("{}-sent-outside-tls", m.name.split('_').next().unwrap_or("msg")), format!("{} written in clear text after selected protocol {:#x} (offered {:#x})", m.name, c.selected, offered));
            }
        }
        if offered == 0 && (c.selected == 0 || c.cc_kind == CcKind::Absent) {
            // neither TLS nor NLA was requested: plain RDP security is what was offered (outside this property)
            return Outcome::pass("rdp-only-offered", false);
        }
        // a response naming an offered protocol but with a wrong length field is merely malformed: the statement
        // does not say whether it must be refused, so only the trace oracles above apply to it
        if c.cc_kind == CcKind::Response && c.cc_len_field != 8 && (c.selected == 1 || c.selected == 2) && offered & c.selected == c.selected {
            if ok || pr.raw_after_cc.is_empty() || only_tls_records(&pr.raw_after_cc).is_ok() {
                return Outcome::pass(format!("malformed-length-field:{}", if ok { "accepted" } else { "refused" }), true);
            }
            return Outcome::fail("mismatch", "non-tls-bytes-after-confirm", "plain bytes written after a confirm with a wrong length field".to_string());
        }
        let acceptable = c.cc_kind == CcKind::Response && c.cc_len_field == 8 && c.selected != 0 && (c.selected == 1 || c.selected == 2 || c.selected == 8) && offered & c.selected == c.selected;
        let continued = !pr.raw_after_cc.is_empty();
        if !acceptable {
            // any other selection ends in an error and nothing further is written
            if ok {
                return Outcome::fail("mismatch", "unoffered-or-invalid-selection-accepted", format!("connect returned Ok after confirm {:?} selecting {:#x} with offered mask {:#x}", c.cc_kind, c.selected, offered));
            }
            if continued && c.cc_kind == CcKind::Response && c.cc_len_field == 8 {
                return Outcome::fail("mismatch", "client-continued-with-unoffered-protocol", format!("{} bytes written after a confirm selecting {:#x} (offered {:#x}); error finally returned: {}", pr.raw_after_cc.len(), c.selected, offered, err_class(&err)));
            }
            if continued {
                return Outcome::fail("mismatch", "client-continued-after-invalid-confirm", format!("{} bytes written after confirm kind {:?}", pr.raw_after_cc.len(), c.cc_kind));
            }
            return Outcome::pass(format!("refused:{}", err_class(&err)), true);
        }
        // acceptable selection: after the confirm only TLS records may appear on the raw transport
        if let Err(e) = only_tls_records(&pr.raw_after_cc) {
            return Outcome::fail("mismatch", "non-tls-bytes-after-confirm", e);
        }
        let untrusted = !c.cert.trusted();
        if c.check_certificate && untrusted {
            if ok {
                return Outcome::fail("mismatch", "untrusted-certificate-accepted", "connect succeeded with certificate checking on and an untrusted certificate".to_string());
            }
            if !pr.plaintext_in.is_empty() {
                return Outcome::fail("mismatch", "data-sent-to-untrusted-server", format!("{} application bytes reached the server although its certificate is untrusted", pr.plaintext_in.len()));
            }
            return Outcome::pass("untrusted-certificate-refused", true);
        }
        if c.selected == 8 {
            // HybridEx is not implemented by this client: refusing it is allowed
            return Outcome::pass(format!("hybrid-ex:{}", if ok { "ok".to_string() } else { err_class(&err) }), true);
        }
        if c.cc_flags & !0x1F != 0 {
            // flag bits MS-RDPBCGR does not define: a conforming server never sets them; accepting or refusing is fine
            return Outcome::pass(format!("undefined-flag-bits:{}", if ok { "accepted" } else { "refused" }), true);
        }
        // conforming server, acceptable selection: the connection must proceed (vacuity guard for the clauses above)
        if c.direct_mask.is_some() {
            if !ok {
                return Outcome::fail("mismatch", "conforming-negotiation-failed", format!("x224 connect failed: {} (peer errors {:?})", err, pr.srv.errors));
            }
            return Outcome::pass("x224-ok", c.block != "base");
        }
        if !ok {
            return Outcome::fail("mismatch", "conforming-connection-failed", format!("connect failed: {} (peer errors {:?})", err, pr.srv.errors));
        }
        if !pr.handshake_done {
            return Outcome::fail("mismatch", "machinery", "connect succeeded without a TLS handshake".to_string());
        }
        Outcome::pass(format!("connected:sel{}:cert{:?}:check{}", c.selected, c.cert, c.check_certificate), c.block != "base")
    }
}
