//! vcheck — bounded-exhaustive checks of rdp-rs properties (see /verif/DESIGN.md).
//!   vcheck <ID> quick|thorough      run the check for one property
//!   vcheck replay <file>            re-execute the case recorded in a replay file
//!   vcheck selftest                 validate the reference implementations
//! exit 0 = held on everything explored, 1 = violation (VIOLATION line printed), 2 = machinery error

use vcheck::runner::Tier;

#[global_allocator]
static GLOBAL: vcheck::alloc::Counting = vcheck::alloc::Counting;

fn main() {
    vcheck::cli_main(
        &|id| vcheck::props::sweep_prop(id),
        &|id, tier: Tier| if id == "C12" { Some(vcheck::c12_main(tier)) } else { None },
        &|v, path| vcheck::c12_replay(v, path),
    );
}
