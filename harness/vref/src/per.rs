//! Reference for the aligned-PER subset used by T.124/T.125 as carried in RDP
//! (X.691 as profiled by MS-RDPBCGR 2.2.1.3 / 2.2.1.4 and T.125 domain PDUs).

use crate::bytes::*;

/// length determinant (values 0..0x7fff; 1 byte below 0x80, else 2 bytes with the top bit set)
pub fn write_length(w: &mut W, n: u16) {
    assert!(n <= 0x7fff);
    if n > 0x7f {
        w.u16be(n | 0x8000);
    } else {
        w.u8(n as u8);
    }
}

pub fn read_length(r: &mut R) -> PResult<u16> {
    let b = r.u8()?;
    if b & 0x80 != 0 {
        let b2 = r.u8()?;
        Ok((((b & 0x7f) as u16) << 8) | b2 as u16)
    } else {
        Ok(b as u16)
    }
}

/// unconstrained-ish INTEGER as used by T.125 stacks: length (1, 2 or 4) then big-endian value
pub fn write_integer(w: &mut W, v: u32) {
    if v <= 0xff {
        write_length(w, 1);
        w.u8(v as u8);
    } else if v <= 0xffff {
        write_length(w, 2);
        w.u16be(v as u16);
    } else {
        write_length(w, 4);
        w.u32be(v);
    }
}

/// non-minimal but legal spelling with a forced width
pub fn write_integer_width(w: &mut W, v: u32, width: u16) {
    write_length(w, width);
    match width {
        1 => {
            w.u8(v as u8);
        }
        2 => {
            w.u16be(v as u16);
        }
        4 => {
            w.u32be(v);
        }
        _ => panic!("width"),
    }
}

pub fn read_integer(r: &mut R) -> PResult<u32> {
    match read_length(r)? {
        1 => Ok(r.u8()? as u32),
        2 => Ok(r.u16be()? as u32),
        4 => r.u32be(),
        n => Err(format!("PER integer of {} bytes", n)),
    }
}

/// constrained 16-bit INTEGER (min..min+65535): two bytes holding value-min
pub fn write_integer16(w: &mut W, v: u16, min: u16) {
    w.u16be(v.checked_sub(min).expect("value below minimum"));
}

pub fn read_integer16(r: &mut R, min: u16) -> PResult<u16> {
    let raw = r.u16be()?;
    raw.checked_add(min).ok_or_else(|| format!("PER integer16 {}+{} out of range", raw, min))
}

/// OBJECT IDENTIFIER with exactly six arcs as used for the T.124 key (first two arcs packed in nibbles)
pub fn write_oid6(w: &mut W, oid: &[u8; 6]) {
    w.u8(5).u8((oid[0] << 4) | (oid[1] & 0x0f)).u8(oid[2]).u8(oid[3]).u8(oid[4]).u8(oid[5]);
}

pub fn read_oid6(r: &mut R) -> PResult<[u8; 6]> {
    let l = read_length(r)?;
    if l != 5 {
        return Err(format!("PER OID length {}", l));
    }
    let t = r.u8()?;
    Ok([t >> 4, t & 0x0f, r.u8()?, r.u8()?, r.u8()?, r.u8()?])
}

/// OCTET STRING with lower bound `min`
pub fn write_octets(w: &mut W, v: &[u8], min: usize) {
    assert!(v.len() >= min);
    write_length(w, (v.len() - min) as u16);
    w.bytes(v);
}

pub fn read_octets<'a>(r: &mut R<'a>, min: usize) -> PResult<&'a [u8]> {
    let l = read_length(r)? as usize + min;
    r.take(l)
}

/// NumericString with lower bound `min`: length-min, then two digits per byte (high nibble first)
pub fn write_numeric_string(w: &mut W, digits: &[u8], min: usize) {
    assert!(digits.len() >= min);
    write_length(w, (digits.len() - min) as u16);
    let mut i = 0;
    while i < digits.len() {
        let c1 = (digits[i] - b'0') % 10;
        let c2 = if i + 1 < digits.len() { (digits[i + 1] - b'0') % 10 } else { 0 };
        w.u8((c1 << 4) | c2);
        i += 2;
    }
}

pub fn read_numeric_string(r: &mut R, min: usize) -> PResult<Vec<u8>> {
    let n = read_length(r)? as usize + min;
    let packed = r.take((n + 1) / 2)?;
    let mut out = Vec::new();
    for i in 0..n {
        let b = packed[i / 2];
        out.push(b'0' + if i % 2 == 0 { b >> 4 } else { b & 0x0f });
    }
    Ok(out)
}

#[cfg(test)]
mod t {
    use super::*;
    #[test]
    fn basics() {
        let mut w = W::new();
        write_length(&mut w, 0x7f);
        write_length(&mut w, 0x80);
        assert_eq!(w.0, vec![0x7f, 0x80, 0x80]);
        let mut w = W::new();
        write_numeric_string(&mut w, b"1", 1);
        assert_eq!(w.0, vec![0x00, 0x10]);
        let mut r = R::new(&w.0);
        assert_eq!(read_numeric_string(&mut r, 1).unwrap(), b"1");
    }
}
