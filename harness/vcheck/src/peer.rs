//! The reactive reference peer: an RDP server built only from the reference codecs in `vref`.
//! It is honest by default; `Deviation`s make it deviate in a controlled, enumerable way.
//! It records every client message (raw bytes, after deframing) for the oracles.

use serde::{Deserialize, Serialize};
use vref::bytes::*;
use vref::ntlm::{self as rn, SealCtx, ServerCfg};
use vref::sec::Licence;
use vref::share::CapSet;
use vref::{der, framing, gcc, mcs, sec, share};

#[derive(Clone, Debug, PartialEq, Eq, Serialize, Deserialize)]
pub enum CcKind {
    Response,
    Failure,
    EchoRequest,
    /// bare 7-byte connection confirm without negotiation structure
    Absent,
    OtherType(u8),
}

#[derive(Clone, Debug, PartialEq, Eq, Serialize, Deserialize)]
pub enum CapsKind {
    Minimal,
    WindowsCapture,
    WithUnknown,
    WithZeroLenBody,
    /// the Windows list whose input capability set does not announce INPUT_FLAG_SCANCODES
    InputWithoutScancodes,
    /// the Windows list without any input capability set
    NoInputCapability,
    /// the Windows list whose multifragment-update capability (type 0x1A) announces MaxRequestSize = 64 (what the SERVER can
    /// reassemble: it says nothing about the size of the updates the server sends)
    SmallMultifragment,
    /// a demand-active whose capability list is empty (numberCapabilities = 0)
    NoCapabilities,
}

/// how the server answers the final CredSSP round (pubKeyAuth echo)
#[derive(Clone, Debug, PartialEq, Eq, Serialize, Deserialize)]
pub enum FinalReply {
    Honest,
    /// honest TSRequest with one bit flipped
    FlipBit(usize),
    /// key + delta (little-endian integer arithmetic), correctly sealed; delta != 1
    Offset(i64),
    /// key + 2^j or key - 2^j, correctly sealed
    Pow2(usize, bool),
    /// sealed and signed with the client-to-server keys
    ClientDirectionKeys,
    /// keys derived from a different exported session key
    OtherSessionKey,
    /// right sealing key, wrong signing key
    WrongSignKey,
    /// right signing key, wrong sealing key
    WrongSealKey,
    /// sequence number 1 / cipher stream advanced
    WrongStreamPosition,
    /// honest computation for another certificate's key
    OtherCertificate(Vec<u8>),
    /// the client's own pubKeyAuth token sent back
    Reflect,
    Truncate(usize),
    Extend(usize),
    /// same content, BER long-form lengths
    BerLong,
    /// same content in another BER-but-not-DER spelling: 0 = only the [0] version length in long form (81 03),
    /// 1 = outer SEQUENCE of indefinite length, 2 = pubKeyAuth as a constructed OCTET STRING of two segments,
    /// 3 = the [3] wrapper of indefinite length, 4 = every length with exactly one redundant leading zero octet
    /// (81 9c -> 82 00 9c, 5c -> 81 5c), 5 = the same on the outer SEQUENCE only, 6 = on the OCTET STRING only
    BerForm(u8),
    ExtraTrailingField,
    MissingPubKeyAuth,
    EmptyPubKeyAuth,
    WrongContextTag,
    Version(u64),
    /// same integer with `n` extra high-order zero bytes (don't-care class)
    ZeroExtended(usize),
    /// the first n bytes of key+1 only (n < key length; n = 0 is an empty value), correctly sealed
    SealedPrefix(usize),
    /// key+1 followed by non-zero bytes, correctly sealed
    SealedWithTrailing(usize),
    /// key+2 with as many high-order zero bytes as make the whole TSRequest exactly n bytes long, correctly sealed
    /// (a wrong value whose message ends exactly on a transport chunk boundary)
    WrongPaddedTo(usize),
    /// key + 2, correctly sealed, in a TSRequest announcing this CredSSP version
    WrongWithVersion(u64),
    /// nothing is sent, the connection is closed
    Eof,
    /// these bytes, as they are (e.g. the final reply recorded from an earlier session)
    Raw(Vec<u8>),
    /// the honest value, sealed and signed correctly but numbered with this sequence number instead of 0
    SealedWithSeq(u32),
    /// a correctly sealed and signed value of this many bytes (0x5A...), whatever the key
    SealedBlob(usize),
    /// a pubKeyAuth token made of a signature header the server cannot have computed (version 1, an arbitrary checksum,
    /// sequence number 0) followed by this many arbitrary "ciphertext" bytes, in a well-formed TSRequest
    ForgedToken(usize),
}

#[derive(Clone, Debug, PartialEq, Eq, Serialize, Deserialize)]
pub struct ServerParams {
    pub cc_kind: CcKind,
    pub selected: u32,
    pub cc_flags: u8,
    pub cc_len_field: u16,
    pub user_id: u16,
    pub share_id: u32,
    pub version: u32,
    pub core_opt: u8,
    pub channels: Vec<u16>,
    pub block_order: usize,
    pub unknown_block: bool,
    pub ber_wide: usize,
    pub licence: Licence,
    pub preamble_flags: u8,
    pub caps: CapsKind,
    pub source_descriptor: Vec<u8>,
    pub reactivations: usize,
    pub ntlm: ServerCfg,
    pub final_reply: FinalReply,
    /// account the NTLM verifier checks against
    pub acct_user: String,
    pub acct_domain: String,
    pub acct_password: String,
    /// extra complete frames sent one by one once the session is active
    pub script: Vec<Vec<u8>>,
    /// send disconnect provider ultimatum after the script
    pub disconnect_after_script: bool,
    /// after the licence the server sends nothing by itself and only records client messages
    pub manual: bool,
    /// reactivations reuse the share id of the first activation (a server may do either)
    pub reuse_share_id: bool,
    /// Some(v): the share id field of the server's four finalization PDUs holds v instead of the id of the demand-active
    /// (Some(1) is special: the id of the PREVIOUS activation); the client takes its share id from the demand-active only
    pub finalization_share_id: Option<u32>,
    /// a CredSSP server that does NOT know the account's password: it cannot verify the AUTHENTICATE message nor recover
    /// the session key; the only thing it can try is to take the 16 bytes of the EncryptedRandomSessionKey field for the
    /// session key itself, and seal its (otherwise honest) final reply with keys derived from them
    pub passwordless: bool,
    /// SC_SECURITY carries the optional serverRandomLen / serverCertLen fields, both 0 (16-byte body, MS-RDPBCGR 2.2.1.4.3)
    pub sc_security_optional_lengths: bool,
    /// flagsHi of the basic security header of the licensing PDU (without SEC_FLAGSHI_VALID it may hold anything)
    pub licence_flags_hi: u16,
    /// the server closes the connection when the MCS connect-initial arrives (the security phase — TLS, CredSSP — is over,
    /// nothing of MCS is answered): what a server does that refuses what was delegated to it
    pub hang_up_after_security: bool,
    /// password-less server: 0 = the EncryptedRandomSessionKey field is taken for the session key; 1 / 2 / 3 = the field is
    /// unwrapped (RC4) with a key made of the first 8 bytes of the LM response + 8 zeros / 16 zeros / the server challenge + 8 zeros
    pub passwordless_guess: u8,
    /// re-activation: the deactivate-all rides in ONE send-data indication behind another share PDU (1 = a Save Session
    /// Info data PDU, which this client does not parse; 2 = a Set Error Info PDU); 0 = alone in its frame
    pub deactivate_packed_behind: u8,
    /// TLS peer only: every server message (TPKT / fast-path frames, not the CredSSP messages) is cut into TLS records of at most this many plaintext bytes (0 = one
    /// record per message), so that record boundaries fall inside frame headers and bodies
    pub tls_record_cap: usize,
    /// flags of the basic security header of the licensing PDU (0x0080 SEC_LICENSE_PKT, often | 0x0200)
    pub licence_sec_flags: u16,
    /// 1..4: a Set Error Info PDU (ERRINFO_NONE; the client announced support for it) is sent before the server's
    /// synchronize / control-cooperate / granted-control / font-map PDU; 0: never
    pub errinfo_before: usize,
    /// dataPriority / segmentation byte of the server's send-data indications (0x70 high priority, begin + end)
    pub sdi_priority: u8,
}

impl Default for ServerParams {
    fn default() -> Self {
        ServerParams {
            cc_kind: CcKind::Response,
            selected: 1,
            cc_flags: 0,
            cc_len_field: 8,
            user_id: 1007,
            share_id: 0x000103EA,
            version: 0x00080004,
            core_opt: 2,
            channels: vec![],
            block_order: 0,
            unknown_block: false,
            ber_wide: 0,
            licence: Licence::ValidClient { blob: vec![], blob_type: 4 },
            preamble_flags: 0x03,
            caps: CapsKind::WindowsCapture,
            source_descriptor: b"RDP\0".to_vec(),
            reactivations: 0,
            ntlm: ServerCfg::windows_like(),
            final_reply: FinalReply::Honest,
            acct_user: String::new(),
            acct_domain: String::new(),
            acct_password: String::new(),
            script: vec![],
            disconnect_after_script: false,
            manual: false,
            licence_sec_flags: 0x0080,
            errinfo_before: 0,
            sdi_priority: 0x70,
            reuse_share_id: false,
            finalization_share_id: None,
            passwordless: false,
            sc_security_optional_lengths: false,
            licence_flags_hi: 0,
            hang_up_after_security: false,
            passwordless_guess: 0,
            deactivate_packed_behind: 0,
            tls_record_cap: 0,
        }
    }
}

#[derive(Clone, Debug, PartialEq, Eq, Serialize, Deserialize)]
pub enum DevKind {
    SetByte { off: usize, val: u8 },
    SetU16 { off: usize, val: u16, be: bool },
    SetU32 { off: usize, val: u32, be: bool },
    Truncate(usize),
    Extend(Vec<u8>),
    Replace(Vec<u8>),
    /// these bytes (whole frames) are sent in front of the honest message
    Prepend(Vec<u8>),
    /// this frame, `.1` times, is sent in front of the honest message (expanded by the peer when it sends)
    PrependRepeated(Vec<u8>, usize),
    /// replace only the user payload of the frame (keeps the TPKT/X.224/MCS framing consistent)
    ReplaceInner(Vec<u8>),
}

#[derive(Clone, Debug, PartialEq, Eq, Serialize, Deserialize)]
pub struct Deviation {
    /// name of the server message it applies to
    pub msg: String,
    pub kind: DevKind,
}

pub fn apply_dev(bytes: &mut Vec<u8>, k: &DevKind) -> bool {
    match k {
        DevKind::SetByte { off, val } => {
            if *off < bytes.len() && bytes[*off] != *val {
                bytes[*off] = *val;
                return true;
            }
            false
        }
        DevKind::SetU16 { off, val, be } => {
            if off + 2 <= bytes.len() {
                let b = if *be { val.to_be_bytes() } else { val.to_le_bytes() };
                if bytes[*off..off + 2] != b {
                    bytes[*off..off + 2].copy_from_slice(&b);
                    return true;
                }
            }
            false
        }
        DevKind::SetU32 { off, val, be } => {
            if off + 4 <= bytes.len() {
                let b = if *be { val.to_be_bytes() } else { val.to_le_bytes() };
                if bytes[*off..off + 4] != b {
                    bytes[*off..off + 4].copy_from_slice(&b);
                    return true;
                }
            }
            false
        }
        DevKind::Truncate(n) => {
            if *n < bytes.len() {
                bytes.truncate(*n);
                return true;
            }
            false
        }
        DevKind::Extend(e) => {
            bytes.extend_from_slice(e);
            !e.is_empty()
        }
        DevKind::Replace(r) => {
            *bytes = r.clone();
            true
        }
        DevKind::Prepend(r) => {
            let mut v = r.clone();
            v.extend_from_slice(bytes);
            *bytes = v;
            !r.is_empty()
        }
        DevKind::PrependRepeated(frame, n) => {
            let mut v = Vec::with_capacity(frame.len() * n + bytes.len());
            for _ in 0..*n {
                v.extend_from_slice(frame);
            }
            v.extend_from_slice(bytes);
            *bytes = v;
            *n > 0 && !frame.is_empty()
        }
        DevKind::ReplaceInner(_) => false, // handled by the sender, which knows the framing
    }
}

#[derive(Clone, Debug, PartialEq, Eq, Serialize)]
pub struct ClientMsg {
    pub name: String,
    /// bytes after deframing (TPKT payload, or the raw TSRequest)
    pub raw: Vec<u8>,
    /// server bytes were still unread by the client when this message arrived
    pub pending_unread: bool,
    pub inside_tls: bool,
}

#[derive(Clone, Debug, PartialEq, Eq)]
pub enum Phase {
    ExpectCR,
    CsspNegotiate,
    CsspAuthenticate,
    CsspCredentials,
    ExpectConnectInitial,
    ExpectErect,
    ExpectAttach,
    ExpectJoin,
    ExpectClientInfo,
    SendDemandActive,
    ExpectConfirmActive,
    ExpectFinalize(u8),
    Active,
    /// only record what the client sends
    Manual,
    Closed,
}

pub struct Action {
    pub out: Vec<Vec<u8>>,
    pub start_tls: bool,
    pub close: bool,
}

pub struct RefServer {
    pub p: ServerParams,
    pub devs: Vec<Deviation>,
    pub dev_applied: Vec<bool>,
    pub phase: Phase,
    inbuf: Vec<u8>,
    pub log: Vec<ClientMsg>,
    /// (name, honest bytes, bytes actually sent)
    pub sent: Vec<(String, Vec<u8>, Vec<u8>)>,
    pub errors: Vec<String>,
    pub notes: Vec<String>,
    pub joins: Vec<u16>,
    pub requested_protocols: u32,
    pub cr_flags: u8,
    /// SubjectPublicKey of the certificate the TLS layer presents (set by the TLS wrapper)
    pub tls_pubkey: Vec<u8>,
    pub negotiate: Vec<u8>,
    pub challenge: Vec<u8>,
    pub c2s: Option<SealCtx>,
    pub s2c: Option<SealCtx>,
    pub exported_key: Option<[u8; 16]>,
    pub client_pubkeyauth: Vec<u8>,
    pub final_reply_sent: bool,
    pub bytes_after_final_reply: usize,
    /// decrypted TSCredentials (domain, user, password) as sent
    pub creds: Option<(Vec<u8>, Vec<u8>, Vec<u8>)>,
    pub activations_done: usize,
    script_pos: usize,
    pub disconnect_seen: bool,
    pub name_counter: std::collections::HashMap<String, usize>,
}

fn le_add(key: &[u8], delta: i64) -> Vec<u8> {
    // little-endian big integer + delta
    let mut v: Vec<u8> = key.to_vec();
    let mut carry: i64 = delta;
    let mut i = 0;
    while carry != 0 {
        if i == v.len() {
            if carry < 0 {
                break;
            }
            v.push(0);
        }
        let cur = v[i] as i64 + carry;
        v[i] = cur.rem_euclid(256) as u8;
        carry = cur.div_euclid(256);
        i += 1;
    }
    v
}

fn le_add_pow2(key: &[u8], j: usize, neg: bool) -> Vec<u8> {
    let mut v = key.to_vec();
    let byte = j / 8;
    while v.len() <= byte {
        v.push(0);
    }
    let mut carry: i64 = if neg { -(1i64 << (j % 8)) } else { 1i64 << (j % 8) };
    let mut i = byte;
    while carry != 0 {
        if i == v.len() {
            if carry < 0 {
                break;
            }
            v.push(0);
        }
        let cur = v[i] as i64 + carry;
        v[i] = cur.rem_euclid(256) as u8;
        carry = cur.div_euclid(256);
        i += 1;
    }
    v
}

pub fn share_id_of_activation(base: u32, k: usize) -> u32 {
    base.wrapping_add((k as u32).wrapping_mul(0x0001_0000))
}

pub fn ts_request(version: u64, nego: Option<&[u8]>, auth_info: Option<&[u8]>, pub_key_auth: Option<&[u8]>) -> Vec<u8> {
    let mut items = vec![der::explicit(0, &der::integer(version))];
    if let Some(n) = nego {
        items.push(der::explicit(1, &der::seq(&[der::seq(&[der::explicit(0, &der::octets(n))])])));
    }
    if let Some(a) = auth_info {
        items.push(der::explicit(2, &der::octets(a)));
    }
    if let Some(p) = pub_key_auth {
        items.push(der::explicit(3, &der::octets(p)));
    }
    der::seq(&items)
}

#[derive(Debug, Default, Clone)]
pub struct TsRequest {
    pub version: u64,
    pub nego_tokens: Vec<Vec<u8>>,
    pub auth_info: Option<Vec<u8>>,
    pub pub_key_auth: Option<Vec<u8>>,
}

/// strict DER parse of a TSRequest (MS-CSSP 2.2.1)
pub fn parse_ts_request(b: &[u8]) -> PResult<TsRequest> {
    let mut r = R::new(b);
    let s = der::expect(&mut r, der::UNIV_SEQ, true, "TSRequest")?;
    r.expect_end("TSRequest")?;
    let mut i = R::new(&s.content);
    let mut t = TsRequest::default();
    let v = der::expect(&mut i, der::ctx(0), true, "TSRequest.version")?;
    let mut vi = R::new(&v.content);
    t.version = der::read_uint(&mut vi, true, "version")?;
    vi.expect_end("version")?;
    let mut last_tag = 0;
    while !i.at_end() {
        let f = der::read_tlv(&mut i, true)?;
        let tag = f.id & 0x1f;
        if f.id & 0xe0 != 0xa0 || tag <= last_tag || tag > 5 {
            return Err(format!("TSRequest: unexpected field identifier {:#x}", f.id));
        }
        last_tag = tag;
        let mut c = R::new(&f.content);
        match tag {
            1 => {
                let so = der::expect(&mut c, der::UNIV_SEQ, true, "negoTokens")?;
                let mut e = R::new(&so.content);
                while !e.at_end() {
                    let item = der::expect(&mut e, der::UNIV_SEQ, true, "negoTokens item")?;
                    let mut it = R::new(&item.content);
                    let tok = der::expect(&mut it, der::ctx(0), true, "negoToken")?;
                    let mut tk = R::new(&tok.content);
                    t.nego_tokens.push(der::read_octets(&mut tk, true, "negoToken")?);
                    tk.expect_end("negoToken")?;
                    it.expect_end("negoTokens item")?;
                }
            }
            2 => t.auth_info = Some(der::read_octets(&mut c, true, "authInfo")?),
            3 => t.pub_key_auth = Some(der::read_octets(&mut c, true, "pubKeyAuth")?),
            _ => {}
        }
        if tag <= 3 {
            c.expect_end("TSRequest field")?;
        }
    }
    Ok(t)
}

/// strict parse of TSCredentials / TSPasswordCreds: (domain, user, password)
pub fn parse_ts_credentials(b: &[u8]) -> PResult<(Vec<u8>, Vec<u8>, Vec<u8>)> {
    let mut r = R::new(b);
    let s = der::expect(&mut r, der::UNIV_SEQ, true, "TSCredentials")?;
    r.expect_end("TSCredentials")?;
    let mut i = R::new(&s.content);
    let ct = der::expect(&mut i, der::ctx(0), true, "credType")?;
    let mut c = R::new(&ct.content);
    if der::read_uint(&mut c, true, "credType")? != 1 {
        return Err("TSCredentials: credType != 1".into());
    }
    let cr = der::expect(&mut i, der::ctx(1), true, "credentials")?;
    i.expect_end("TSCredentials")?;
    let mut c = R::new(&cr.content);
    let inner = der::read_octets(&mut c, true, "credentials")?;
    c.expect_end("credentials")?;
    let mut r = R::new(&inner);
    let s = der::expect(&mut r, der::UNIV_SEQ, true, "TSPasswordCreds")?;
    r.expect_end("TSPasswordCreds")?;
    let mut i = R::new(&s.content);
    let mut out = vec![];
    for n in 0..3 {
        let f = der::expect(&mut i, der::ctx(n), true, "TSPasswordCreds field")?;
        let mut c = R::new(&f.content);
        out.push(der::read_octets(&mut c, true, "TSPasswordCreds field")?);
        c.expect_end("TSPasswordCreds field")?;
    }
    i.expect_end("TSPasswordCreds")?;
    let p = out.pop().unwrap();
    let u = out.pop().unwrap();
    let d = out.pop().unwrap();
    Ok((d, u, p))
}

impl RefServer {
    pub fn new(p: ServerParams, devs: Vec<Deviation>) -> RefServer {
        let n = devs.len();
        RefServer {
            p,
            devs,
            dev_applied: vec![false; n],
            phase: Phase::ExpectCR,
            inbuf: vec![],
            log: vec![],
            sent: vec![],
            errors: vec![],
            notes: vec![],
            joins: vec![],
            requested_protocols: 0,
            cr_flags: 0,
            tls_pubkey: vec![],
            negotiate: vec![],
            challenge: vec![],
            c2s: None,
            s2c: None,
            exported_key: None,
            client_pubkeyauth: vec![],
            final_reply_sent: false,
            bytes_after_final_reply: 0,
            creds: None,
            activations_done: 0,
            script_pos: 0,
            disconnect_seen: false,
            name_counter: Default::default(),
        }
    }

    /// start directly at the MCS phase (transport already negotiated: raw stack through hook H3)
    pub fn at_mcs(p: ServerParams, devs: Vec<Deviation>) -> RefServer {
        let mut s = RefServer::new(p, devs);
        s.phase = Phase::ExpectConnectInitial;
        s
    }

    fn uniq(&mut self, base: &str) -> String {
        let c = self.name_counter.entry(base.to_string()).or_insert(0);
        *c += 1;
        if *c == 1 {
            base.to_string()
        } else {
            format!("{}_{}", base, c)
        }
    }

    /// register an outgoing message, applying the deviations addressed to it
    fn emit(&mut self, base: &str, honest: Vec<u8>, out: &mut Vec<Vec<u8>>) {
        let name = self.uniq(base);
        let mut actual = honest.clone();
        for (i, d) in self.devs.clone().iter().enumerate() {
            if d.msg == name {
                if let DevKind::ReplaceInner(inner) = &d.kind {
                    // keep the outermost framing: TPKT + X.224 data (+ MCS send data indication when present)
                    let rebuilt = self.reframe_inner(&honest, inner);
                    if rebuilt != actual {
                        actual = rebuilt;
                        self.dev_applied[i] = true;
                    }
                } else if apply_dev(&mut actual, &d.kind) {
                    self.dev_applied[i] = true;
                }
            }
        }
        self.sent.push((name, honest, actual.clone()));
        if !actual.is_empty() {
            out.push(actual);
        }
    }

    /// start as if the X.224 negotiation had already selected `p.selected` (for harnesses that drive the upgrade
    /// calls of the transport layer directly)
    pub fn skip_negotiation(&mut self) {
        self.phase = if self.p.selected == 1 { Phase::ExpectConnectInitial } else { Phase::CsspNegotiate };
    }

    fn reframe_inner(&self, honest: &[u8], inner: &[u8]) -> Vec<u8> {
        // honest = TPKT(X224DT(MCS SDin(header..., data))) or TPKT(X224DT(other))
        if honest.len() >= 8 && honest[0] == 3 && honest[7] == (26 << 2) {
            framing::tpkt(&framing::x224_dt(&mcs::send_data_indication(self.p.user_id.max(1001), 1003, inner)))
        } else if honest.len() >= 7 && honest[0] == 3 {
            framing::tpkt(&framing::x224_dt(inner))
        } else {
            inner.to_vec()
        }
    }

    fn sdi(&self, data: &[u8]) -> Vec<u8> {
        framing::tpkt(&framing::x224_dt(&mcs::send_data_indication_prio(1002, 1003, data, self.p.sdi_priority)))
    }

    fn caps(&self) -> Vec<CapSet> {
        match self.p.caps {
            CapsKind::Minimal => share::minimal_caps(),
            CapsKind::NoCapabilities => vec![],
            CapsKind::WindowsCapture | CapsKind::WithUnknown | CapsKind::WithZeroLenBody | CapsKind::InputWithoutScancodes | CapsKind::NoInputCapability | CapsKind::SmallMultifragment => {
                let cap = share::windows_capture_demand_active();
                let (_, _, mut caps, _) = share::parse_demand_active_body(&cap).expect("embedded capture");
                if self.p.caps == CapsKind::WithUnknown {
                    caps.insert(3, CapSet { ty: 0x00F0, body: vec![1, 2, 3, 4, 5, 6] });
                    caps.push(CapSet { ty: 0x1234, body: vec![] });
                }
                if self.p.caps == CapsKind::WithZeroLenBody {
                    caps.insert(1, CapSet { ty: 0x0009, body: vec![] });
                }
                if self.p.caps == CapsKind::InputWithoutScancodes {
                    for c in caps.iter_mut().filter(|c| c.ty == 0x000D && c.body.len() >= 2) {
                        c.body[0] &= !0x01;
                    }
                }
                if self.p.caps == CapsKind::NoInputCapability {
                    caps.retain(|c| c.ty != 0x000D);
                }
                if self.p.caps == CapsKind::SmallMultifragment {
                    caps.retain(|c| c.ty != 0x001A);
                    caps.insert(2, CapSet { ty: 0x001A, body: 64u32.to_le_bytes().to_vec() });
                }
                caps
            }
        }
    }

    /// share id of the current (or next) activation: a server assigns a fresh share id on every reactivation
    pub fn current_share_id(&self) -> u32 {
        share_id_of_activation(self.p.share_id, if self.p.reuse_share_id { 0 } else { self.activations_done })
    }

    fn demand_active_bytes(&self) -> Vec<u8> {
        self.sdi(&share::demand_active(self.current_share_id(), 1002, &self.p.source_descriptor, &self.caps(), 0))
    }

    fn connect_response_bytes(&self) -> Vec<u8> {
        let core = gcc::ScBlock::Core {
            version: self.p.version,
            requested: if self.p.core_opt >= 1 { Some(self.requested_protocols) } else { None },
            early_flags: if self.p.core_opt >= 2 { Some(1) } else { None },
        };
        let secb = gcc::ScBlock::Security { method: 0, level: 0 };
        let net = gcc::ScBlock::Net { io_channel: 1003, channels: self.p.channels.clone() };
        let three = [core, secb, net];
        let perms = [[0, 1, 2], [0, 2, 1], [1, 0, 2], [1, 2, 0], [2, 0, 1], [2, 1, 0]];
        let mut blocks = vec![];
        for (pos, i) in perms[self.p.block_order % 6].iter().enumerate() {
            if self.p.unknown_block && pos == 1 {
                blocks.extend(gcc::sc_block_bytes(&gcc::ScBlock::Unknown { ty: 0x0C08, body: vec![0; 8] }));
            }
            if *i == 1 && self.p.sc_security_optional_lengths {
                blocks.extend(gcc::sc_block_bytes(&gcc::ScBlock::Unknown { ty: 0x0C02, body: vec![0; 16] }));
            } else {
                blocks.extend(gcc::sc_block_bytes(&three[*i]));
            }
        }
        let ccr = gcc::conference_create_response(&blocks, 31219, 1);
        framing::tpkt(&framing::x224_dt(&mcs::connect_response(0, 0, &mcs::DEFAULT_RESPONSE_PARAMS, &ccr, self.p.ber_wide)))
    }

    fn record(&mut self, name: &str, raw: &[u8], pending: bool, tls: bool) {
        let n = self.uniq_client(name);
        self.log.push(ClientMsg { name: n, raw: raw.to_vec(), pending_unread: pending, inside_tls: tls });
    }
    fn uniq_client(&mut self, base: &str) -> String {
        let k = format!("client:{}", base);
        let c = self.name_counter.entry(k).or_insert(0);
        *c += 1;
        if *c == 1 {
            base.to_string()
        } else {
            format!("{}_{}", base, c)
        }
    }

    fn fail(&mut self, why: String) -> Action {
        self.errors.push(why);
        self.phase = Phase::Closed;
        Action { out: vec![], start_tls: false, close: true }
    }

    /// next complete unit from the input buffer: a TSRequest (DER) in the CredSSP phases, a TPKT frame otherwise
    fn next_unit(&mut self) -> Option<Result<Vec<u8>, String>> {
        let cssp = matches!(self.phase, Phase::CsspNegotiate | Phase::CsspAuthenticate | Phase::CsspCredentials);
        if self.inbuf.is_empty() {
            return None;
        }
        if cssp {
            if self.inbuf.len() < 2 {
                return None;
            }
            if self.inbuf[0] != 0x30 {
                return Some(Err(format!("CredSSP phase: first byte {:#x} is not a SEQUENCE", self.inbuf[0])));
            }
            let l0 = self.inbuf[1] as usize;
            let (hdr, len) = if l0 < 0x80 {
                (2, l0)
            } else {
                let n = l0 & 0x7f;
                if n == 0 || n > 4 {
                    return Some(Err("CredSSP: bad DER length".into()));
                }
                if self.inbuf.len() < 2 + n {
                    return None;
                }
                let mut v = 0usize;
                for b in &self.inbuf[2..2 + n] {
                    v = (v << 8) | *b as usize;
                }
                (2 + n, v)
            };
            if self.inbuf.len() < hdr + len {
                return None;
            }
            let unit: Vec<u8> = self.inbuf.drain(..hdr + len).collect();
            Some(Ok(unit))
        } else {
            match framing::deframe(&self.inbuf) {
                framing::Deframe::Frame(framing::Frame::Tpkt(p), n) => {
                    self.inbuf.drain(..n);
                    Some(Ok(p))
                }
                framing::Deframe::Frame(framing::Frame::FastPath { .. }, _) => Some(Err("client sent a fast-path frame".into())),
                framing::Deframe::Reject => Some(Err("client frame with impossible length".into())),
                framing::Deframe::Incomplete => None,
            }
        }
    }

    /// feed bytes received from the client (plaintext). Returns the messages to send.
    pub fn feed(&mut self, data: &[u8], tls_up: bool, pending_unread: bool) -> Action {
        self.inbuf.extend_from_slice(data);
        if self.final_reply_sent {
            self.bytes_after_final_reply += data.len();
        }
        let mut act = Action { out: vec![], start_tls: false, close: false };
        loop {
            if self.phase == Phase::Closed {
                break;
            }
            let unit = match self.next_unit() {
                None => break,
                Some(Err(e)) => return self.fail(e),
                Some(Ok(u)) => u,
            };
            let a = self.handle(&unit, tls_up, pending_unread);
            act.out.extend(a.out);
            act.start_tls |= a.start_tls;
            act.close |= a.close;
            if act.start_tls || act.close {
                break;
            }
        }
        act
    }

    fn handle(&mut self, unit: &[u8], tls: bool, pending: bool) -> Action {
        let mut out = vec![];
        let mut start_tls = false;
        match self.phase.clone() {
            Phase::ExpectCR => {
                self.record("connection_request", unit, pending, tls);
                if unit.len() >= 2 && unit[1] == framing::X224_CR {
                    if let Ok(cr) = framing::parse_x224_cr(unit) {
                        if let Some((_, f, p)) = cr.neg {
                            self.requested_protocols = p;
                            self.cr_flags = f;
                        }
                    } else if unit.len() >= 15 {
                        self.requested_protocols = u32::from_le_bytes([unit[11], unit[12], unit[13], unit[14]]);
                        self.cr_flags = unit[8];
                    }
                } else {
                    return self.fail("first client message is not an X.224 connection request".into());
                }
                let cc = match self.p.cc_kind {
                    CcKind::Response => framing::x224_cc(Some((2, self.p.cc_flags, self.p.cc_len_field, self.p.selected))),
                    CcKind::Failure => framing::x224_cc(Some((3, self.p.cc_flags, self.p.cc_len_field, self.p.selected))),
                    CcKind::EchoRequest => framing::x224_cc(Some((1, self.p.cc_flags, self.p.cc_len_field, self.p.selected))),
                    CcKind::Absent => framing::x224_cc(None),
                    CcKind::OtherType(t) => framing::x224_cc(Some((t, self.p.cc_flags, self.p.cc_len_field, self.p.selected))),
                };
                self.emit("cc", framing::tpkt(&cc), &mut out);
                // what a real server does next depends on what it selected
                if self.p.cc_kind == CcKind::Response && (self.p.selected == 1 || self.p.selected == 2 || self.p.selected == 8) {
                    start_tls = true;
                    self.phase = if self.p.selected == 1 { Phase::ExpectConnectInitial } else { Phase::CsspNegotiate };
                } else {
                    // plain RDP security selected, or negotiation failed: a server would carry on in clear text / close.
                    self.phase = Phase::ExpectConnectInitial;
                }
            }
            Phase::CsspNegotiate => {
                self.record("cssp_negotiate", unit, pending, tls);
                let t = match parse_ts_request(unit) {
                    Ok(t) => t,
                    Err(e) => return self.fail(format!("TSRequest(negotiate): {}", e)),
                };
                if t.nego_tokens.len() != 1 {
                    return self.fail("TSRequest(negotiate): expected one negoToken".into());
                }
                self.negotiate = t.nego_tokens[0].clone();
                self.challenge = rn::challenge_message(&self.p.ntlm);
                let ch = self.challenge.clone();
                self.emit("cssp_challenge", ts_request(2, Some(&ch), None, None), &mut out);
                // a deviation may have altered the NTLM token inside: keep what was really sent for the MIC
                if let Some((_, _, actual)) = self.sent.last() {
                    if let Ok(t) = parse_ts_request(actual) {
                        if let Some(tok) = t.nego_tokens.first() {
                            self.challenge = tok.clone();
                        }
                    }
                }
                self.phase = Phase::CsspAuthenticate;
            }
            Phase::CsspAuthenticate => {
                self.record("cssp_authenticate", unit, pending, tls);
                let t = match parse_ts_request(unit) {
                    Ok(t) => t,
                    Err(e) => return self.fail(format!("TSRequest(authenticate): {}", e)),
                };
                let (tok, pka) = match (t.nego_tokens.first(), &t.pub_key_auth) {
                    (Some(a), Some(b)) => (a.clone(), b.clone()),
                    _ => return self.fail("TSRequest(authenticate): negoToken and pubKeyAuth required".into()),
                };
                self.client_pubkeyauth = pka.clone();
                if self.p.passwordless {
                    let (field, lm) = match rn::parse_authenticate(&tok) {
                        Ok(a) => (a.enc_key, a.lm),
                        Err(e) => return self.fail(format!("NTLM AUTHENTICATE does not parse: {}", e)),
                    };
                    let field = if self.p.passwordless_guess > 0 && field.len() == 16 {
                        let mut key = vec![0u8; 16];
                        match self.p.passwordless_guess {
                            1 if lm.len() >= 8 => key[..8].copy_from_slice(&lm[..8]),
                            3 => key[..8].copy_from_slice(&self.p.ntlm.challenge),
                            _ => {}
                        }
                        vref::crypto::Rc4::new(&key).apply(&field)
                    } else {
                        field
                    };
                    if field.len() != 16 {
                        return self.fail(format!("passwordless server: EncryptedRandomSessionKey of {} bytes", field.len()));
                    }
                    let mut k = [0u8; 16];
                    k.copy_from_slice(&field);
                    self.exported_key = Some(k);
                    let mut c2s = SealCtx::new(&k, true);
                    let mut s2c = SealCtx::new(&k, false);
                    if self.p.ntlm.flags & vref::ntlm::F_SEAL == 0 {
                        c2s.confidential = false;
                        s2c.confidential = false;
                    }
                    self.c2s = Some(c2s);
                    self.s2c = Some(s2c);
                    let reply = self.final_reply_bytes();
                    self.final_reply_sent = true;
                    if let Some(r) = reply {
                        self.emit("cssp_pubkey", r, &mut out);
                        self.phase = Phase::CsspCredentials;
                    }
                    return Action { out, start_tls: false, close: false };
                }
                let hash = rn::nt_hash(&self.p.acct_password);
                let ok = match rn::verify_authenticate(&self.negotiate, &self.challenge, &tok, &self.p.ntlm, &self.p.acct_user, &self.p.acct_domain, &hash) {
                    Ok(ok) => ok,
                    Err(e) => return self.fail(format!("NTLM AUTHENTICATE rejected: {}", e)),
                };
                self.notes.extend(ok.notes.clone());
                self.exported_key = Some(ok.exported_session_key);
                let mut c2s = SealCtx::new(&ok.exported_session_key, true);
                let mut s2c = SealCtx::new(&ok.exported_session_key, false);
                // a server whose CHALLENGE did not negotiate SEAL signs without encrypting, and expects the same
                if self.p.ntlm.flags & vref::ntlm::F_SEAL == 0 {
                    c2s.confidential = false;
                    s2c.confidential = false;
                }
                let seen_key = match c2s.unwrap(&pka) {
                    Ok(k) => k,
                    Err(e) => return self.fail(format!("client pubKeyAuth does not unseal: {}", e)),
                };
                if seen_key != self.tls_pubkey {
                    return self.fail("client pubKeyAuth is not the SubjectPublicKey of the presented certificate".into());
                }
                self.c2s = Some(c2s);
                self.s2c = Some(s2c);
                let reply = self.final_reply_bytes();
                self.final_reply_sent = true;
                match reply {
                    Some(r) => {
                        self.emit("cssp_pubkey", r, &mut out);
                        self.phase = Phase::CsspCredentials;
                    }
                    None => {
                        self.phase = Phase::Closed;
                        return Action { out, start_tls: false, close: true };
                    }
                }
            }
            Phase::CsspCredentials => {
                self.record("cssp_credentials", unit, pending, tls);
                let t = match parse_ts_request(unit) {
                    Ok(t) => t,
                    Err(e) => return self.fail(format!("TSRequest(credentials): {}", e)),
                };
                let ai = match t.auth_info {
                    Some(a) => a,
                    None => return self.fail("TSRequest(credentials): authInfo missing".into()),
                };
                let pt = match self.c2s.as_mut().unwrap().unwrap(&ai) {
                    Ok(p) => p,
                    Err(e) => return self.fail(format!("authInfo does not unseal: {}", e)),
                };
                match parse_ts_credentials(&pt) {
                    Ok(c) => self.creds = Some(c),
                    Err(e) => return self.fail(format!("TSCredentials: {}", e)),
                }
                self.phase = Phase::ExpectConnectInitial;
            }
            Phase::ExpectConnectInitial => {
                self.record("connect_initial", unit, pending, tls);
                if self.p.hang_up_after_security {
                    self.phase = Phase::Closed;
                    return Action { out: vec![], start_tls: false, close: true };
                }
                if framing::parse_x224_dt(unit).is_err() {
                    return self.fail("connect-initial: not an X.224 data TPDU".into());
                }
                let cr = self.connect_response_bytes();
                self.emit("connect_response", cr, &mut out);
                self.phase = Phase::ExpectErect;
            }
            Phase::ExpectErect => {
                self.record("erect_domain", unit, pending, tls);
                if unit.len() < 4 || unit[3] >> 2 != 1 {
                    return self.fail("expected erect-domain request".into());
                }
                self.phase = Phase::ExpectAttach;
            }
            Phase::ExpectAttach => {
                self.record("attach_user", unit, pending, tls);
                if unit.len() < 4 || unit[3] >> 2 != 10 {
                    return self.fail("expected attach-user request".into());
                }
                let b = framing::tpkt(&framing::x224_dt(&mcs::attach_user_confirm(0, self.p.user_id)));
                self.emit("attach_confirm", b, &mut out);
                self.phase = Phase::ExpectJoin;
            }
            Phase::ExpectJoin => {
                // joins continue until a send-data request (client info) arrives
                if unit.len() >= 4 && unit[3] >> 2 == 14 {
                    self.record("channel_join", unit, pending, tls);
                    if unit.len() < 8 {
                        return self.fail("channel join request too short".into());
                    }
                    let ch = u16::from_be_bytes([unit[6], unit[7]]);
                    self.joins.push(ch);
                    let b = framing::tpkt(&framing::x224_dt(&mcs::channel_join_confirm(0, self.p.user_id, ch, ch)));
                    self.emit("join_confirm", b, &mut out);
                } else {
                    self.phase = Phase::ExpectClientInfo;
                    return self.handle(unit, tls, pending);
                }
            }
            Phase::ExpectClientInfo => {
                self.record("client_info", unit, pending, tls);
                if unit.len() < 4 || unit[3] >> 2 != 25 {
                    return self.fail("expected send-data request carrying client info".into());
                }
                let mut lic_pdu = sec::licence_pdu_flags(&self.p.licence, self.p.preamble_flags, self.p.licence_sec_flags);
                lic_pdu[2..4].copy_from_slice(&self.p.licence_flags_hi.to_le_bytes());
                let lic = self.sdi(&lic_pdu);
                self.emit("licence", lic, &mut out);
                self.phase = if self.p.manual { Phase::Manual } else { Phase::SendDemandActive };
            }
            Phase::SendDemandActive => {
                self.record("unexpected_before_demand_active", unit, pending, tls);
            }
            Phase::ExpectConfirmActive => {
                self.record("confirm_active", unit, pending, tls);
                self.phase = Phase::ExpectFinalize(0);
            }
            Phase::ExpectFinalize(k) => {
                let names = ["synchronize", "control_cooperate", "control_request", "font_list"];
                self.record(names[k as usize], unit, pending, tls);
                if k == 3 {
                    let (sid, uid) = (self.current_share_id(), self.p.user_id);
                    let real_sid = sid;
                    let sid = match self.p.finalization_share_id {
                        Some(1) => share_id_of_activation(self.p.share_id, self.activations_done.saturating_sub(1)),
                        Some(v) => v,
                        None => sid,
                    };
                    let _ = real_sid;
                    let extra = |me: &mut Self, k: usize, out: &mut Vec<Vec<u8>>| {
                        if me.p.errinfo_before == k {
                            let e = me.sdi(&share::set_error_info(sid, 1002, 0));
                            me.emit("errinfo", e, out);
                        }
                    };
                    extra(self, 1, &mut out);
                    let s1 = self.sdi(&share::synchronize(sid, 1002, uid));
                    self.emit("sync", s1, &mut out);
                    extra(self, 2, &mut out);
                    let s2 = self.sdi(&share::control(sid, 1002, share::CTRLACTION_COOPERATE, 0, 0));
                    self.emit("coop", s2, &mut out);
                    extra(self, 3, &mut out);
                    let s3 = self.sdi(&share::control(sid, 1002, share::CTRLACTION_GRANTED_CONTROL, uid, 0x03EA));
                    self.emit("granted", s3, &mut out);
                    extra(self, 4, &mut out);
                    let s4 = self.sdi(&share::font_map(sid, 1002));
                    self.emit("fontmap", s4, &mut out);
                    self.activations_done += 1;
                    self.phase = Phase::Active;
                } else {
                    self.phase = Phase::ExpectFinalize(k + 1);
                }
            }
            Phase::Active => {
                // input PDUs, shutdown
                if unit.len() >= 4 && unit[3] >> 2 == 8 {
                    self.record("disconnect_ultimatum", unit, pending, tls);
                    self.disconnect_seen = true;
                } else {
                    self.record("active_data", unit, pending, tls);
                }
            }
            Phase::Manual => {
                if unit.len() >= 4 && unit[3] >> 2 == 8 {
                    self.disconnect_seen = true;
                    self.record("disconnect_ultimatum", unit, pending, tls);
                } else {
                    self.record("manual_data", unit, pending, tls);
                }
            }
            Phase::Closed => {}
        }
        Action { out, start_tls, close: false }
    }

    /// called when the client blocks reading with nothing queued: unsolicited server messages
    pub fn idle(&mut self) -> Vec<Vec<u8>> {
        let mut out = vec![];
        match self.phase {
            Phase::SendDemandActive => {
                let b = self.demand_active_bytes();
                self.emit("demand_active", b, &mut out);
                self.phase = Phase::ExpectConfirmActive;
            }
            Phase::Active => {
                if self.activations_done <= self.p.reactivations {
                    let old_share = share_id_of_activation(self.p.share_id, if self.p.reuse_share_id { 0 } else { self.activations_done - 1 });
                    let mut body = match self.p.deactivate_packed_behind {
                        1 => share::share_data(old_share, 1002, share::PDUTYPE2_SAVE_SESSION_INFO, &[2, 0, 0, 0, 0, 0, 0, 0]),
                        2 => share::set_error_info(old_share, 1002, 0),
                        _ => vec![],
                    };
                    body.extend(share::deactivate_all(old_share, 1002));
                    let d = self.sdi(&body);
                    self.emit("deactivate_all", d, &mut out);
                    let b = self.demand_active_bytes();
                    self.emit("demand_active", b, &mut out);
                    self.phase = Phase::ExpectConfirmActive;
                } else if self.script_pos < self.p.script.len() {
                    let f = self.p.script[self.script_pos].clone();
                    self.script_pos += 1;
                    self.emit("script", f, &mut out);
                } else if self.p.disconnect_after_script && !self.disconnect_seen {
                    self.disconnect_seen = true;
                    let f = framing::tpkt(&framing::x224_dt(&mcs::disconnect_provider_ultimatum(3)));
                    self.emit("server_disconnect", f, &mut out);
                }
            }
            _ => {}
        }
        out
    }

    fn final_reply_bytes(&mut self) -> Option<Vec<u8>> {
        let key = self.tls_pubkey.clone();
        let exported = self.exported_key.unwrap();
        let honest_plain = le_add(&key, 1);
        let mut s2c = self.s2c.clone().unwrap();
        let wrap_honest = |ctx: &mut SealCtx, pt: &[u8]| ts_request(2, None, None, Some(&ctx.wrap(pt)));
        Some(match self.p.final_reply.clone() {
            FinalReply::Honest => wrap_honest(&mut s2c, &honest_plain),
            FinalReply::FlipBit(n) => {
                let mut b = wrap_honest(&mut s2c, &honest_plain);
                if n / 8 < b.len() {
                    b[n / 8] ^= 1 << (n % 8);
                }
                b
            }
            FinalReply::Offset(d) => wrap_honest(&mut s2c, &le_add(&key, d)),
            FinalReply::Pow2(j, neg) => wrap_honest(&mut s2c, &le_add_pow2(&key, j, neg)),
            FinalReply::ClientDirectionKeys => {
                let mut c = SealCtx::new(&exported, true);
                wrap_honest(&mut c, &honest_plain)
            }
            FinalReply::OtherSessionKey => {
                let mut other = exported;
                other[0] ^= 1;
                let mut c = SealCtx::new(&other, false);
                wrap_honest(&mut c, &honest_plain)
            }
            FinalReply::WrongSignKey => {
                let mut c = SealCtx::new(&exported, false);
                c.sign_key[3] ^= 0x10;
                wrap_honest(&mut c, &honest_plain)
            }
            FinalReply::WrongSealKey => {
                let mut other = exported;
                other[5] ^= 0x40;
                let mut c = SealCtx::new(&other, false);
                c.sign_key = SealCtx::new(&exported, false).sign_key;
                wrap_honest(&mut c, &honest_plain)
            }
            FinalReply::WrongStreamPosition => {
                let mut c = SealCtx::new(&exported, false);
                let _ = c.wrap(b"skipped message");
                wrap_honest(&mut c, &honest_plain)
            }
            FinalReply::OtherCertificate(k) => wrap_honest(&mut s2c, &le_add(&k, 1)),
            FinalReply::Reflect => ts_request(2, None, None, Some(&self.client_pubkeyauth.clone())),
            FinalReply::Truncate(n) => {
                let mut b = wrap_honest(&mut s2c, &honest_plain);
                b.truncate(n);
                if b.is_empty() {
                    return None;
                }
                b
            }
            FinalReply::Extend(n) => {
                let mut b = wrap_honest(&mut s2c, &honest_plain);
                b.extend(std::iter::repeat(0x5a).take(n));
                b
            }
            FinalReply::BerLong => {
                let sealed = s2c.wrap(&honest_plain);
                let pka = der::tlv_wide(der::ctx(3), &der::tlv_wide(der::UNIV_OCTET, &sealed, 3), 3);
                der::tlv_wide(der::UNIV_SEQ, &[der::explicit(0, &der::integer(2)), pka].concat(), 4)
            }
            FinalReply::BerForm(k) => {
                let sealed = s2c.wrap(&honest_plain);
                let version = der::explicit(0, &der::integer(2));
                let indefinite = |tag: u8, content: &[u8]| [vec![tag, 0x80], content.to_vec(), vec![0, 0]].concat();
                match k {
                    0 => der::seq(&[der::tlv_wide(der::ctx(0), &der::integer(2), 1), der::explicit(3, &der::octets(&sealed))]),
                    1 => indefinite(0x30, &[version, der::explicit(3, &der::octets(&sealed))].concat()),
                    2 => {
                        let (a, b) = sealed.split_at(sealed.len() / 2);
                        der::seq(&[version, der::explicit(3, &der::tlv(0x24, &[der::octets(a), der::octets(b)].concat()))])
                    }
                    3 => der::seq(&[version, indefinite(0xA3, &der::octets(&sealed))]),
                    _ => {
                        // minimal length octets plus one leading zero
                        let plus_one = |tag: u8, content: &[u8]| -> Vec<u8> {
                            let n = content.len();
                            let minimal: Vec<u8> = n.to_be_bytes().iter().copied().skip_while(|b| *b == 0).collect();
                            let mut v = vec![tag];
                            if n < 0x80 {
                                v.extend([0x81, n as u8]);
                            } else {
                                v.push(0x80 | (minimal.len() as u8 + 1));
                                v.push(0);
                                v.extend(&minimal);
                            }
                            v.extend_from_slice(content);
                            v
                        };
                        let honest = |tag: u8, content: &[u8]| der::tlv(tag as u32, content);
                        let (f_seq, f_wrap, f_oct): (bool, bool, bool) = match k {
                            4 => (true, true, true),
                            5 => (true, false, false),
                            _ => (false, false, true),
                        };
                        let oct = if f_oct { plus_one(0x04, &sealed) } else { honest(0x04, &sealed) };
                        let wrap = if f_wrap { plus_one(0xA3, &oct) } else { honest(0xA3, &oct) };
                        let body = [version, wrap].concat();
                        if f_seq { plus_one(0x30, &body) } else { honest(0x30, &body) }
                    }
                }
            }
            FinalReply::ExtraTrailingField => {
                let sealed = s2c.wrap(&honest_plain);
                der::seq(&[der::explicit(0, &der::integer(2)), der::explicit(3, &der::octets(&sealed)), der::explicit(4, &der::integer(0))])
            }
            FinalReply::MissingPubKeyAuth => ts_request(2, None, None, None),
            FinalReply::EmptyPubKeyAuth => ts_request(2, None, None, Some(&[])),
            FinalReply::WrongContextTag => {
                let sealed = s2c.wrap(&honest_plain);
                der::seq(&[der::explicit(0, &der::integer(2)), der::explicit(2, &der::octets(&sealed))])
            }
            FinalReply::Version(v) => {
                let sealed = s2c.wrap(&honest_plain);
                ts_request(v, None, None, Some(&sealed))
            }
            FinalReply::WrongWithVersion(v) => {
                let wrong = le_add(&key, 2);
                let sealed = s2c.wrap(&wrong);
                ts_request(v, None, None, Some(&sealed))
            }
            FinalReply::ZeroExtended(n) => {
                let mut p = honest_plain.clone();
                p.extend(std::iter::repeat(0).take(n));
                wrap_honest(&mut s2c, &p)
            }
            FinalReply::WrongPaddedTo(n) => {
                let wrong = le_add(&key, 2);
                let build = |pad: usize| {
                    let mut p = wrong.clone();
                    p.extend(std::iter::repeat(0).take(pad));
                    wrap_honest(&mut s2c.clone(), &p)
                };
                // the message length grows monotonically with the padding (DER lengths change width on the way):
                // smallest padding that reaches n
                let (mut lo, mut hi) = (0usize, n);
                while lo < hi {
                    let mid = (lo + hi) / 2;
                    if build(mid).len() >= n {
                        hi = mid;
                    } else {
                        lo = mid + 1;
                    }
                }
                build(lo)
            }
            FinalReply::SealedPrefix(n) => {
                let p = honest_plain[..n.min(honest_plain.len())].to_vec();
                wrap_honest(&mut s2c, &p)
            }
            FinalReply::SealedWithTrailing(n) => {
                let mut p = honest_plain.clone();
                p.extend(std::iter::repeat(0x01).take(n));
                wrap_honest(&mut s2c, &p)
            }
            FinalReply::Eof => return None,
            FinalReply::Raw(b) => b,
            FinalReply::SealedWithSeq(seq) => {
                let mut c = s2c.clone();
                c.seq = seq;
                wrap_honest(&mut c, &honest_plain)
            }
            FinalReply::SealedBlob(n) => wrap_honest(&mut s2c, &vec![0x5A; n]),
            FinalReply::ForgedToken(n) => {
                let mut tok = vec![1u8, 0, 0, 0, 0x11, 0x22, 0x33, 0x44, 0x55, 0x66, 0x77, 0x88, 0, 0, 0, 0];
                tok.extend((0..n).map(|i| (i as u8).wrapping_mul(37) ^ 0xA5));
                ts_request(2, None, None, Some(&tok))
            }
        })
    }
}

// ------------------------------------------------------------------ raw (no TLS) peer over MemLink

use crate::memlink::{Peer, Shared};

pub struct RawPeer {
    pub srv: RefServer,
}

impl Peer for RawPeer {
    fn pump(&mut self, sh: &mut Shared, want_read: bool) {
        let pending = !sh.to_client.is_empty();
        let data: Vec<u8> = sh.pending_from_client().to_vec();
        sh.peer_pos += data.len();
        if !data.is_empty() {
            let act = self.srv.feed(&data, false, pending);
            for m in act.out {
                sh.push_to_client(&m);
            }
        }
        if want_read && sh.to_client.is_empty() {
            for m in self.srv.idle() {
                sh.push_to_client(&m);
            }
        }
    }
}
