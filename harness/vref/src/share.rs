//! Reference for share control / share data headers and the activation PDUs
//! (MS-RDPBCGR 2.2.8.1.1.1, 2.2.1.13 – 2.2.1.22, 2.2.3.1, 2.2.8.1.1.3).

use crate::bytes::*;

pub const PDUTYPE_DEMANDACTIVE: u16 = 0x11;
pub const PDUTYPE_CONFIRMACTIVE: u16 = 0x13;
pub const PDUTYPE_DEACTIVATEALL: u16 = 0x16;
pub const PDUTYPE_DATA: u16 = 0x17;

pub const PDUTYPE2_UPDATE: u8 = 0x02;
pub const PDUTYPE2_CONTROL: u8 = 0x14;
pub const PDUTYPE2_POINTER: u8 = 0x1B;
pub const PDUTYPE2_INPUT: u8 = 0x1C;
pub const PDUTYPE2_SYNCHRONIZE: u8 = 0x1F;
pub const PDUTYPE2_PLAY_SOUND: u8 = 0x22;
pub const PDUTYPE2_SAVE_SESSION_INFO: u8 = 0x26;
pub const PDUTYPE2_FONTLIST: u8 = 0x27;
pub const PDUTYPE2_FONTMAP: u8 = 0x28;
pub const PDUTYPE2_SET_ERROR_INFO: u8 = 0x2F;

pub const CTRLACTION_REQUEST_CONTROL: u16 = 1;
pub const CTRLACTION_GRANTED_CONTROL: u16 = 2;
pub const CTRLACTION_DETACH: u16 = 3;
pub const CTRLACTION_COOPERATE: u16 = 4;

// ------------------------------------------------------------------ server side builders

pub fn share_control(pdu_type: u16, pdu_source: u16, body: &[u8]) -> Vec<u8> {
    let mut w = W::new();
    w.u16le((body.len() + 6) as u16).u16le(pdu_type).u16le(pdu_source).bytes(body);
    w.done()
}

/// share data PDU (server form: uncompressedLength = payload + 18, i.e. the totalLength convention
/// Windows servers use, see DESIGN "lenient fields")
pub fn share_data(share_id: u32, pdu_source: u16, pdu_type2: u8, payload: &[u8]) -> Vec<u8> {
    let mut w = W::new();
    w.u32le(share_id).u8(0).u8(1).u16le((payload.len() + 18) as u16).u8(pdu_type2).u8(0).u16le(0).bytes(payload);
    share_control(PDUTYPE_DATA, pdu_source, &w.0)
}

#[derive(Clone, Debug, PartialEq, Eq, serde::Serialize, serde::Deserialize)]
pub struct CapSet {
    pub ty: u16,
    pub body: Vec<u8>,
}

pub fn cap_bytes(c: &CapSet) -> Vec<u8> {
    let mut w = W::new();
    w.u16le(c.ty).u16le((c.body.len() + 4) as u16).bytes(&c.body);
    w.done()
}

pub fn demand_active(share_id: u32, pdu_source: u16, source_descriptor: &[u8], caps: &[CapSet], session_id: u32) -> Vec<u8> {
    let capbytes: Vec<u8> = caps.iter().flat_map(cap_bytes).collect();
    let mut w = W::new();
    w.u32le(share_id)
        .u16le(source_descriptor.len() as u16)
        .u16le((capbytes.len() + 4) as u16)
        .bytes(source_descriptor)
        .u16le(caps.len() as u16)
        .u16le(0)
        .bytes(&capbytes)
        .u32le(session_id);
    share_control(PDUTYPE_DEMANDACTIVE, pdu_source, &w.0)
}

pub fn deactivate_all(share_id: u32, pdu_source: u16) -> Vec<u8> {
    let mut w = W::new();
    w.u32le(share_id).u16le(1).u8(0);
    share_control(PDUTYPE_DEACTIVATEALL, pdu_source, &w.0)
}

pub fn synchronize(share_id: u32, src: u16, target_user: u16) -> Vec<u8> {
    let mut w = W::new();
    w.u16le(1).u16le(target_user);
    share_data(share_id, src, PDUTYPE2_SYNCHRONIZE, &w.0)
}

pub fn control(share_id: u32, src: u16, action: u16, grant_id: u16, control_id: u32) -> Vec<u8> {
    let mut w = W::new();
    w.u16le(action).u16le(grant_id).u32le(control_id);
    share_data(share_id, src, PDUTYPE2_CONTROL, &w.0)
}

pub fn font_map(share_id: u32, src: u16) -> Vec<u8> {
    font_map_flags(share_id, src, 3)
}

/// font map with other mapFlags than FONTMAP_FIRST | FONTMAP_LAST (a client does not interpret them)
pub fn font_map_flags(share_id: u32, src: u16, map_flags: u16) -> Vec<u8> {
    let mut w = W::new();
    w.u16le(0).u16le(0).u16le(map_flags).u16le(4);
    share_data(share_id, src, PDUTYPE2_FONTMAP, &w.0)
}

/// TS_FONT_LIST_PDU (a client-to-server PDU whose body has the layout of the font map) as a server would send it
pub fn font_list_from_server(share_id: u32, src: u16) -> Vec<u8> {
    let mut w = W::new();
    w.u16le(0).u16le(0).u16le(3).u16le(0x32);
    share_data(share_id, src, 0x27, &w.0)
}

pub fn set_error_info(share_id: u32, src: u16, code: u32) -> Vec<u8> {
    let mut w = W::new();
    w.u32le(code);
    share_data(share_id, src, PDUTYPE2_SET_ERROR_INFO, &w.0)
}

pub fn save_session_info(share_id: u32, src: u16) -> Vec<u8> {
    // infoType = INFOTYPE_LOGON_PLAIN_NOTIFY (2) + 576 bytes pad
    let mut w = W::new();
    w.u32le(2).zeros(576);
    share_data(share_id, src, PDUTYPE2_SAVE_SESSION_INFO, &w.0)
}

/// the capability sets of the Windows capture embedded in rdp-rs's own tests (global.rs), decoded
pub fn windows_capture_demand_active() -> Vec<u8> {
    vec![
        234, 3, 1, 0, 4, 0, 179, 1, 82, 68, 80, 0, 17, 0, 0, 0, 9, 0, 8, 0, 234, 3, 0, 0, 1, 0, 24, 0, 1, 0, 3, 0, 0,
        2, 0, 0, 0, 0, 29, 4, 0, 0, 0, 0, 0, 0, 1, 1, 20, 0, 12, 0, 2, 0, 0, 0, 64, 6, 0, 0, 10, 0, 8, 0, 6, 0, 0, 0,
        8, 0, 10, 0, 1, 0, 25, 0, 25, 0, 27, 0, 6, 0, 3, 0, 14, 0, 8, 0, 1, 0, 0, 0, 2, 0, 28, 0, 32, 0, 1, 0, 1, 0, 1,
        0, 32, 3, 88, 2, 0, 0, 1, 0, 1, 0, 0, 30, 1, 0, 0, 0, 29, 0, 96, 0, 4, 185, 27, 141, 202, 15, 0, 79, 21, 88,
        159, 174, 45, 26, 135, 226, 214, 0, 3, 0, 1, 1, 3, 18, 47, 119, 118, 114, 189, 99, 68, 175, 179, 183, 60, 156,
        111, 120, 134, 0, 4, 0, 0, 0, 0, 0, 166, 81, 67, 156, 53, 53, 174, 66, 145, 12, 205, 252, 229, 118, 11, 88, 0,
        4, 0, 0, 0, 0, 0, 212, 204, 68, 39, 138, 157, 116, 78, 128, 60, 14, 203, 238, 161, 156, 84, 0, 4, 0, 0, 0, 0,
        0, 3, 0, 88, 0, 0, 0, 0, 0, 0, 0, 0, 0, 0, 0, 0, 0, 0, 0, 0, 0, 64, 66, 15, 0, 1, 0, 20, 0, 0, 0, 1, 0, 0, 0,
        170, 0, 1, 1, 1, 1, 1, 0, 0, 0, 1, 0, 0, 1, 0, 0, 0, 1, 1, 1, 1, 1, 1, 1, 1, 0, 1, 1, 1, 1, 0, 0, 0, 0, 161, 6,
        6, 0, 64, 66, 15, 0, 64, 66, 15, 0, 1, 0, 0, 0, 0, 0, 0, 0, 18, 0, 8, 0, 1, 0, 0, 0, 13, 0, 88, 0, 117, 3, 0,
        0, 0, 0, 0, 0, 0, 0, 0, 0, 0, 0, 0, 0, 0, 0, 0, 0, 0, 0, 0, 0, 0, 0, 0, 0, 0, 0, 0, 0, 0, 0, 0, 0, 0, 0, 0, 0,
        0, 0, 0, 0, 0, 0, 0, 0, 0, 0, 0, 0, 0, 0, 0, 0, 0, 0, 0, 0, 0, 0, 0, 0, 0, 0, 0, 0, 0, 0, 0, 0, 0, 0, 0, 0, 0,
        0, 0, 0, 0, 0, 0, 0, 23, 0, 8, 0, 255, 0, 0, 0, 24, 0, 11, 0, 2, 0, 0, 0, 3, 12, 0, 26, 0, 8, 0, 43, 72, 9, 0,
        28, 0, 12, 0, 82, 0, 0, 0, 0, 0, 0, 0, 30, 0, 8, 0, 0, 0, 0, 0, 0, 0, 0, 0,
    ]
}

/// decode the body of a Demand Active PDU (after the share control header) into its parts
pub fn parse_demand_active_body(b: &[u8]) -> PResult<(u32, Vec<u8>, Vec<CapSet>, u32)> {
    let mut r = R::new(b);
    let share_id = r.u32le()?;
    let lsd = r.u16le()? as usize;
    let lcc = r.u16le()? as usize;
    let sd = r.take(lsd)?.to_vec();
    if lcc < 4 {
        return Err("demand active: lengthCombinedCapabilities < 4".into());
    }
    let cc = r.take(lcc)?;
    let mut c = R::new(cc);
    let n = c.u16le()? as usize;
    let _pad = c.u16le()?;
    let mut caps = vec![];
    for _ in 0..n {
        let ty = c.u16le()?;
        let len = c.u16le()? as usize;
        if len < 4 {
            return Err("capability set length < 4".into());
        }
        caps.push(CapSet { ty, body: c.take(len - 4)?.to_vec() });
    }
    c.expect_end("combined capabilities")?;
    let session_id = r.u32le()?;
    r.expect_end("demand active")?;
    Ok((share_id, sd, caps, session_id))
}

pub fn minimal_caps() -> Vec<CapSet> {
    // general capability set only (24 bytes total)
    let mut w = W::new();
    w.u16le(1).u16le(3).u16le(0x0200).u16le(0).u16le(0).u16le(0x041d).u16le(0).u16le(0).u16le(0).u8(1).u8(1);
    vec![CapSet { ty: 1, body: w.done() }]
}

// ------------------------------------------------------------------ client side strict parsers

#[derive(Clone, Debug, PartialEq, Eq)]
pub struct ShareControl {
    pub total_length: u16,
    pub pdu_type: u16,
    pub pdu_source: u16,
    pub body: Vec<u8>,
}

pub fn parse_share_control(b: &[u8]) -> PResult<ShareControl> {
    let mut r = R::new(b);
    let total_length = r.u16le()?;
    let pdu_type = r.u16le()?;
    let pdu_source = r.u16le()?;
    if total_length as usize != b.len() {
        return Err(format!("share control: totalLength {} != PDU size {}", total_length, b.len()));
    }
    if pdu_type & 0xfff0 != 0x0010 {
        return Err(format!("share control: pduType {:#x} lacks protocol version 1", pdu_type));
    }
    Ok(ShareControl { total_length, pdu_type, pdu_source, body: r.rest().to_vec() })
}

#[derive(Clone, Debug, PartialEq, Eq)]
pub struct ShareData {
    pub share_id: u32,
    pub stream_id: u8,
    pub uncompressed_length: u16,
    pub pdu_type2: u8,
    pub compressed_type: u8,
    pub compressed_length: u16,
    pub payload: Vec<u8>,
}

/// `uncompressedLength` is accepted in the three spellings found in deployed stacks
/// (payload+18 Windows/totalLength form, payload+4 MS client example, payload only)
pub fn parse_share_data(body: &[u8]) -> PResult<ShareData> {
    let mut r = R::new(body);
    let share_id = r.u32le()?;
    let _pad1 = r.u8()?;
    let stream_id = r.u8()?;
    let uncompressed_length = r.u16le()?;
    let pdu_type2 = r.u8()?;
    let compressed_type = r.u8()?;
    let compressed_length = r.u16le()?;
    let payload = r.rest().to_vec();
    let ul = uncompressed_length as usize;
    if ul != payload.len() + 18 && ul != payload.len() + 4 && ul != payload.len() {
        return Err(format!("share data: uncompressedLength {} inconsistent with payload of {} bytes", ul, payload.len()));
    }
    if !(1..=4).contains(&stream_id) {
        return Err(format!("share data: streamId {}", stream_id));
    }
    if compressed_type != 0 || compressed_length != 0 {
        return Err("share data: client PDU marked compressed".into());
    }
    Ok(ShareData { share_id, stream_id, uncompressed_length, pdu_type2, compressed_type, compressed_length, payload })
}

#[derive(Clone, Debug, PartialEq, Eq)]
pub struct ConfirmActive {
    pub share_id: u32,
    pub originator_id: u16,
    pub source_descriptor: Vec<u8>,
    pub caps: Vec<CapSet>,
}

/// allowed lengthCapability values per capability type (MS-RDPBCGR 2.2.7)
pub fn cap_sizes(ty: u16) -> Option<&'static [usize]> {
    Some(match ty {
        1 => &[24],
        2 => &[28],
        3 => &[88],
        4 => &[40],
        5 => &[12],
        7 => &[12],
        8 => &[8, 10],
        9 => &[8],
        10 => &[8],
        12 => &[8],
        13 => &[88],
        14 => &[4, 8],
        15 => &[8],
        16 => &[52],
        17 => &[12],
        18 => &[8],
        19 => &[40],
        20 => &[8, 12],
        21 => &[12],
        22 => &[40],
        23 => &[8],
        24 => &[11],
        25 => &[6],
        26 => &[8],
        27 => &[6],
        28 => &[12],
        30 => &[8],
        _ => return None,
    })
}

pub fn parse_confirm_active(body: &[u8]) -> PResult<ConfirmActive> {
    let mut r = R::new(body);
    let share_id = r.u32le()?;
    let originator_id = r.u16le()?;
    if originator_id != 0x03ea {
        return Err(format!("confirm active: originatorId {:#x}", originator_id));
    }
    let lsd = r.u16le()? as usize;
    let lcc = r.u16le()? as usize;
    let source_descriptor = r.take(lsd).map_err(|e| format!("sourceDescriptor: {}", e))?.to_vec();
    if lcc != r.remaining() {
        return Err(format!("confirm active: lengthCombinedCapabilities {} but {} bytes follow", lcc, r.remaining()));
    }
    let n = r.u16le()? as usize;
    let _pad = r.u16le()?;
    let mut caps = vec![];
    while !r.at_end() {
        let ty = r.u16le()?;
        let len = r.u16le()? as usize;
        if len < 4 {
            return Err(format!("capability {:#x}: lengthCapability {}", ty, len));
        }
        let b = r.take(len - 4).map_err(|e| format!("capability {:#x}: {}", ty, e))?;
        if let Some(sizes) = cap_sizes(ty) {
            if !sizes.contains(&len) {
                return Err(format!("capability {:#x}: lengthCapability {} not in {:?}", ty, len, sizes));
            }
        }
        caps.push(CapSet { ty, body: b.to_vec() });
    }
    if caps.len() != n {
        return Err(format!("confirm active: numberCapabilities {} but {} sets present", n, caps.len()));
    }
    let mut seen = std::collections::HashSet::new();
    for c in &caps {
        if !seen.insert(c.ty) {
            return Err(format!("confirm active: capability type {:#x} appears twice", c.ty));
        }
    }
    Ok(ConfirmActive { share_id, originator_id, source_descriptor, caps })
}

#[derive(Clone, Debug, PartialEq, Eq)]
pub enum ClientData {
    Synchronize { target_user: u16 },
    Control { action: u16, grant_id: u16, control_id: u32 },
    FontList { number_fonts: u16, total: u16, flags: u16, entry_size: u16 },
    Input(Vec<InputEvent>),
    Other(u8, Vec<u8>),
}

#[derive(Clone, Debug, PartialEq, Eq, serde::Serialize, serde::Deserialize)]
pub enum InputEvent {
    Scancode { time: u32, flags: u16, code: u16, pad: u16 },
    Mouse { time: u32, flags: u16, x: u16, y: u16 },
    Other { time: u32, ty: u16, data: Vec<u8> },
}

pub fn parse_client_data(d: &ShareData) -> PResult<ClientData> {
    let mut r = R::new(&d.payload);
    let v = match d.pdu_type2 {
        PDUTYPE2_SYNCHRONIZE => {
            let mt = r.u16le()?;
            if mt != 1 {
                return Err(format!("synchronize: messageType {}", mt));
            }
            ClientData::Synchronize { target_user: r.u16le()? }
        }
        PDUTYPE2_CONTROL => ClientData::Control { action: r.u16le()?, grant_id: r.u16le()?, control_id: r.u32le()? },
        PDUTYPE2_FONTLIST => {
            ClientData::FontList { number_fonts: r.u16le()?, total: r.u16le()?, flags: r.u16le()?, entry_size: r.u16le()? }
        }
        PDUTYPE2_INPUT => {
            let n = r.u16le()? as usize;
            let _pad = r.u16le()?;
            let mut ev = vec![];
            while !r.at_end() {
                let time = r.u32le()?;
                let ty = r.u16le()?;
                let e = match ty {
                    0x0004 => InputEvent::Scancode { time, flags: r.u16le()?, code: r.u16le()?, pad: r.u16le()? },
                    0x8001 | 0x8002 => InputEvent::Mouse { time, flags: r.u16le()?, x: r.u16le()?, y: r.u16le()? },
                    0x0000 | 0x0002 | 0x0005 => InputEvent::Other { time, ty, data: r.take(6)?.to_vec() },
                    _ => return Err(format!("input event: messageType {:#x}", ty)),
                };
                ev.push(e);
            }
            if ev.len() != n {
                return Err(format!("input PDU: numEvents {} but {} events present", n, ev.len()));
            }
            ClientData::Input(ev)
        }
        t => ClientData::Other(t, r.rest().to_vec()),
    };
    r.expect_end("client data PDU")?;
    Ok(v)
}
