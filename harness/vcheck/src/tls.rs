//! Real TLS on the peer side: a native-tls (OpenSSL) acceptor running non-blocking over in-memory
//! queues, pumped from inside the client's reads/writes. The client side is rdp-rs's own
//! `Link::start_ssl`, so certificate checking, peer-certificate retrieval and CredSSP key binding are real.

use crate::fixture::{layout_of, ClientCfg};
use crate::memlink::{Ev, MemLink, Peer, Shared};
use crate::peer::{Deviation, RefServer, ServerParams};
use native_tls::{HandshakeError, Identity, MidHandshakeTlsStream, TlsAcceptor, TlsStream};
use rdp::core::client::{Connector, RdpClient};
use serde::{Deserialize, Serialize};
use std::cell::RefCell;
use std::collections::{HashMap, VecDeque};
use std::io::{self, Read, Write};
use std::rc::Rc;

#[derive(Debug, Default)]
pub struct PipeBuf {
    pub incoming: VecDeque<u8>,
    pub outgoing: Vec<u8>,
    pub closed: bool,
}

#[derive(Debug, Clone)]
pub struct Pipe(pub Rc<RefCell<PipeBuf>>);

impl Read for Pipe {
    fn read(&mut self, buf: &mut [u8]) -> io::Result<usize> {
        let mut p = self.0.borrow_mut();
        if p.incoming.is_empty() {
            if p.closed {
                return Ok(0);
            }
            return Err(io::Error::new(io::ErrorKind::WouldBlock, "no data"));
        }
        let n = buf.len().min(p.incoming.len());
        for b in buf.iter_mut().take(n) {
            *b = p.incoming.pop_front().unwrap();
        }
        Ok(n)
    }
}

impl Write for Pipe {
    fn write(&mut self, buf: &[u8]) -> io::Result<usize> {
        self.0.borrow_mut().outgoing.extend_from_slice(buf);
        Ok(buf.len())
    }
    fn flush(&mut self) -> io::Result<()> {
        Ok(())
    }
}

#[derive(Clone, Copy, Debug, PartialEq, Eq, Hash, Serialize, Deserialize)]
pub enum Cert {
    /// RSA-2048, in the harness trust file
    A,
    /// EC P-256, in the harness trust file
    B,
    /// RSA-2048, NOT in the trust file (the "man in the middle")
    M,
    Ed25519,
    Plain2,
    CriticalExt,
    LongSerial,
    Rsa4096,
    NegativeSerial,
    EmptySubject,
    /// self-signed, in the trust file, validity 2020..2021
    Expired,
    /// self-signed, in the trust file, validity 2090..2099
    NotYetValid,
    /// leaf signed by a root that is in the trust file (only the leaf is presented)
    ChainTrusted,
    /// leaf signed by a root that is NOT in the trust file
    ChainUntrusted,
    /// leaf naming the trusted root as its issuer but signed by another key
    Forged,
    /// trusted certificate A with one signature bit flipped (same subject, same key)
    TamperedA,
    /// Ed25519 whose raw public key starts with the byte 0xFF (key + 1 carries into the second byte)
    Ed25519FF,
    /// EC P-521, self-signed, in the trust file: the 133-byte key makes every DER length of the final CredSSP round
    /// fall into 128..255 (one long-form octet)
    P521,
    /// RSA-2048, self-signed, NOT in the trust file: same subject, issuer and serial number as A, another key
    AClone,
    /// certificates derived from a valid one by DER surgery (signature no longer valid: only usable with
    /// certificate checking off); index into ODD_CERTS
    Odd(u8),
}

pub const ODD_CERTS: [&str; 10] = ["x509v1", "version4", "gentime", "badtime", "serial40", "unusedbits", "bmpsubject", "t61subject", "dupext", "emptyext"];

impl Cert {
    /// does a verifier holding the harness trust file accept this certificate today
    pub fn trusted(&self) -> bool {
        matches!(self, Cert::A | Cert::B | Cert::ChainTrusted | Cert::P521)
    }
    pub fn files(&self) -> (String, String) {
        if let Cert::Odd(i) = self {
            return (format!("odd-{}.cert.pem", ODD_CERTS[*i as usize % ODD_CERTS.len()]), "v1.key.pem".to_string());
        }
        let (c, k) = match self {
            Cert::A => ("a.cert.pem", "a.key.pem"),
            Cert::B => ("b.cert.pem", "b.key.pem"),
            Cert::M => ("m.cert.pem", "m.key.pem"),
            Cert::Ed25519 => ("ed.cert.pem", "ed.key.pem"),
            Cert::Plain2 => ("v1.cert.pem", "v1.key.pem"),
            Cert::CriticalExt => ("crit.cert.pem", "crit.key.pem"),
            Cert::LongSerial => ("serial.cert.pem", "serial.key.pem"),
            Cert::Rsa4096 => ("big.cert.pem", "big.key.pem"),
            Cert::NegativeSerial => ("neg.cert.pem", "v1.key.pem"),
            Cert::EmptySubject => ("nosubj.cert.pem", "v1.key.pem"),
            Cert::Expired => ("exp.cert.pem", "exp.key.pem"),
            Cert::NotYetValid => ("fut.cert.pem", "fut.key.pem"),
            Cert::ChainTrusted => ("leaf.cert.pem", "leaf.key.pem"),
            Cert::ChainUntrusted => ("uleaf.cert.pem", "uleaf.key.pem"),
            Cert::Forged => ("forged.cert.pem", "forged.key.pem"),
            Cert::TamperedA => ("tamper.cert.pem", "a.key.pem"),
            Cert::Ed25519FF => ("edff.cert.pem", "edff.key.pem"),
            Cert::P521 => ("p521.cert.pem", "p521.key.pem"),
            Cert::AClone => ("aclone.cert.pem", "aclone.key.pem"),
            Cert::Odd(_) => unreachable!(),
        };
        (c.to_string(), k.to_string())
    }
}

thread_local! {
    static ACCEPTORS: RefCell<HashMap<Cert, (TlsAcceptor, Vec<u8>)>> = RefCell::new(HashMap::new());
}

/// (acceptor, SubjectPublicKey bits of the certificate)
pub fn acceptor(c: Cert) -> Result<(TlsAcceptor, Vec<u8>), String> {
    ACCEPTORS.with(|m| {
        if let Some(a) = m.borrow().get(&c) {
            return Ok(a.clone());
        }
        let (cf, kf) = c.files();
        let cert = std::fs::read_to_string(format!("{}/fixtures/{}", crate::root(), cf)).map_err(|e| format!("{}: {}", cf, e))?;
        let key = std::fs::read_to_string(format!("{}/fixtures/{}", crate::root(), kf)).map_err(|e| format!("{}: {}", kf, e))?;
        let id = Identity::from_pkcs8(cert.as_bytes(), key.as_bytes()).map_err(|e| format!("identity {}: {}", cf, e))?;
        let acc = TlsAcceptor::new(id).map_err(|e| format!("acceptor: {}", e))?;
        let spk = vref::der::spki_key_bits(&vref::der::pem_to_der(&cert))?;
        m.borrow_mut().insert(c, (acc.clone(), spk.clone()));
        Ok((acc, spk))
    })
}

enum Tls {
    Plain,
    Handshaking(Option<MidHandshakeTlsStream<Pipe>>),
    Up(TlsStream<Pipe>),
    Failed,
}

pub struct TlsPeer {
    pub srv: RefServer,
    pipe: Rc<RefCell<PipeBuf>>,
    tls: Tls,
    acceptor: TlsAcceptor,
    pub handshake_done: bool,
    pub handshake_failed: bool,
    /// raw client bytes written before the server asked for TLS (must be exactly the connection request)
    pub raw_before_tls: Vec<u8>,
    /// raw client bytes written after the connection confirm was sent (TLS records if TLS was started)
    pub raw_after_cc: Vec<u8>,
    pub cc_sent: bool,
    /// decrypted application bytes received from the client
    pub plaintext_in: Vec<u8>,
    pub client_closed_tls: bool,
}

impl TlsPeer {
    pub fn new(p: ServerParams, devs: Vec<Deviation>, cert: Cert) -> Result<TlsPeer, String> {
        let (acc, spk) = acceptor(cert)?;
        let mut srv = RefServer::new(p, devs);
        srv.tls_pubkey = spk;
        Ok(TlsPeer { srv, pipe: Rc::new(RefCell::new(PipeBuf::default())), tls: Tls::Plain, acceptor: acc, handshake_done: false, handshake_failed: false, raw_before_tls: vec![], raw_after_cc: vec![], cc_sent: false, plaintext_in: vec![], client_closed_tls: false })
    }

    /// the first client bytes are a TLS ClientHello (no X.224 negotiation in front)
    pub fn expect_tls_immediately(&mut self) {
        self.srv.skip_negotiation();
        self.tls = Tls::Handshaking(None);
        self.cc_sent = true;
    }

    fn flush(&mut self, sh: &mut Shared) {
        let out: Vec<u8> = std::mem::take(&mut self.pipe.borrow_mut().outgoing);
        if !out.is_empty() {
            sh.push_to_client(&out);
        }
    }

    /// encrypt application data on the established server-side stream and return the raw TLS bytes
    /// (one record per call for inputs up to 16 KiB). Used by the schedule explorer (C20).
    pub fn encrypt(&mut self, plaintext: &[u8]) -> Vec<u8> {
        if let Tls::Up(s) = &mut self.tls {
            let _ = s.write_all(plaintext);
        }
        std::mem::take(&mut self.pipe.borrow_mut().outgoing)
    }

    /// orderly TLS closure: the raw bytes of the close_notify alert
    pub fn close_notify(&mut self) -> Vec<u8> {
        if let Tls::Up(s) = &mut self.tls {
            let _ = s.shutdown();
        }
        std::mem::take(&mut self.pipe.borrow_mut().outgoing)
    }

    fn send_app(&mut self, msgs: Vec<Vec<u8>>) {
        if let Tls::Up(s) = &mut self.tls {
            let cap = self.srv.p.tls_record_cap;
            for m in msgs {
                if cap == 0 || m.first() == Some(&0x30) {
                    // one TLS record per message (always for CredSSP messages, which rdp-rs takes from a single read
                    // of the decrypted stream: how a TSRequest may be cut is not part of any listed property)
                    let _ = s.write_all(&m);
                } else {
                    // one TLS record per piece (each write call of the TLS provider closes a record)
                    for piece in m.chunks(cap) {
                        let _ = s.write_all(piece);
                    }
                }
            }
        }
    }
}

impl Peer for TlsPeer {
    fn pump(&mut self, sh: &mut Shared, want_read: bool) {
        let pending = !sh.to_client.is_empty();
        let data: Vec<u8> = sh.pending_from_client().to_vec();
        sh.peer_pos += data.len();
        if self.cc_sent {
            self.raw_after_cc.extend_from_slice(&data);
        } else {
            self.raw_before_tls.extend_from_slice(&data);
        }
        match &self.tls {
            Tls::Plain => {
                if !data.is_empty() {
                    let act = self.srv.feed(&data, false, pending);
                    for m in &act.out {
                        sh.push_to_client(m);
                    }
                    if !self.srv.sent.is_empty() {
                        self.cc_sent = true;
                    }
                    if act.start_tls {
                        self.tls = Tls::Handshaking(None);
                        sh.trace.push(Ev::Mark("server-expects-tls"));
                    }
                }
            }
            _ => {
                self.pipe.borrow_mut().incoming.extend(data.iter().copied());
            }
        }
        // handshake progress
        if let Tls::Handshaking(_) = &self.tls {
            let st = std::mem::replace(&mut self.tls, Tls::Failed);
            if let Tls::Handshaking(mid) = st {
                let has_input = !self.pipe.borrow().incoming.is_empty();
                let r = match mid {
                    None => {
                        if has_input {
                            Some(self.acceptor.accept(Pipe(self.pipe.clone())))
                        } else {
                            None
                        }
                    }
                    Some(m) => Some(m.handshake()),
                };
                match r {
                    None => self.tls = Tls::Handshaking(None),
                    Some(Ok(s)) => {
                        self.tls = Tls::Up(s);
                        self.handshake_done = true;
                        sh.trace.push(Ev::Mark("tls-established"));
                    }
                    Some(Err(HandshakeError::WouldBlock(m))) => self.tls = Tls::Handshaking(Some(m)),
                    Some(Err(HandshakeError::Failure(_))) => {
                        self.tls = Tls::Failed;
                        self.handshake_failed = true;
                        sh.trace.push(Ev::Mark("tls-handshake-failed"));
                    }
                }
            }
            self.flush(sh);
        }
        // application data
        if let Tls::Up(_) = &self.tls {
            loop {
                let mut buf = vec![0u8; 32768];
                let r = if let Tls::Up(s) = &mut self.tls { s.read(&mut buf) } else { break };
                match r {
                    Ok(0) => {
                        self.client_closed_tls = true;
                        break;
                    }
                    Ok(n) => {
                        self.plaintext_in.extend_from_slice(&buf[..n]);
                        let act = self.srv.feed(&buf[..n], true, pending);
                        self.send_app(act.out);
                        if act.close {
                            break;
                        }
                    }
                    Err(e) if e.kind() == io::ErrorKind::WouldBlock => break,
                    Err(_) => {
                        self.client_closed_tls = true;
                        break;
                    }
                }
            }
            self.flush(sh);
            if want_read && sh.to_client.is_empty() {
                let msgs = self.srv.idle();
                self.send_app(msgs);
                self.flush(sh);
            }
        }
    }
}

// ------------------------------------------------------------------ connector configuration + driver

#[derive(Clone, Debug, Serialize, Deserialize, PartialEq)]
pub struct ConnCfg {
    pub client: ClientCfg,
    pub use_nla: bool,
    pub restricted_admin: bool,
    pub blank_creds: bool,
    /// order of the Connector builder calls (see `connector`)
    pub builder_order: u8,
    pub check_certificate: bool,
    /// connect from the NT hash of the password instead of the password
    pub use_hash: bool,
    /// the SAME Connector object was used for earlier connect() calls before being re-configured (every setter called
    /// again) for this one: 0 none; 1 / 2 = one / two earlier attempts, configured for another account with every flag
    /// inverted, that the server answered with RDP_NEG_FAILURE; 3 = one earlier complete connection with that other
    /// configuration; 4 = one earlier attempt with THIS configuration answered with RDP_NEG_FAILURE;
    /// 5 / 6 / 7 = one earlier complete connection with a configuration differing ONLY in certificate checking (off) /
    /// in use_nla (inverted) / in auto logon, restricted admin and blank credentials (inverted), after which only the
    /// setters of the differing settings are called again; 8 / 9 = one earlier attempt with this configuration but a
    /// password of 20 000 characters / a client name of 40 000 characters (too long for the Client Info PDU / the
    /// confirm-active: the client gives up by itself), then re-configured; 10 / 11 = one earlier attempt with THIS
    /// configuration answered with RDP_NEG_FAILURE / one earlier complete connection with it, after which connect() is
    /// simply called again (no setter is touched: a retry); 12 = one earlier attempt with THIS configuration
    /// against a server that hangs up right after the security phase (TLS / CredSSP done, nothing of MCS answered), then
    /// connect() is called again, no setter touched
    pub earlier_connections: u8,
}

impl Default for ConnCfg {
    fn default() -> Self {
        ConnCfg { client: ClientCfg::default(), use_nla: true, restricted_admin: false, blank_creds: false, check_certificate: false, use_hash: false, builder_order: 0, earlier_connections: 0 }
    }
}

pub fn connector(c: &ConnCfg) -> Connector {
    let creds = |k: Connector| {
        if c.use_hash {
            k.credentials(c.client.domain.clone(), c.client.user.clone(), String::new()).set_password_hash(vref::ntlm::nt_hash(&c.client.password).to_vec())
        } else {
            k.credentials(c.client.domain.clone(), c.client.user.clone(), c.client.password.clone())
        }
    };
    let flags = |k: Connector| {
        k.auto_logon(c.client.auto_logon).use_nla(c.use_nla).set_restricted_admin_mode(c.restricted_admin).blank_creds(c.blank_creds).check_certificate(c.check_certificate)
    };
    let base = Connector::new().screen(c.client.width, c.client.height).layout(layout_of(c.client.layout)).name(c.client.name.clone());
    // the order of the builder calls is part of the configuration history: the result must not depend on it
    match c.builder_order {
        // flags, then credentials
        0 => creds(flags(base)),
        // credentials, then flags (the order of the GUI client)
        1 => flags(creds(base)),
        // a connector configured for something else first (other account, every flag inverted), then re-configured
        2 => {
            let other = base.credentials("other".into(), "someone".into(), "else".into()).auto_logon(!c.client.auto_logon).use_nla(!c.use_nla).set_restricted_admin_mode(!c.restricted_admin).blank_creds(!c.blank_creds).check_certificate(!c.check_certificate);
            flags(creds(other))
        }
        // flags, credentials, flags again
        3 => flags(creds(flags(base))),
        // the flag setters in the opposite order (certificate checking first, auto logon last), then the credentials
        5 => creds(base.check_certificate(c.check_certificate).blank_creds(c.blank_creds).set_restricted_admin_mode(c.restricted_admin).use_nla(c.use_nla).auto_logon(c.client.auto_logon)),
        // every setting made (credentials first), then each boolean setter in turn called with the opposite value and with the
        // real one again: a setter may only touch its own setting
        6 => {
            let k = flags(creds(base));
            let k = k.use_nla(!c.use_nla).use_nla(c.use_nla);
            let k = k.blank_creds(!c.blank_creds).blank_creds(c.blank_creds);
            let k = k.set_restricted_admin_mode(!c.restricted_admin).set_restricted_admin_mode(c.restricted_admin);
            let k = k.auto_logon(!c.client.auto_logon).auto_logon(c.client.auto_logon);
            let k = k.check_certificate(!c.check_certificate).check_certificate(c.check_certificate);
            k.use_nla(!c.use_nla).use_nla(c.use_nla)
        }
        // only the calls that ask for something: every setting equal to the documented default of Connector::new()
        // (800x600, US layout, "rdp-rs", NLA on, no auto logon, no restricted admin, full credentials, no certificate
        // check) is left to that default — "not requested" means the builder call was never made
        _ => {
            let mut k = Connector::new();
            if (c.client.width, c.client.height) != (800, 600) {
                k = k.screen(c.client.width, c.client.height);
            }
            if c.client.layout != 0 {
                k = k.layout(layout_of(c.client.layout));
            }
            if c.client.name != "rdp-rs" {
                k = k.name(c.client.name.clone());
            }
            k = creds(k);
            if c.client.auto_logon {
                k = k.auto_logon(true);
            }
            if !c.use_nla {
                k = k.use_nla(false);
            }
            if c.restricted_admin {
                k = k.set_restricted_admin_mode(true);
            }
            if c.blank_creds {
                k = k.blank_creds(true);
            }
            if c.check_certificate {
                k = k.check_certificate(true);
            }
            k
        }
    }
}

pub struct TlsConn {
    pub client: Option<RdpClient<MemLink>>,
    pub error: Option<String>,
    pub peer: Rc<RefCell<TlsPeer>>,
    pub sh: Rc<RefCell<Shared>>,
}

/// run the real `Connector::connect` against the reference server behind real TLS
pub fn tls_connect(cfg: &ConnCfg, p: ServerParams, devs: Vec<Deviation>, cert: Cert) -> Result<TlsConn, String> {
    tls_connect_fragmented(cfg, p, devs, cert, crate::memlink::ReadPlan::All, crate::memlink::WritePlan::All)
}

/// same, with a transport that hands over / accepts bytes in pieces (end-to-end fragmentation under TLS)
pub fn tls_connect_fragmented(cfg: &ConnCfg, mut p: ServerParams, devs: Vec<Deviation>, cert: Cert, rp: crate::memlink::ReadPlan, wp: crate::memlink::WritePlan) -> Result<TlsConn, String> {
    // the client's "random" values (NTLM client challenge, exported session key) are the same in every run and in a
    // replay: what a byte-level fault on a sealed message hits must not depend on the run
    struct Unpattern;
    impl Drop for Unpattern {
        fn drop(&mut self) {
            rdp::model::rnd::verif::set_pattern(None);
        }
    }
    let _unpattern = Unpattern;
    rdp::model::rnd::verif::set_pattern(Some((0..61u32).map(|i| (i.wrapping_mul(0x9E37_79B1) >> 23) as u8 ^ 0x5C).collect()));
    // the NTLM verifier needs the account the client will use
    p.acct_user = cfg.client.user.clone();
    p.acct_domain = cfg.client.domain.clone();
    p.acct_password = cfg.client.password.clone();
    let peer = Rc::new(RefCell::new(TlsPeer::new(p, devs, cert)?));
    let link = MemLink::with_peer(peer.clone());
    let sh = link.sh.clone();
    {
        let mut s = sh.borrow_mut();
        s.read_plan = rp;
        s.write_plan = wp;
        s.spin_limit = 2_000_000;
    }
    let mut k = if cfg.earlier_connections == 0 {
        connector(cfg)
    } else {
        // what the object was configured for before
        let mut other = cfg.clone();
        other.earlier_connections = 0;
        other.builder_order = 1;
        if cfg.earlier_connections == 5 {
            other.check_certificate = false;
        } else if cfg.earlier_connections == 6 {
            other.use_nla = !cfg.use_nla;
        } else if cfg.earlier_connections == 7 {
            other.client.auto_logon = !cfg.client.auto_logon;
            other.restricted_admin = !cfg.restricted_admin;
            other.blank_creds = !cfg.blank_creds;
        } else if cfg.earlier_connections == 8 {
            other.client.password = "p".repeat(20000);
            other.use_hash = false;
        } else if cfg.earlier_connections == 9 {
            other.client.name = "n".repeat(40000);
        } else if cfg.earlier_connections == 10 || cfg.earlier_connections == 11 || cfg.earlier_connections == 12 {
            // same configuration, built the way this case builds it
            other.builder_order = cfg.builder_order;
        } else if cfg.earlier_connections != 4 {
            other.client.domain = "other".into();
            other.client.user = "someone".into();
            other.client.password = "else-Passw0rd".into();
            other.client.auto_logon = !cfg.client.auto_logon;
            other.use_nla = !cfg.use_nla;
            other.restricted_admin = !cfg.restricted_admin;
            other.blank_creds = !cfg.blank_creds;
            other.check_certificate = false;
        }
        let mut k = connector(&other);
        let attempts = if cfg.earlier_connections == 2 { 2 } else { 1 };
        for _ in 0..attempts {
            let mut p0 = ServerParams::default();
            p0.acct_user = other.client.user.clone();
            p0.acct_domain = other.client.domain.clone();
            p0.acct_password = other.client.password.clone();
            if cfg.earlier_connections == 12 {
                p0.hang_up_after_security = true;
            }
            if cfg.earlier_connections == 3 || (cfg.earlier_connections >= 5 && cfg.earlier_connections != 10) {
                p0.reactivations = 0;
                p0.selected = if other.use_nla { 2 } else { 1 };
            } else {
                p0.cc_kind = crate::peer::CcKind::Failure;
                p0.selected = 2;
            }
            let peer0 = Rc::new(RefCell::new(TlsPeer::new(p0, vec![], Cert::A)?));
            let link0 = MemLink::with_peer(peer0.clone());
            link0.sh.borrow_mut().spin_limit = 2_000_000;
            let r0 = k.connect(link0);
            if std::env::var("VERIF_DEBUG_EARLIER").is_ok() {
                eprintln!("earlier mode {}: {:?} server errors {:?}", cfg.earlier_connections, r0.as_ref().err(), peer0.borrow().srv.errors);
            }
            if (cfg.earlier_connections == 3 || cfg.earlier_connections == 11 || (5..=7).contains(&cfg.earlier_connections)) && r0.is_err() {
                return Err(format!("the earlier (honest) connection of the same connector failed: {:?}", r0.err()));
            }
        }
        // modes 5..7: only the setters of the settings that differ are called again
        if cfg.earlier_connections == 5 {
            k = if cfg.check_certificate { k.check_certificate(true) } else { k };
        } else if cfg.earlier_connections == 6 {
            k = k.use_nla(cfg.use_nla);
        } else if cfg.earlier_connections == 7 {
            k = k.auto_logon(cfg.client.auto_logon).set_restricted_admin_mode(cfg.restricted_admin).blank_creds(cfg.blank_creds);
        }
        if (5..=7).contains(&cfg.earlier_connections) || cfg.earlier_connections >= 10 {
            k
        } else {
        // re-configuration: every setter is called again, credentials first (the order of the GUI client)
        let k = if cfg.use_hash {
            k.credentials(cfg.client.domain.clone(), cfg.client.user.clone(), String::new()).set_password_hash(vref::ntlm::nt_hash(&cfg.client.password).to_vec())
        } else {
            k.credentials(cfg.client.domain.clone(), cfg.client.user.clone(), cfg.client.password.clone())
        };
        k.screen(cfg.client.width, cfg.client.height).layout(layout_of(cfg.client.layout)).name(cfg.client.name.clone()).auto_logon(cfg.client.auto_logon).use_nla(cfg.use_nla).set_restricted_admin_mode(cfg.restricted_admin).blank_creds(cfg.blank_creds).check_certificate(cfg.check_certificate)
        }
    };
    let r = k.connect(link);
    let (client, error) = match r {
        Ok(c) => (Some(c), None),
        Err(e) => (None, Some(format!("{:?}", e))),
    };
    Ok(TlsConn { client, error, peer, sh })
}
