//! C06 — hostile server bytes during an active session never crash the client.
//! For each of the six client states (reached by the honest prefix on the raw stack): every kind of
//! server PDU with <=1 deviation (<=2 thorough), and all short strings at the PDU parser entries.

use crate::faults::{self, FaultSpace, Msg};
use crate::fsm;
use crate::peer::apply_dev;
use crate::props::c05::err_class;
use crate::runner::{Outcome, Prop, Tier};
use serde_json::{json, Value};
use vref::fastpath::{self, Rect, Update};
use vref::{framing, mcs, share};

pub struct C06 {
    tier: Tier,
    space: Option<FaultSpace>,
    blocks: Vec<(&'static str, u64)>,
}

impl C06 {
    pub fn new() -> C06 {
        C06 { tier: Tier::Quick, space: None, blocks: vec![] }
    }
}

fn sdi(data: &[u8]) -> Vec<u8> {
    framing::tpkt(&framing::x224_dt(&mcs::send_data_indication(1002, 1003, data)))
}

const SID: u32 = fsm::SHARE_A;

pub fn pdu_kinds() -> Vec<Msg> {
    let cap = share::windows_capture_demand_active();
    let (_, sd, caps, _) = share::parse_demand_active_body(&cap).expect("capture");
    let r1 = Rect { left: 0, top: 0, right: 3, bottom: 1, width: 4, height: 2, bpp: 16, flags: 0, data: vec![7; 16] };
    let r2 = Rect { left: 4, top: 4, right: 5, bottom: 4, width: 2, height: 1, bpp: 32, flags: 1, data: vec![0x10, 0x20, 1, 0x20, 2, 0x20, 3, 0x20, 4] };
    let two_pdus = {
        // two share-control PDUs in one TPKT (the Data-state reader loops over them)
        let a = share::set_error_info(SID, 1002, 1);
        let b = share::synchronize(SID, 1002, 1007);
        sdi(&[a, b].concat())
    };
    let play_sound = {
        let mut w = vref::bytes::W::new();
        w.u32le(440).u32le(100);
        sdi(&share::share_data(SID, 1002, share::PDUTYPE2_PLAY_SOUND, &w.0))
    };
    vec![
        Msg { name: "demand-active(windows)".into(), honest: sdi(&share::demand_active(SID, 1002, &sd, &caps, 0)) },
        Msg { name: "demand-active(minimal)".into(), honest: sdi(&share::demand_active(SID, 1002, b"RDP\0", &share::minimal_caps(), 0)) },
        Msg { name: "deactivate-all".into(), honest: sdi(&share::deactivate_all(SID, 1002)) },
        Msg { name: "synchronize".into(), honest: sdi(&share::synchronize(SID, 1002, 1007)) },
        Msg { name: "control".into(), honest: sdi(&share::control(SID, 1002, share::CTRLACTION_COOPERATE, 0, 0)) },
        Msg { name: "font-map".into(), honest: sdi(&share::font_map(SID, 1002)) },
        Msg { name: "set-error-info".into(), honest: sdi(&share::set_error_info(SID, 1002, 0)) },
        Msg { name: "play-sound(unknown)".into(), honest: play_sound },
        Msg { name: "two-pdus-in-one-frame".into(), honest: two_pdus },
        Msg { name: "confirm-active(sent-by-server)".into(), honest: {
            // a PDU kind a server never sends, but that the client's share-control parser knows
            let caps: Vec<u8> = share::minimal_caps().iter().flat_map(share::cap_bytes).collect();
            let mut w = vref::bytes::W::new();
            w.u32le(SID).u16le(0x03EA).u16le(4).u16le((caps.len() + 4) as u16).bytes(b"RDP\0").u16le(1).u16le(0).bytes(&caps);
            sdi(&share::share_control(share::PDUTYPE_CONFIRMACTIVE, 1002, &w.0))
        } },
        Msg { name: "fp-bitmap".into(), honest: framing::fastpath(0, &fastpath::updates_payload(&[Update::Bitmap(vec![r1, r2])]), false) },
        Msg { name: "fp-pointers".into(), honest: framing::fastpath(0, &fastpath::updates_payload(&[fastpath::other_update(fastpath::UPD_COLOR), fastpath::other_update(fastpath::UPD_PTR_POSITION), fastpath::other_update(fastpath::UPD_SYNCHRONIZE), fastpath::other_update(fastpath::UPD_PTR_NULL)]), false) },
        Msg { name: "fp-unknown".into(), honest: framing::fastpath(0, &fastpath::updates_payload(&[fastpath::other_update(0xC), fastpath::other_update(fastpath::UPD_ORDERS), fastpath::other_update(fastpath::UPD_POINTER)]), true) },
    ]
}

const PREFIX: [usize; 5] = [0, 2, 3, 4, 6];

/// well-formed share PDUs (not yet wrapped in a send-data indication) for the "frame-pairs" block
fn inner_pdus() -> Vec<(&'static str, Vec<u8>)> {
    let play_sound = {
        let mut w = vref::bytes::W::new();
        w.u32le(440).u32le(100);
        share::share_data(SID, 1002, share::PDUTYPE2_PLAY_SOUND, &w.0)
    };
    vec![
        ("demand-active", share::demand_active(SID, 1002, b"RDP\0", &share::minimal_caps(), 0)),
        ("demand-active(other share)", share::demand_active(fsm::SHARE_B, 1002, b"RDP\0", &share::minimal_caps(), 0)),
        ("deactivate-all", share::deactivate_all(SID, 1002)),
        ("synchronize", share::synchronize(SID, 1002, 1007)),
        ("control-cooperate", share::control(SID, 1002, share::CTRLACTION_COOPERATE, 0, 0)),
        ("control-granted", share::control(SID, 1002, share::CTRLACTION_GRANTED_CONTROL, 1007, 0x03EA)),
        ("font-map", share::font_map(SID, 1002)),
        ("set-error-info", share::set_error_info(SID, 1002, 0)),
        ("set-error-info(other share)", share::set_error_info(fsm::SHARE_B, 1002, 0)),
        ("play-sound", play_sound),
    ]
}

/// what the server sends after the hostile frame: the rest of an honest activation from the state the case started
/// in, then output and data PDUs — a fault that was tolerated must not blow up later
fn aftermath(l: &mut fsm::Live, state: u8) {
    let mut tail: Vec<Vec<u8>> = PREFIX.iter().skip(state as usize).map(|ev| fsm::event_frame(*ev, SID)).collect();
    tail.push(fsm::event_frame(10, SID));
    tail.push(sdi(&share::set_error_info(SID, 1002, 0)));
    tail.push(fsm::event_frame(11, SID));
    for f in tail {
        l.sh.borrow_mut().push_to_client(&f);
        let _ = l.client.read(|_| {});
        l.sh.borrow_mut().to_client.clear();
        let _ = l.client.try_write(rdp::core::event::RdpEvent::Pointer(rdp::core::event::PointerEvent { x: 1, y: 1, button: rdp::core::event::PointerButton::None, down: false }));
    }
}

impl C06 {
    fn locate(&self, idx: u64) -> (&'static str, u64) {
        let mut i = idx;
        for (n, c) in &self.blocks {
            if i < *c {
                return (n, i);
            }
            i -= c;
        }
        unreachable!()
    }
    /// string set per (block, state): in thorough the 3-byte strings go to the Data state (and state 0 for the
    /// share-control entry); the other states get all <=2-byte strings and the 6-letter alphabet strings
    fn strs(&self, block: &str, state: u8) -> faults::Strs {
        if self.tier == Tier::Quick {
            // every string of length <= 2, and of length 3..4 over the 8-letter alphabet
            return faults::Strs { short: 2, alpha: 4 };
        }
        faults::Strs::for_tier(self.tier, state == 5 || (block == "inner-slow" && state == 0))
    }
    fn states_of(&self, block: &str) -> Vec<u8> {
        match block {
            "inner-slow" => self.slow_states(),
            "inner-mcs" => vec![0, 5],
            "inner-fast" => vec![5, 0, 2],
            _ => vec![5, 0],
        }
    }
    fn block_count(&self, block: &str) -> u64 {
        self.states_of(block).iter().map(|s| self.strs(block, *s).count()).sum()
    }
    fn block_case(&self, block: &str, mut i: u64) -> (u8, Vec<u8>) {
        for st in self.states_of(block) {
            let s = self.strs(block, st);
            if i < s.count() {
                return (st, s.get(i));
            }
            i -= s.count();
        }
        unreachable!()
    }
    fn slow_states(&self) -> Vec<u8> {
        if self.tier == Tier::Quick {
            vec![0, 1, 5]
        } else {
            vec![0, 1, 2, 3, 4, 5]
        }
    }
    /// -> (state, frame bytes, description, whether the deviation changed the frame)
    fn decode(&self, idx: u64) -> (u8, Vec<u8>, Value, bool) {
        let fs = self.space.as_ref().unwrap();
        let (b, i) = self.locate(idx);
        match b {
            "single" => {
                let per = fs.total();
                let state = (i / per) as u8;
                let (mi, d) = fs.get(i % per);
                let mut bytes = fs.msgs[mi].honest.clone();
                let changed = apply_dev(&mut bytes, &d.kind);
                (state, bytes, json!({"block": b, "state": state, "pdu": d.msg, "deviation": d.kind}), changed)
            }
            "pairs" => {
                let n = fs.reduced_count();
                let states = [0u8, 5];
                let state = states[(i / (n * n)) as usize];
                let r = i % (n * n);
                let d1 = fs.reduced_get(r / n);
                let d2 = fs.reduced_get(r % n);
                if d1.msg != d2.msg {
                    // deviations in two different PDUs: deliver the second PDU after the first (handled by the runner as two frames)
                    let mut b1 = fs.msgs.iter().find(|m| m.name == d1.msg).unwrap().honest.clone();
                    let mut b2 = fs.msgs.iter().find(|m| m.name == d2.msg).unwrap().honest.clone();
                    let c1 = apply_dev(&mut b1, &d1.kind);
                    let c2 = apply_dev(&mut b2, &d2.kind);
                    b1.extend(b2);
                    return (state, b1, json!({"block": b, "state": state, "deviations": [d1, d2], "two_frames": true}), c1 && c2);
                }
                let mut bytes = fs.msgs.iter().find(|m| m.name == d1.msg).unwrap().honest.clone();
                let c1 = apply_dev(&mut bytes, &d1.kind);
                let c2 = apply_dev(&mut bytes, &d2.kind);
                (state, bytes, json!({"block": b, "state": state, "deviations": [d1, d2]}), c1 && c2)
            }
            "frame-pairs" => {
                let pd = inner_pdus();
                let n = pd.len() as u64;
                let state = (i / (n * n)) as u8;
                let r = i % (n * n);
                let (a, c) = (&pd[(r / n) as usize], &pd[(r % n) as usize]);
                (state, sdi(&[a.1.clone(), c.1.clone()].concat()), json!({"block": b, "state": state, "two_share_pdus_in_one_frame": [a.0, c.0]}), true)
            }
            "inner-slow" => {
                let (state, s) = self.block_case(b, i);
                (state, sdi(&s), json!({"block": b, "state": state, "share_control_level_bytes": vref::bytes::hex(&s)}), true)
            }
            "inner-mcs" => {
                let (state, s) = self.block_case(b, i);
                (state, framing::tpkt(&framing::x224_dt(&s)), json!({"block": b, "state": state, "mcs_level_bytes": vref::bytes::hex(&s)}), true)
            }
            "inner-frame" => {
                let (state, s) = self.block_case(b, i);
                (state, s.clone(), json!({"block": b, "state": state, "raw_frame_bytes": vref::bytes::hex(&s)}), true)
            }
            "inner-fast" => {
                let (state, s) = self.block_case(b, i);
                (state, framing::fastpath(0, &s, false), json!({"block": b, "state": state, "fast_path_payload": vref::bytes::hex(&s)}), true)
            }
            _ => unreachable!(),
        }
    }
}

impl Prop for C06 {
    fn id(&self) -> &'static str {
        "C06"
    }
    fn level(&self) -> &'static str {
        "fault_enumeration"
    }
    fn prepare(&mut self, tier: Tier) -> Result<(), String> {
        self.tier = tier;
        // the honest prefix must really drive the client through the six states
        let mut l = fsm::fresh()?;
        for (k, ev) in PREFIX.iter().enumerate() {
            let key = fsm::step(&mut l, *ev).map_err(|e| format!("honest prefix step {}: {} {}", k, e.0, e.1))?;
            if key.impl_state != k as u8 + 1 {
                return Err(format!("honest prefix: state {} after step {}", key.impl_state, k));
            }
        }
        let fs = FaultSpace::new(pdu_kinds(), tier);
        let mut blocks = vec![("single", 6 * fs.total()), ("inner-slow", self.block_count("inner-slow")), ("inner-mcs", self.block_count("inner-mcs")), ("inner-fast", self.block_count("inner-fast")), ("inner-frame", self.block_count("inner-frame")), ("frame-pairs", 6 * (inner_pdus().len() * inner_pdus().len()) as u64)];
        if tier == Tier::Thorough {
            let r = fs.reduced_count();
            blocks.push(("pairs", 2 * r * r));
        }
        self.space = Some(fs);
        self.blocks = blocks;
        Ok(())
    }
    fn n_cases(&self) -> u64 {
        self.blocks.iter().map(|b| b.1).sum()
    }
    fn describe(&self, idx: u64) -> Value {
        let (_s, bytes, mut d, _c) = self.decode(idx);
        d["idx"] = json!(idx);
        d["frame_hex"] = json!(vref::bytes::hex(&bytes[..bytes.len().min(96)]));
        d
    }
    fn rule(&self) -> String {
        "cases = (client state 0..5 reached by the honest activation prefix, one server frame with <=1 deviation (<=2 thorough)). PDU kinds: demand-active (Windows capability list and minimal), deactivate-all, synchronize, control, font-map, set-error-info, an unparsed data PDU, two share PDUs in one frame, a confirm-active sent by the server, fast-path bitmap (raw + compressed-with-header rectangles), fast-path pointer/synchronize updates, unknown fast-path codes. Deviations: every byte offset x value set (12 boundary values + honest+-1; all 256 in thorough), every offset as 16/32-bit field in both byte orders x boundary set, every truncation, extensions {+1,+2,+1500}; [inner-*] every byte string of length <=2 (<=3 in thorough for the Data state, and state 0 at the share-control entry) and every string of length 3..4 (..6 in thorough) over 8 boundary bytes at the MCS, share-control (states 0,1,5 in quick, all six in thorough) and fast-path parser entries, and as raw unframed bytes at the frame reader; [pairs, thorough] all pairs of {byte:=00, byte:=FF, truncate} over all offsets, in states 0 and 5. [frame-pairs] every ordered pair of 10 well-formed share PDUs in one frame, in each of the six states. After the hostile frame an honest PDU is read to expose desynchronisation loops, then, when the hostile frame was tolerated (read returned Ok), the server plays the rest of an honest activation from that state followed by fast-path output and a data PDU, with an input attempt after every step: a tolerated fault must not blow up later. Non-trivial: the frame differs from the honest one.".into()
    }
    fn assumptions(&self) -> Vec<String> {
        vec!["memory rule: single request > 1 MiB or peak > 16 MiB + 1024 x bytes received".into(), "the six states are reached through RdpClient::read on the raw stack (hooks H3/H4); TLS record handling is not part of this property".into()]
    }
    fn coverage_extra(&self) -> Value {
        json!({"blocks": self.blocks.iter().map(|b| json!({"name": b.0, "cases": b.1})).collect::<Vec<_>>(), "deviation_bound_completed": if self.tier == Tier::Quick { 1 } else { 2 },
               "pdu_kinds": self.space.as_ref().map(|f| f.msgs.iter().map(|m| json!({"name": m.name, "bytes": m.honest.len()})).collect::<Vec<_>>())})
    }
    fn run_case(&mut self, idx: u64) -> Outcome {
        let (state, frame, desc, changed) = self.decode(idx);
        let mut l = match fsm::fresh() {
            Ok(l) => l,
            Err(e) => return Outcome::fail("setup", "honest-connect-failed", e),
        };
        for ev in PREFIX.iter().take(state as usize) {
            if let Err(e) = fsm::step(&mut l, *ev) {
                return Outcome::fail("setup", "honest-prefix-failed", format!("{} {}", e.0, e.1));
            }
        }
        l.sh.borrow_mut().push_to_client(&frame);
        let r1 = l.client.read(|_| {});
        // keep reading while input remains (a second frame of a pair, or leftovers), bounded
        let mut extra = 0;
        while !l.sh.borrow().to_client.is_empty() && extra < 8 {
            let _ = l.client.read(|_| {});
            extra += 1;
        }
        l.sh.borrow_mut().to_client.clear();
        // an honest PDU afterwards must still be handled without crashing
        let honest = sdi(&share::set_error_info(SID, 1002, 0));
        l.sh.borrow_mut().push_to_client(&honest);
        let _ = l.client.read(|_| {});
        if r1.is_ok() {
            // (after an error the application drops the connection: nothing follows)
            aftermath(&mut l, state);
        }
        let res = match r1 {
            Ok(()) => "ok".to_string(),
            Err(e) => err_class(&format!("{:?}", e)),
        };
        let pdu = desc["pdu"].as_str().unwrap_or(desc["block"].as_str().unwrap_or("?")).to_string();
        Outcome::pass(format!("s{}:{}:{}", state, pdu, res), changed)
    }
}
