pub mod c01;
pub mod c02;
pub mod c03;
pub mod c05;
pub mod c06;
pub mod c07;
pub mod c08;
pub mod c09;
pub mod c10;
pub mod c11;
pub mod c13;
pub mod c14;
pub mod c15;
pub mod c16;
pub mod c18;

use crate::runner::Prop;

pub fn sweep_prop(id: &str) -> Option<Box<dyn Prop>> {
    if id == "C12" {
        // histories are sequences already
        return Some(Box::new(crate::fsm::C12Histories::new()));
    }
    bare_prop(id).map(|p| Box::new(crate::runner::WithPairs::new(p)) as Box<dyn Prop>)
}

fn bare_prop(id: &str) -> Option<Box<dyn Prop>> {
    Some(match id {
        "C01" => Box::new(c01::C01::new()),
        "C02" => Box::new(c02::C02::new()),
        "C03" => Box::new(c03::C03::new()),
        "C04" => Box::new(c03::C04::new()),
        "C17" => Box::new(c03::C17::new()),
        "C05" => Box::new(c05::C05::new()),
        "C06" => Box::new(c06::C06::new()),
        "C07" => Box::new(c07::C07::new()),
        "C08" => Box::new(c08::C08::new()),
        "C09" => Box::new(c09::C09::new()),
        "C10" => Box::new(c10::C10::new()),
        "C11" => Box::new(c11::C11::new()),
        "C12" => Box::new(crate::fsm::C12Histories::new()),
        "C13" => Box::new(c13::C13::new()),
        "C14" => Box::new(c14::C14::new()),
        "C15" => Box::new(c15::C15::new()),
        "C16" => Box::new(c16::C16::new()),
        "C18" => Box::new(c18::C18::new()),
        _ => return None,
    })
}
