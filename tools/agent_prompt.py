#!/usr/bin/env python3
"""Print the sub-agent prompt for one property id (text of the property only; nothing else from /verif)."""
import json, sys
pid = sys.argv[1]
n = sys.argv[2] if len(sys.argv) > 2 else ""
for l in open('/verif/properties.jsonl'):
    p = json.loads(l)
    if p['id'] == pid:
        break
wt = f"/tmp/wt-{pid}{n}"
print(f"""You are helping to evaluate a verification tool for the Rust library citronneur/rdp-rs (a pure-Rust RDP client). Your job is to play the role of a developer who introduces a subtle, realistic regression.

Work ONLY inside the git worktree {wt} (a checkout of the library). Do not read or write anything under /verif or /repo, and do not look at other /tmp/wt-* directories. The sandbox has no network; use `cargo ... --offline`. Do not commit anything.

PROPERTY (this is what must get broken):
  Title: {p['title']}
  Statement: {p['statement']}
  Quantified over: {p['quantifier']['text']}
  Relevant files: {', '.join(p['anchors']['files'])}

TASK
1. Read the relevant source files in {wt}/src.
2. Make ONE small, realistic source change under {wt}/src (the kind of bug a maintainer could plausibly introduce in a refactor or "optimisation": an off-by-one in cursor/offset/length logic, a comparison against the wrong value, a check moved after the action it guards, a state guard loosened, a wrong loop-exit condition, two sites that each look fine alone but disagree) that makes the property FALSE, while:
   - the crate still compiles (`cargo build --offline` and also `cargo build --offline --features mstsc-rs` if you touched src/bin),
   - the existing unit tests all still pass: `cd {wt} && cargo test --offline --lib` must report 39 passed,
   - the breakage needs something SPECIFIC to manifest (an unusual input value, a particular multi-step sequence, a particular fault or interleaving, a boundary length) — NOT something every ordinary connection would hit at once. Do not modify or delete existing tests. Do not touch code guarded by `#[cfg(rdp_rs_verif)]`. Do not add new dependencies.
3. Write a demonstration: a new test file at {wt}/tests/demo_{pid.lower()}.rs (an integration test using only the crate's public API; it may use `--cfg rdp_rs_verif` hook functions such as `rdp::model::rnd::verif::set_pattern`, `x224::Client::verif_new_raw`, `RdpClient::verif_from_parts`, `global::Client::verif_state_id` if needed — in that case say so and run with RUSTFLAGS="--cfg rdp_rs_verif"), OR, if the public API cannot reach the code, a `#[cfg(test)]` unit test appended in a NEW module at the end of the source file. The demonstration must FAIL with your change and PASS without it. Verify both: run it with the change; then take the src change out with `git diff -- src > /tmp/{pid}{n}-change.patch && git apply -R /tmp/{pid}{n}-change.patch` (keep the demo), run it again to see it pass, then put it back with `git apply /tmp/{pid}{n}-change.patch`. NEVER use `git stash`: the stash is shared between all worktrees of the repository and other people are working in sibling worktrees right now.
4. Leave the worktree with your src change and the demo in place (uncommitted). Remove the `target` directory inside the worktree when you are finished ( `rm -rf {wt}/target` ) to save disk.

REPORT (your final message): (a) the diff of the src change (`git -C {wt} diff -- src`), (b) path of the demo and the exact command to run it, (c) one paragraph: why it breaks the property and what specific condition is needed for it to manifest, (d) confirmation of the three runs (unit tests 39 pass with change; demo fails with change; demo passes without change).
""")
