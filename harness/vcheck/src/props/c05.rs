//! C05 — hostile server bytes during connection setup never crash the client.
//! Deviation-bounded enumeration (1 deviation; 2 in thorough) over an otherwise honest conversation,
//! plus all short byte strings at every parser entry. Post-negotiation layers run on the raw stack (H3).

use crate::faults::{self, FaultSpace, Msg};
use crate::fixture::{raw_connect, ClientCfg};
use crate::memlink::MemLink;
use crate::peer::{CcKind, DevKind, Deviation, RawPeer, RefServer, ServerParams};
use crate::runner::{Outcome, Prop, Tier};
use rdp::core::{gcc, license, per, tpkt, x224};
use rdp::model::link::{Link, Stream};
use rdp::nla::ntlm::Ntlm;
use serde_json::{json, Value};
use std::cell::RefCell;
use std::io::Cursor;
use std::rc::Rc;
use vref::sec::Licence;

pub struct C05 {
    tier: Tier,
    cc_space: Vec<FaultSpace>,   // per offered-protocol configuration
    conn_space: Vec<FaultSpace>, // per server configuration
    blocks: Vec<(&'static str, u64)>,
    inner_msgs: Vec<String>,
}

impl C05 {
    pub fn new() -> C05 {
        C05 { tier: Tier::Quick, cc_space: vec![], conn_space: vec![], blocks: vec![], inner_msgs: vec![] }
    }
}

/// offered masks of the [cc] block; with 0 (standard RDP security only) no authentication provider is passed
const OFFERED: [u32; 3] = [3, 1, 0];
const DIRECT: [&str; 9] = ["gcc-response", "licence", "per-length", "per-integer", "per-integer16", "per-oid", "per-numeric", "per-octets", "per-small"];

fn server_cfg(k: usize) -> ServerParams {
    match k {
        0 => ServerParams::default(),
        _ => ServerParams { channels: vec![1004, 1005, 1006], unknown_block: true, block_order: 3, licence: Licence::NewLicense { body: vec![1, 2, 3, 4, 5, 6, 7, 8] }, core_opt: 0, user_id: 1004, ..Default::default() },
    }
}

fn run_cc(offered: u32, devs: Vec<Deviation>) -> (String, Rc<RefCell<RawPeer>>) {
    let p = ServerParams { cc_kind: CcKind::Response, selected: 1, ..Default::default() };
    let peer = Rc::new(RefCell::new(RawPeer { srv: RefServer::new(p, devs) }));
    let link = MemLink::with_peer(peer.clone());
    let t = tpkt::Client::new(Link::new(Stream::Raw(link)));
    let mut ntlm = Ntlm::new("d".into(), "u".into(), "p".into());
    let r = x224::Client::connect(t, offered, false, if offered == 0 { None } else { Some(&mut ntlm) }, false, false);
    (match r {
        Ok(_) => "ok".to_string(),
        Err(e) => format!("err:{}", err_class(&format!("{:?}", e))),
    }, peer)
}

/// well-formed but unusual server messages (structure-aware variants a byte-level fault cannot reach in one step):
/// (description, name of the message it replaces, replacement kind)
pub fn structured() -> Vec<(String, Deviation)> {
    use vref::bytes::W;
    let mut v = vec![];
    // X.224 confirm: every negotiation type x result/failure code x flags, consistent length field
    for ty in [1u8, 2, 3, 0, 4, 0xFF] {
        for val in [0u32, 1, 2, 3, 4, 5, 6, 7, 8, 9, 0xFF, 0x100, 0xFFFF_FFFF] {
            for flags in [0u8, 0x1F] {
                v.push((format!("cc negotiation type {} value {:#x} flags {:#x}", ty, val, flags), Deviation { msg: "cc".into(), kind: DevKind::Replace(vref::framing::tpkt(&vref::framing::x224_cc(Some((ty, flags, 8, val))))) }));
            }
        }
    }
    v.push(("cc without negotiation data".into(), Deviation { msg: "cc".into(), kind: DevKind::Replace(vref::framing::tpkt(&vref::framing::x224_cc(None))) }));
    // attach-user / channel-join confirms: every result code, echoed ids right or wrong
    for result in 0..=15u8 {
        v.push((format!("attach confirm result {}", result), Deviation { msg: "attach_confirm".into(), kind: DevKind::ReplaceInner(vref::mcs::attach_user_confirm(result, 1007)) }));
        for (req, ch) in [(1007u16, 1007u16), (1003, 1003), (1003, 1004), (1007, 0)] {
            for name in ["join_confirm", "join_confirm_2"] {
                v.push((format!("{} result {} requested {} channel {}", name, result, req, ch), Deviation { msg: name.into(), kind: DevKind::ReplaceInner(vref::mcs::channel_join_confirm(result, 1007, req, ch)) }));
            }
        }
    }
    // licensing: every message type; error alerts with every code x state transition x blob length (all lengths consistent)
    let lic = |sec_flags: u16, ty: u8, pflags: u8, body: &[u8]| {
        let mut w = W::new();
        w.u16le(sec_flags).u16le(0).u8(ty).u8(pflags).u16le((body.len() + 4) as u16).bytes(body);
        w.done()
    };
    for code in [1u32, 2, 3, 4, 6, 7, 8, 9, 0xA, 0xB, 0, 0xFFFF_FFFF] {
        for transition in [1u32, 2, 3, 4, 0] {
            for blob_len in [0usize, 1, 2, 3, 4, 5, 16, 17, 255] {
                let mut w = W::new();
                w.u32le(code).u32le(transition).u16le(4).u16le(blob_len as u16).bytes(&(0..blob_len).map(|i| 0x41 + (i % 26) as u8).collect::<Vec<u8>>());
                let body = w.done();
                v.push((format!("licence error alert code {:#x} transition {} blob of {} bytes", code, transition, blob_len), Deviation { msg: "licence".into(), kind: DevKind::ReplaceInner(lic(0x0080, 0xFF, 0x03, &body)) }));
            }
        }
    }
    for ty in [0x01u8, 0x02, 0x03, 0x04, 0x12, 0x13, 0x15, 0x00, 0xFE] {
        for body_len in [0usize, 1, 4, 40, 300] {
            for sec_flags in [0x0080u16, 0x0280, 0x0000, 0x0008] {
                v.push((format!("licence message type {:#x} body {} sec flags {:#x}", ty, body_len, sec_flags), Deviation { msg: "licence".into(), kind: DevKind::ReplaceInner(lic(sec_flags, ty, 0x83, &vec![0x11; body_len])) }));
            }
        }
    }
    // licensing messages of every type with every body length 0..24 (consistent wMsgSize)
    for ty in [0x01u8, 0x02, 0x03, 0x04, 0x12, 0x13, 0x15, 0xFF] {
        for body_len in 0..=24usize {
            for fill in [0x00u8, 0x11, 0xFF] {
                v.push((format!("licence message type {:#x} body of {} bytes {:#04x}", ty, body_len, fill), Deviation { msg: "licence".into(), kind: DevKind::ReplaceInner(lic(0x0080, ty, 0x03, &vec![fill; body_len])) }));
            }
        }
    }
    // many indications for a channel the client never joined (and for its user channel) in front of the licence
    for n in [1usize, 16, 1000, 40000, 300000] {
        for channel in [1005u16, 1007] {
            let one = vref::framing::tpkt(&vref::framing::x224_dt(&vref::mcs::send_data_indication(1002, channel, &[0x11; 4])));
            v.push((format!("{} indications on channel {} before the licence", n, channel), Deviation { msg: "licence".into(), kind: DevKind::PrependRepeated(one, n) }));
        }
    }
    // a frame announcing more than the server ever sends (then the stream ends): sizes around the multiples of 4096
    for announced in [0x1004u16, 0x2004, 0x3004, 0x4004, 0x8004, 0xF004, 0x2005, 0x2003, 0xFFFF, 0x0100] {
        for present in [0usize, 1, 100] {
            for name in ["connect_response", "attach_confirm", "licence"] {
                let mut f = vec![3u8, 0, (announced >> 8) as u8, announced as u8];
                f.extend(std::iter::repeat(0x02).take(present));
                v.push((format!("TPKT announcing {} bytes, {} present, then end of stream, instead of {}", announced, present, name), Deviation { msg: name.into(), kind: DevKind::Replace(f) }));
            }
        }
    }
    // licensing PDU: SEC_LICENSE_PKT together with each other security-header flag x 0..12 bytes after the security header
    for bit in 0..16u16 {
        for after in 0..=12usize {
            let mut w = W::new();
            w.u16le(0x0080 | (1 << bit)).u16le(0).bytes(&[0xFF, 0x03, 0x10, 0x00, 0x07, 0, 0, 0, 0x02, 0, 0, 0][..after]);
            v.push((format!("licence security flags {:#06x} followed by {} bytes", 0x0080u16 | (1 << bit), after), Deviation { msg: "licence".into(), kind: DevKind::ReplaceInner(w.done()) }));
        }
    }
    // MCS domain PDUs of one and two bytes: every choice index (x the two low bits) where a confirm / the licence is expected
    for first in 0..=255u8 {
        for name in ["attach_confirm", "join_confirm", "licence"] {
            v.push((format!("one-byte MCS PDU {:#04x} instead of {}", first, name), Deviation { msg: name.into(), kind: DevKind::Replace(vref::framing::tpkt(&vref::framing::x224_dt(&[first]))) }));
            if first % 4 == 0 {
                for second in [0x00u8, 0x80, 0xFF] {
                    v.push((format!("two-byte MCS PDU {:#04x} {:#04x} instead of {}", first, second, name), Deviation { msg: name.into(), kind: DevKind::Replace(vref::framing::tpkt(&vref::framing::x224_dt(&[first, second]))) }));
                }
            }
        }
    }
    // MCS connect response: every result code x BER length widths; GCC blocks: SC_CORE of every legal and illegal
    // length, SC_NET with many / inconsistent channel counts, blocks missing, repeated, unknown, empty
    {
        use vref::{gcc, mcs};
        let cr = |result: u64, blocks: &[u8], wide: usize, node: u16| vref::framing::tpkt(&vref::framing::x224_dt(&mcs::connect_response(result, 0, &mcs::DEFAULT_RESPONSE_PARAMS, &gcc::conference_create_response(blocks, node, 1), wide)));
        let core = |version: u32, req: Option<u32>, early: Option<u32>| gcc::sc_block_bytes(&gcc::ScBlock::Core { version, requested: req, early_flags: early });
        let sec = gcc::sc_block_bytes(&gcc::ScBlock::Security { method: 0, level: 0 });
        let net = |ch: Vec<u16>| gcc::sc_block_bytes(&gcc::ScBlock::Net { io_channel: 1003, channels: ch });
        let full = [core(0x00080004, Some(1), Some(1)), sec.clone(), net(vec![])].concat();
        for result in 0..=15u64 {
            for wide in 0..4usize {
                v.push((format!("connect response result {} BER width {}", result, wide), Deviation { msg: "connect_response".into(), kind: DevKind::Replace(cr(result, &full, wide, 31219)) }));
            }
        }
        // domain parameters and calledConnectId: every parameter at small, boundary and huge values (the rest of the
        // conversation stays honest, so whatever the client stores is used by its later writes)
        for val in [0u64, 1, 2, 3, 4, 7, 8, 9, 15, 16, 127, 128, 255, 256, 0x7FFF, 0x8000, 0xFFFF, 0x1_0000, 0x7FFF_FFFF, 0x8000_0000, 0xFFFF_FFFF, 0x1_0000_0000, u64::MAX >> 1] {
            for idx in 0..9usize {
                let mut p = mcs::DEFAULT_RESPONSE_PARAMS;
                let mut id = 0u64;
                if idx < 8 { p[idx] = val } else { id = val }
                let frame = vref::framing::tpkt(&vref::framing::x224_dt(&mcs::connect_response(0, id, &p, &gcc::conference_create_response(&full, 31219, 1), 0)));
                v.push((format!("connect response domain parameter {} = {:#x}", if idx < 8 { idx.to_string() } else { "calledConnectId".into() }, val), Deviation { msg: "connect_response".into(), kind: DevKind::Replace(frame) }));
            }
            let frame = vref::framing::tpkt(&vref::framing::x224_dt(&mcs::connect_response(0, val, &[val; 8], &gcc::conference_create_response(&full, 31219, 1), 0)));
            v.push((format!("connect response all domain parameters = {:#x}", val), Deviation { msg: "connect_response".into(), kind: DevKind::Replace(frame) }));
        }
        let raw_block = |ty: u16, body: &[u8]| {
            let mut w = W::new();
            w.u16le(ty).u16le((body.len() + 4) as u16).bytes(body);
            w.done()
        };
        let mut variants: Vec<(String, Vec<u8>)> = vec![];
        for clen in [0usize, 1, 3, 4, 5, 7, 8, 9, 11, 12, 13, 16, 20, 100] {
            let body: Vec<u8> = [0x04, 0x00, 0x08, 0x00, 1, 0, 0, 0, 1, 0, 0, 0].iter().cycle().take(clen).copied().collect();
            variants.push((format!("SC_CORE body of {} bytes", clen), [raw_block(0x0C01, &body), sec.clone(), net(vec![])].concat()));
        }
        for n in [1usize, 2, 3, 31, 32, 100, 1000, 8000] {
            variants.push((format!("SC_NET with {} channels", n), [core(0x00080004, Some(1), Some(1)), sec.clone(), net((0..n).map(|i| 1004 + (i % 500) as u16).collect())].concat()));
        }
        for (count, present) in [(1u16, 0usize), (0xFFFF, 0), (0xFFFF, 2), (2, 1), (0, 3), (3, 2)] {
            let mut w = W::new();
            w.u16le(1003).u16le(count);
            for i in 0..present {
                w.u16le(1004 + i as u16);
            }
            variants.push((format!("SC_NET announcing {} channels, {} present", count, present), [core(0x00080004, Some(1), Some(1)), sec.clone(), raw_block(0x0C03, &w.0)].concat()));
        }
        // SC_SECURITY (TS_UD_SC_SEC1): method, level, serverRandomLen, serverCertLen and what follows, all combinations
        // of small and huge announced lengths, with and without the announced bytes
        for method in [0u32, 1, 2, 8, 0x10, 0xFFFF_FFFF] {
            for (rl, cl) in [(0u32, 0u32), (32, 0), (32, 184), (0xFFFF, 0xFFFF), (0x1000_0000, 0), (0, 0x2000_0000), (0x7FFF_FFFF, 0x7FFF_FFFF), (0xFFFF_FFFF, 0xFFFF_FFFF)] {
                for present in [0usize, 32, 216] {
                    let mut w = W::new();
                    w.u32le(method).u32le(if method == 0 { 0 } else { 2 }).u32le(rl).u32le(cl).bytes(&vec![0x5A; present]);
                    variants.push((format!("SC_SECURITY method {:#x} serverRandomLen {:#x} serverCertLen {:#x} followed by {} bytes", method, rl, cl, present), [core(0x00080004, Some(1), Some(1)), raw_block(0x0C02, &w.0), net(vec![])].concat()));
                }
            }
        }
        for blen in [0usize, 4, 8, 12, 16] {
            variants.push((format!("SC_SECURITY body of {} bytes", blen), [core(0x00080004, Some(1), Some(1)), raw_block(0x0C02, &vec![0u8; blen]), net(vec![])].concat()));
        }
        variants.push(("no block at all".into(), vec![]));
        // BER lengths close to 2^64 / 2^63 / 2^32 at the top of the connect response and inside it
        for raw in [
            vec![0x7f, 0x66, 0x88, 0xff, 0xff, 0xff, 0xff, 0xff, 0xff, 0xff, 0xff],
            vec![0x7f, 0x66, 0x88, 0xff, 0xff, 0xff, 0xff, 0xff, 0xff, 0xff, 0xf0, 0x0a, 0x01, 0x00],
            vec![0x7f, 0x66, 0x0c, 0x0a, 0x88, 0xff, 0xff, 0xff, 0xff, 0xff, 0xff, 0xff, 0xff, 0x00],
            vec![0x7f, 0x66, 0x88, 0x80, 0, 0, 0, 0, 0, 0, 0, 0x0a],
            vec![0x7f, 0x66, 0x84, 0xff, 0xff, 0xff, 0xff, 0x0a, 0x01, 0x00],
            vec![0x7f, 0x66, 0x80, 0x0a, 0x01, 0x00, 0x00, 0x00],
            // an indefinite-length element followed by / containing an element that declares a length near 2^64
            vec![0x7f, 0x66, 0x80, 0x0a, 0x88, 0xff, 0xff, 0xff, 0xff, 0xff, 0xff, 0xff, 0xff],
            vec![0x7f, 0x66, 0x80, 0x0a, 0x01, 0x00, 0x02, 0x88, 0xff, 0xff, 0xff, 0xff, 0xff, 0xff, 0xff, 0xff, 0x00, 0x00],
            vec![0x7f, 0x66, 0x12, 0x0a, 0x01, 0x00, 0x02, 0x01, 0x00, 0x30, 0x80, 0x02, 0x88, 0xff, 0xff, 0xff, 0xff, 0xff, 0xff, 0xff, 0xf0, 0x00, 0x00],
            vec![0x7f, 0x66, 0x80, 0x0a, 0x01, 0x00, 0x02, 0x01, 0x00, 0x30, 0x80, 0x02, 0x88, 0xff, 0xff, 0xff, 0xff, 0xff, 0xff, 0xff, 0xff],
            vec![0x7f, 0x66, 0x0c, 0x30, 0x0a, 0x04, 0x88, 0xff, 0xff, 0xff, 0xff, 0xff, 0xff, 0xff, 0xff],
            vec![0x7f, 0x66, 0x0b, 0x30, 0x09, 0x04, 0x87, 0xff, 0xff, 0xff, 0xff, 0xff, 0xff, 0xff],
        ] {
            v.push((format!("connect response bytes {}", vref::bytes::hex(&raw)), Deviation { msg: "connect_response".into(), kind: DevKind::Replace(vref::framing::tpkt(&vref::framing::x224_dt(&raw))) }));
        }
        // the connect-response identifier spelled with padding digits (7f 80 66 / 7f 80 80 66: a reader that ends the tag number
        // at the first octet <= 0x80 and one that does not see different elements from there on), in front of elements that
        // declare lengths near 2^64 / an indefinite length; zero-filled so that either reading finds enough octets
        for inner in [
            vec![0x0au8, 0x88, 0xff, 0xff, 0xff, 0xff, 0xff, 0xff, 0xff, 0xff],
            vec![0x30, 0x0a, 0x04, 0x88, 0xff, 0xff, 0xff, 0xff, 0xff, 0xff, 0xff, 0xff],
            vec![0x02, 0x88, 0xff, 0xff, 0xff, 0xff, 0xff, 0xff, 0xff, 0xf0],
            vec![0x30, 0x80, 0x02, 0x88, 0xff, 0xff, 0xff, 0xff, 0xff, 0xff, 0xff, 0xff],
            vec![0x04, 0x87, 0xff, 0xff, 0xff, 0xff, 0xff, 0xff, 0xff],
            vec![0x0a, 0x01, 0x00, 0x02, 0x01, 0x00],
        ] {
            for digits in [1usize, 2, 9] {
                for second in [0x50u8, 0x66, 0x7f, 0x80, 0x81] {
                    let mut raw = vec![0x7fu8];
                    raw.extend(std::iter::repeat(0x80).take(digits));
                    raw.extend([0x66, second]);
                    raw.extend(&inner);
                    // exactly the element a reader sees that takes 0x66 for the length octet (identifier, length, 0x66 octets of
                    // content); a second copy runs on into 0x50 more octets
                    for extra in [0usize, 0x50] {
                        let mut raw = raw.clone();
                        raw.resize(1 + digits + 1 + 0x66 + extra, 0);
                        v.push((format!("connect response with a padded identifier ({} octets): {}..", raw.len(), vref::bytes::hex(&raw[..raw.len().min(20)])), Deviation { msg: "connect_response".into(), kind: DevKind::Replace(vref::framing::tpkt(&vref::framing::x224_dt(&raw))) }));
                    }
                }
            }
        }
        variants.push(("SC_CORE only".into(), core(0x00080004, Some(1), Some(1))));
        variants.push(("SC_NET only".into(), net(vec![])));
        variants.push(("SC_SECURITY only".into(), sec.clone()));
        variants.push(("SC_CORE twice".into(), [core(0x00080004, None, None), core(0x00080001, Some(3), None), sec.clone(), net(vec![])].concat()));
        variants.push(("SC_NET twice".into(), [core(0x00080004, Some(1), None), net(vec![1004]), net(vec![])].concat()));
        variants.push(("fifty unknown blocks then the usual ones".into(), [(0..50).flat_map(|i| raw_block(0x0C10 + i as u16, &[0u8; 4])).collect::<Vec<u8>>(), full.clone()].concat()));
        variants.push(("empty-bodied blocks of every type".into(), [raw_block(0x0C01, &[]), raw_block(0x0C02, &[]), raw_block(0x0C03, &[])].concat()));
        for node in [1001u16, 1002, 65535] {
            variants.push((format!("node id {}", node), full.clone()));
            let last = variants.len() - 1;
            v.push((variants[last].0.clone(), Deviation { msg: "connect_response".into(), kind: DevKind::Replace(cr(0, &full, 0, node)) }));
            variants.pop();
        }
        for (d, blocks) in variants {
            v.push((format!("connect response: {}", d), Deviation { msg: "connect_response".into(), kind: DevKind::Replace(cr(0, &blocks, 0, 31219)) }));
        }
    }
    // disconnect provider ultimatum (every reason) in place of each message after the connect response
    for reason in 0..8u8 {
        for name in ["attach_confirm", "join_confirm", "licence"] {
            v.push((format!("disconnect ultimatum reason {} instead of {}", reason, name), Deviation { msg: name.into(), kind: DevKind::Replace(vref::framing::tpkt(&vref::framing::x224_dt(&vref::mcs::disconnect_provider_ultimatum(reason)))) }));
        }
    }
    v
}

pub fn err_class(dbg: &str) -> String {
    // first two identifiers of the Debug text: e.g. RdpError(RdpError { kind: InvalidData -> "RdpError:InvalidData"
    if let Some(i) = dbg.find("kind: ") {
        let rest = &dbg[i + 6..];
        let k: String = rest.chars().take_while(|c| c.is_alphanumeric()).collect();
        return format!("Rdp:{}", k);
    }
    dbg.chars().take_while(|c| c.is_alphanumeric()).collect()
}

impl C05 {
    fn locate(&self, idx: u64) -> (&'static str, u64) {
        let mut i = idx;
        for (n, c) in &self.blocks {
            if i < *c {
                return (n, i);
            }
            i -= c;
        }
        unreachable!()
    }

    /// string set of a block: the frame reader and the direct parser entries get the heavy set in thorough
    fn strs(&self, block: &str) -> faults::Strs {
        faults::Strs::for_tier(self.tier, block == "frame" || block == "direct")
    }

    fn decode(&self, idx: u64) -> (String, usize, Vec<Deviation>, Option<Vec<u8>>) {
        // -> (block, config, deviations, direct input)
        let (b, mut i) = self.locate(idx);
        match b {
            "cc" => {
                for (k, fs) in self.cc_space.iter().enumerate() {
                    if i < fs.total() {
                        return (b.into(), k, vec![fs.get(i).1], None);
                    }
                    i -= fs.total();
                }
                unreachable!()
            }
            "conn" => {
                for (k, fs) in self.conn_space.iter().enumerate() {
                    if i < fs.total() {
                        return (b.into(), k, vec![fs.get(i).1], None);
                    }
                    i -= fs.total();
                }
                unreachable!()
            }
            "pairs" => {
                let fs = &self.conn_space[0];
                let n = fs.reduced_count();
                let a = i / n;
                let c = i % n;
                (b.into(), 0, vec![fs.reduced_get(a), fs.reduced_get(c)], None)
            }
            "inner" => {
                let st = self.strs("inner");
                let n = st.count();
                let m = (i / n) as usize;
                let s = st.get(i % n);
                let name = self.inner_msgs[m].clone();
                let kind = if name == "cc" { DevKind::Replace(vref::framing::tpkt(&s)) } else { DevKind::ReplaceInner(s) };
                (b.into(), 0, vec![Deviation { msg: name, kind }], None)
            }
            "frame" => {
                // the whole server message replaced by raw (unframed) bytes: the TPKT/fast-path reader is the parser entry
                let st = self.strs("frame");
                let n = st.count();
                let m = (i / n) as usize;
                let s = st.get(i % n);
                (b.into(), 0, vec![Deviation { msg: self.inner_msgs[m].clone(), kind: DevKind::Replace(s) }], None)
            }
            "structured" => {
                let (_, d) = crate::alloc::exempt(|| structured()[(i / 3) as usize].clone());
                (b.into(), (i % 3) as usize, vec![d], None)
            }
            "direct" => {
                let st = self.strs("direct");
                let n = st.count();
                let e = (i / n) as usize;
                (format!("direct:{}", DIRECT[e]), e, vec![], Some(st.get(i % n)))
            }
            _ => unreachable!(),
        }
    }
}

impl Prop for C05 {
    fn id(&self) -> &'static str {
        "C05"
    }
    fn level(&self) -> &'static str {
        "fault_enumeration"
    }
    fn prepare(&mut self, tier: Tier) -> Result<(), String> {
        self.tier = tier;
        // honest runs give the honest server messages
        self.cc_space.clear();
        for &o in &OFFERED {
            let (_r, peer) = run_cc(o, vec![]);
            let sent = peer.borrow().srv.sent.clone();
            let cc = sent.iter().find(|s| s.0 == "cc").ok_or("honest run: no connection confirm was sent")?;
            self.cc_space.push(FaultSpace::new(vec![Msg { name: "cc".into(), honest: cc.1.clone() }], tier));
        }
        self.conn_space.clear();
        for k in 0..2 {
            let c = raw_connect(&ClientCfg::default(), server_cfg(k), vec![]);
            let sent = c.peer.borrow().srv.sent.clone();
            let msgs: Vec<Msg> = sent.iter().map(|s| Msg { name: s.0.clone(), honest: s.1.clone() }).collect();
            // the honest run only serves to collect the five honest server messages: a client that refuses the last one
            // with an error (C03's matter, not a crash) has still made the server send all of them
            if msgs.len() != 5 {
                return Err(match c.error {
                    Some((st, e)) => format!("honest connect (server configuration {}) failed at {}: {}", k, st, e),
                    None => format!("honest connect: expected 5 server messages, saw {:?}", msgs.iter().map(|m| &m.name).collect::<Vec<_>>()),
                });
            }
            self.conn_space.push(FaultSpace::new(msgs, tier));
        }
        self.inner_msgs = vec!["cc".into(), "connect_response".into(), "attach_confirm".into(), "join_confirm".into(), "join_confirm_2".into(), "licence".into()];
        let mut blocks = vec![
            ("cc", self.cc_space.iter().map(|f| f.total()).sum()),
            ("conn", self.conn_space.iter().map(|f| f.total()).sum()),
            ("inner", self.inner_msgs.len() as u64 * self.strs("inner").count()),
            ("frame", self.inner_msgs.len() as u64 * self.strs("frame").count()),
            ("direct", DIRECT.len() as u64 * self.strs("direct").count()),
            ("structured", structured().len() as u64 * 3),
        ];
        if tier == Tier::Thorough {
            let n = self.conn_space[0].reduced_count();
            blocks.push(("pairs", n * n));
        }
        self.blocks = blocks;
        Ok(())
    }
    fn n_cases(&self) -> u64 {
        self.blocks.iter().map(|b| b.1).sum()
    }
    fn describe(&self, idx: u64) -> Value {
        let (b, cfg, devs, direct) = self.decode(idx);
        json!({"idx": idx, "block": b, "config": cfg, "deviations": devs, "direct_input_hex": direct.map(|d| vref::bytes::hex(&d))})
    }
    fn rule(&self) -> String {
        "cases = an honest setup conversation with <=1 deviation (<=2 in thorough). [cc] x224::Client::connect for offered masks {3,1} and 0 (no authentication provider): the connection confirm with every byte offset x value set (12 boundary values + honest+-1 in quick, all 256 in thorough), every offset as 16/32-bit field in both byte orders x boundary set, every truncation, extensions {+1,+2,+1500}; [conn] the same over connect-response, attach-confirm, both join-confirms and the licence PDU for two server configurations, executed through the real mcs::Client::connect + sec::connect; [inner] each message's payload replaced by every byte string of length <=2 and every string of length 3..5 (..6 in thorough) over {00,01,02,03,04,7F,80,FF}; [frame] each whole message replaced by every string of length <=2 (<=3 in thorough) plus the alphabet strings, unframed (the TPKT / fast-path frame reader is the entry); [direct] the same strings fed to gcc::read_conference_create_response, license::client_connect and the per::read_* primitives; [structured] well-formed but unusual messages: the MCS connect response with every result code 0..15 x 4 BER length widths, SC_CORE bodies of 0..100 bytes, SC_NET with 1..8000 channels and inconsistent counts, SC_SECURITY with every combination of small / huge serverRandomLen and serverCertLen with and without the bytes, blocks missing / repeated / unknown / empty, node ids; the X.224 confirm with every negotiation type x result / failure code 0..9, 0xFF, 0x100, 2^32-1 x flags; attach and join confirms with every result code 0..15 and right / wrong echoed ids; licensing error alerts over 12 codes x 5 state transitions x 9 blob lengths with consistent length fields, every licensing message type x body length x security-header flags; a disconnect ultimatum with every reason in place of each later message; each for both offered masks / server configurations; [pairs, thorough] all pairs of {byte:=00, byte:=FF, truncate} over all offsets of all five messages. Non-trivial: the deviation changed bytes the client consumed (the outcome differs from the honest one or the mutated message was reached). After every structured, truncated or length-rewritten connect response the same thread makes three more connections: to a 6-byte and a 3-byte connect response, then to an honest server (nothing noted while walking one stream may be applied to the next).".into()
    }
    fn assumptions(&self) -> Vec<String> {
        vec![
            "memory rule: a single request > 1 MiB or peak live > 16 MiB + 1024 x bytes received is out of proportion".into(),
            "the TLS upgrade itself is exercised in C02/C07; here a confirm that still selects TLS ends in a failed handshake against the raw peer".into(),
        ]
    }
    fn coverage_extra(&self) -> Value {
        json!({"blocks": self.blocks.iter().map(|b| json!({"name": b.0, "cases": b.1})).collect::<Vec<_>>(), "deviation_bound_completed": if self.tier == Tier::Quick { 1 } else { 2 },
               "messages": self.conn_space.iter().map(|f| f.msgs.iter().map(|m| json!({"name": m.name, "bytes": m.honest.len()})).collect::<Vec<_>>()).collect::<Vec<_>>()})
    }
    fn run_case(&mut self, idx: u64) -> Outcome {
        let (block, cfg, devs, direct) = self.decode(idx);
        if let Some(s) = direct {
            let mut c = Cursor::new(s.clone());
            let r: Result<(), String> = match block.as_str() {
                "direct:gcc-response" => gcc::read_conference_create_response(&mut c).map(|_| ()).map_err(|e| format!("{:?}", e)),
                "direct:licence" => license::client_connect(&mut c).map_err(|e| format!("{:?}", e)),
                "direct:per-length" => per::read_length(&mut c).map(|_| ()).map_err(|e| format!("{:?}", e)),
                "direct:per-integer" => per::read_integer(&mut c).map(|_| ()).map_err(|e| format!("{:?}", e)),
                "direct:per-integer16" => per::read_integer_16(1001, &mut c).map(|_| ()).map_err(|e| format!("{:?}", e)),
                "direct:per-oid" => per::read_object_identifier(&[0, 0, 20, 124, 0, 1], &mut c).map(|_| ()).map_err(|e| format!("{:?}", e)),
                "direct:per-numeric" => per::read_numeric_string(1, &mut c).map(|_| ()).map_err(|e| format!("{:?}", e)),
                "direct:per-octets" => per::read_octet_stream(b"McDn", 4, &mut c).map_err(|e| format!("{:?}", e)),
                _ => per::read_enumerates(&mut c).and_then(|_| per::read_choice(&mut c)).and_then(|_| per::read_number_of_set(&mut c)).and_then(|_| per::read_selection(&mut c)).and_then(|_| per::read_padding(2, &mut c)).map_err(|e| format!("{:?}", e)),
            };
            crate::runner::BYTES_IN.store(s.len() as u64, std::sync::atomic::Ordering::Relaxed);
            return Outcome::pass(format!("{}:{}", block, if r.is_ok() { "ok".to_string() } else { err_class(&r.unwrap_err()) }), !s.is_empty());
        }
        match block.as_str() {
            "structured" if devs[0].msg == "cc" => {
                let (r, peer) = run_cc(OFFERED[cfg], devs.clone());
                let applied = peer.borrow().srv.dev_applied.iter().any(|a| *a);
                Outcome::pass(format!("structured-cc:{}", r), applied)
            }
            "cc" => {
                let (r, peer) = run_cc(OFFERED[cfg], devs.clone());
                let applied = peer.borrow().srv.dev_applied.iter().any(|a| *a);
                Outcome::pass(format!("cc:{}:{}", dev_class(&devs[0]), r), applied)
            }
            _ => {
                // the structured shapes run three times: against two server configurations after TLS was selected, and (third)
                // as after a server that selected standard RDP security
                let c = if block == "structured" && cfg == 2 { crate::fixture::raw_connect_as(&ClientCfg::default(), server_cfg(0), devs.clone(), rdp::core::x224::Protocols::ProtocolRDP) } else { raw_connect(&ClientCfg::default(), server_cfg(cfg % 2), devs.clone()) };
                let applied = c.peer.borrow().srv.dev_applied.iter().filter(|a| **a).count();
                let res = match &c.error {
                    None => "ok".to_string(),
                    Some((st, e)) => format!("{}:{}", st, err_class(e)),
                };
                // whatever became of this connect response (structured shapes, truncations, rewritten length fields): the next
                // connection of the thread meets a much shorter one, then an honest one — nothing noted while walking the
                // first stream may be applied to the next
                if devs[0].msg.contains("connect") && (block == "structured" || matches!(devs[0].kind, DevKind::Truncate(_) | DevKind::SetU16 { .. } | DevKind::SetU32 { .. })) {
                    drop(c);
                    for tiny in [vec![0x7f, 0x66, 0x03, 0x0a, 0x01, 0x00], vec![0x7f, 0x66, 0x00]] {
                        let f = vref::framing::tpkt(&vref::framing::x224_dt(&tiny));
                        let _ = raw_connect(&ClientCfg::default(), server_cfg(0), vec![Deviation { msg: devs[0].msg.clone(), kind: DevKind::Replace(f) }]);
                    }
                    let _ = raw_connect(&ClientCfg::default(), server_cfg(0), vec![]);
                }
                Outcome::pass(format!("{}:{}:{}:{}", block, devs[0].msg, dev_class(&devs[0]), res), applied == devs.len())
            }
        }
    }
}

pub fn dev_class(d: &Deviation) -> &'static str {
    match d.kind {
        DevKind::SetByte { .. } => "byte",
        DevKind::SetU16 { .. } => "u16",
        DevKind::SetU32 { .. } => "u32",
        DevKind::Truncate(_) => "truncate",
        DevKind::Extend(_) => "extend",
        DevKind::Replace(_) => "replace",
        DevKind::Prepend(_) | DevKind::PrependRepeated(..) => "prepend",
        DevKind::ReplaceInner(_) => "replace-inner",
    }
}
