//! Reference T.124 GCC Conference Create Request/Response as profiled by MS-RDPBCGR 2.2.1.3 / 2.2.1.4,
//! plus the client (CS_*) and server (SC_*) user-data blocks.

use crate::bytes::*;
use crate::per;

pub const T124_OID: [u8; 6] = [0, 0, 20, 124, 0, 1];

pub const CS_CORE: u16 = 0xC001;
pub const CS_SECURITY: u16 = 0xC002;
pub const CS_NET: u16 = 0xC003;
pub const SC_CORE: u16 = 0x0C01;
pub const SC_SECURITY: u16 = 0x0C02;
pub const SC_NET: u16 = 0x0C03;

#[derive(Clone, Debug, PartialEq, Eq)]
pub struct CsCore {
    pub version: u32,
    pub width: u16,
    pub height: u16,
    pub color_depth: u16,
    pub sas_sequence: u16,
    pub kbd_layout: u32,
    pub client_build: u32,
    pub client_name_raw: Vec<u8>,
    /// decoded name up to the first NUL
    pub client_name: String,
    pub kbd_type: u32,
    pub kbd_subtype: u32,
    pub kbd_fn_keys: u32,
    pub post_beta2_color_depth: Option<u16>,
    pub client_product_id: Option<u16>,
    pub serial_number: Option<u32>,
    pub high_color_depth: Option<u16>,
    pub supported_color_depths: Option<u16>,
    pub early_capability_flags: Option<u16>,
    pub connection_type: Option<u8>,
    pub server_selected_protocol: Option<u32>,
}

#[derive(Clone, Debug, PartialEq, Eq)]
pub struct ClientBlocks {
    pub core: CsCore,
    pub security: Option<(u32, u32)>,
    pub net: Option<Vec<(Vec<u8>, u32)>>,
    pub order: Vec<u16>,
}

/// strict parse of the PER Conference Create Request; returns the concatenated user-data blocks
pub fn parse_conference_create_request(b: &[u8]) -> PResult<Vec<u8>> {
    let mut r = R::new(b);
    let choice = r.u8()?;
    if choice != 0 {
        return Err(format!("GCC CCrq: Key choice {:#x}", choice));
    }
    let oid = per::read_oid6(&mut r)?;
    if oid != T124_OID {
        return Err(format!("GCC CCrq: OID {:?}", oid));
    }
    let len = per::read_length(&mut r)? as usize;
    if len != r.remaining() {
        return Err(format!("GCC CCrq: connectPDU length {} but {} bytes follow", len, r.remaining()));
    }
    let c = r.u8()?;
    if c != 0 {
        return Err(format!("GCC CCrq: ConnectGCCPDU choice {:#x}", c));
    }
    let sel = r.u8()?;
    if sel != 0x08 {
        return Err(format!("GCC CCrq: optional-field selection {:#x}", sel));
    }
    let name = per::read_numeric_string(&mut r, 1)?;
    if name != b"1" {
        return Err(format!("GCC CCrq: conference name {:?}", name));
    }
    let pad = r.u8()?;
    if pad != 0 {
        return Err(format!("GCC CCrq: padding {:#x}", pad));
    }
    let nsets = r.u8()?;
    if nsets != 1 {
        return Err(format!("GCC CCrq: {} user data sets", nsets));
    }
    let ch = r.u8()?;
    if ch != 0xc0 {
        return Err(format!("GCC CCrq: user data choice {:#x}", ch));
    }
    let key = per::read_octets(&mut r, 4)?;
    if key != b"Duca" {
        return Err(format!("GCC CCrq: H.221 key {:?}", key));
    }
    let ud = per::read_octets(&mut r, 0)?;
    r.expect_end("GCC CCrq")?;
    Ok(ud.to_vec())
}

fn utf16_until_nul(raw: &[u8]) -> PResult<(String, usize, bool)> {
    let units: Vec<u16> = raw.chunks(2).map(|c| u16::from_le_bytes([c[0], c[1]])).collect();
    let n = units.iter().position(|&u| u == 0);
    let used = n.unwrap_or(units.len());
    let s = String::from_utf16(&units[..used]).map_err(|_| "invalid UTF-16 (unpaired surrogate)".to_string())?;
    Ok((s, used, n.is_some()))
}

/// strict parse of the client user-data blocks (MS-RDPBCGR 2.2.1.3.1 – 2.2.1.3.4)
pub fn parse_client_blocks(ud: &[u8]) -> PResult<ClientBlocks> {
    let mut r = R::new(ud);
    let mut core = None;
    let mut security = None;
    let mut net = None;
    let mut order = vec![];
    while !r.at_end() {
        let ty = r.u16le()?;
        let len = r.u16le()? as usize;
        if len < 4 {
            return Err(format!("client block {:#x}: length {}", ty, len));
        }
        let body = r.take(len - 4).map_err(|e| format!("client block {:#x} length {}: {}", ty, len, e))?;
        order.push(ty);
        let mut b = R::new(body);
        match ty {
            CS_CORE => {
                if body.len() < 128 {
                    return Err(format!("CS_CORE: body of {} bytes, mandatory part is 128", body.len()));
                }
                let version = b.u32le()?;
                let width = b.u16le()?;
                let height = b.u16le()?;
                let color_depth = b.u16le()?;
                let sas_sequence = b.u16le()?;
                let kbd_layout = b.u32le()?;
                let client_build = b.u32le()?;
                let name_raw = b.take(32)?.to_vec();
                let (client_name, used, has_nul) = utf16_until_nul(&name_raw).map_err(|e| format!("CS_CORE clientName: {}", e))?;
                if !has_nul || used > 15 {
                    return Err(format!("CS_CORE clientName: not NUL-terminated within 16 UTF-16 units ({} units used)", used));
                }
                let kbd_type = b.u32le()?;
                let kbd_subtype = b.u32le()?;
                let kbd_fn_keys = b.u32le()?;
                let _ime = b.take(64)?;
                // optional tail: each field may only be present if all previous ones are
                macro_rules! opt {
                    ($e:expr) => {
                        if b.at_end() {
                            None
                        } else {
                            Some($e.map_err(|e: String| format!("CS_CORE optional tail: {}", e))?)
                        }
                    };
                }
                let post_beta2_color_depth = opt!(b.u16le());
                let client_product_id = opt!(b.u16le());
                let serial_number = opt!(b.u32le());
                let high_color_depth = opt!(b.u16le());
                let supported_color_depths = opt!(b.u16le());
                let early_capability_flags = opt!(b.u16le());
                let _dig = opt!(b.take(64).map(|_| ()));
                let connection_type = opt!(b.u8());
                let _pad = opt!(b.u8());
                let server_selected_protocol = opt!(b.u32le());
                // later optional fields (desktop physical size etc.) are not produced by this client
                b.expect_end("CS_CORE")?;
                core = Some(CsCore {
                    version,
                    width,
                    height,
                    color_depth,
                    sas_sequence,
                    kbd_layout,
                    client_build,
                    client_name_raw: name_raw,
                    client_name,
                    kbd_type,
                    kbd_subtype,
                    kbd_fn_keys,
                    post_beta2_color_depth,
                    client_product_id,
                    serial_number,
                    high_color_depth,
                    supported_color_depths,
                    early_capability_flags,
                    connection_type,
                    server_selected_protocol,
                });
            }
            CS_SECURITY => {
                let m = b.u32le()?;
                let e = b.u32le()?;
                b.expect_end("CS_SECURITY")?;
                security = Some((m, e));
            }
            CS_NET => {
                let count = b.u32le()? as usize;
                if count > 31 {
                    return Err(format!("CS_NET: channelCount {}", count));
                }
                let mut v = vec![];
                for _ in 0..count {
                    let name = b.take(8)?.to_vec();
                    let opts = b.u32le()?;
                    v.push((name, opts));
                }
                b.expect_end("CS_NET")?;
                net = Some(v);
            }
            0xC004 | 0xC005 | 0xC006 | 0xC008 | 0xC00A => {}
            _ => return Err(format!("unknown client block type {:#x}", ty)),
        }
    }
    let core = core.ok_or("CS_CORE missing")?;
    if order.first() != Some(&CS_CORE) {
        return Err("CS_CORE is not the first block".into());
    }
    Ok(ClientBlocks { core, security, net, order })
}

// ------------------------------------------------------------------ server side

#[derive(Clone, Debug, PartialEq, Eq, serde::Serialize, serde::Deserialize)]
pub enum ScBlock {
    Core { version: u32, requested: Option<u32>, early_flags: Option<u32> },
    Security { method: u32, level: u32 },
    Net { io_channel: u16, channels: Vec<u16> },
    Unknown { ty: u16, body: Vec<u8> },
}

pub fn sc_block_bytes(b: &ScBlock) -> Vec<u8> {
    let (ty, body) = match b {
        ScBlock::Core { version, requested, early_flags } => {
            let mut w = W::new();
            w.u32le(*version);
            if let Some(r) = requested {
                w.u32le(*r);
                if let Some(e) = early_flags {
                    w.u32le(*e);
                }
            }
            (SC_CORE, w.done())
        }
        ScBlock::Security { method, level } => {
            let mut w = W::new();
            w.u32le(*method).u32le(*level);
            (SC_SECURITY, w.done())
        }
        ScBlock::Net { io_channel, channels } => {
            let mut w = W::new();
            w.u16le(*io_channel).u16le(channels.len() as u16);
            for c in channels {
                w.u16le(*c);
            }
            if channels.len() % 2 == 1 {
                w.u16le(0);
            }
            (SC_NET, w.done())
        }
        ScBlock::Unknown { ty, body } => (*ty, body.clone()),
    };
    let mut w = W::new();
    w.u16le(ty).u16le((body.len() + 4) as u16).bytes(&body);
    w.done()
}

/// PER Conference Create Response around the given server blocks. `node_id` ≥ 1001.
/// `long_len`: force two-byte PER length determinants even for short values (legal, non-minimal is
/// not allowed in PER aligned for lengths, so this is only used where both spellings exist: >= 0x80).
pub fn conference_create_response(blocks: &[u8], node_id: u16, tag: u32) -> Vec<u8> {
    let mut inner = W::new();
    inner.u8(0x14);
    per::write_integer16(&mut inner, node_id, 1001);
    per::write_integer(&mut inner, tag);
    inner.u8(0); // result: success
    inner.u8(1); // one user data set
    inner.u8(0xc0);
    per::write_octets(&mut inner, b"McDn", 4);
    per::write_octets(&mut inner, blocks, 0);
    let mut w = W::new();
    w.u8(0);
    per::write_oid6(&mut w, &T124_OID);
    per::write_length(&mut w, inner.len() as u16);
    w.bytes(&inner.0);
    w.done()
}

#[cfg(test)]
mod t {
    use super::*;
    #[test]
    fn ms_example_response() {
        // MS-RDPBCGR 4.1.4: 00 05 00 14 7c 00 01 2a 14 76 0a 01 01 00 01 c0 00 4d 63 44 6e 81 08 ...
        let b = conference_create_response(&[0u8; 0x108 - 0x100 + 0x100], 0x760a + 1001, 1);
        assert_eq!(&b[..7], &[0, 5, 0, 0x14, 0x7c, 0, 1]);
        assert_eq!(&b[b.len() - 264 - 15..b.len() - 264 - 2], &[0x14, 0x76, 0x0a, 1, 1, 0, 1, 0xc0, 0, 0x4d, 0x63, 0x44, 0x6e]);
    }
}
