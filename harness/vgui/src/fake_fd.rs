//! Modelled descriptor for the rewritten `wait_for_fd`: `select` blocks on shuttle primitives until the
//! scheduled link has bytes (or is closed). Everything observable by the property is decided in `c20`.
#![allow(non_camel_case_types, non_snake_case)]

#[repr(C)]
pub struct fd_set {
    pub bits: [u64; 16],
}

#[repr(C)]
pub struct timeval {
    pub tv_sec: i64,
    pub tv_usec: i64,
}

pub unsafe fn FD_SET(fd: i32, set: *mut fd_set) {
    let fd = fd as usize;
    (*set).bits[(fd / 64) % 16] |= 1 << (fd % 64);
}

pub unsafe fn FD_ZERO(set: *mut fd_set) {
    (*set).bits = [0; 16];
}

pub unsafe fn FD_ISSET(fd: i32, set: *const fd_set) -> bool {
    let fd = fd as usize;
    (*set).bits[(fd / 64) % 16] & (1 << (fd % 64)) != 0
}

/// `timeout` null = wait for ever; otherwise the wait may end with 0 when nothing is readable
pub unsafe fn select(nfds: i32, _readfds: *mut fd_set, _writefds: *mut fd_set, _exceptfds: *mut fd_set, timeout: *mut timeval) -> i32 {
    crate::c20::model_select(nfds - 1, !timeout.is_null())
}
