//! Generic bounded-exhaustive sweep runner.
//!
//! A property is an index-addressable finite enumeration of cases. The parent process shards the
//! index space over worker *subprocesses* (stride sharding). A worker writes the index of the case
//! it is about to execute into an mmap'd journal, so that an abort, a segfault, a huge allocation
//! or a hang is attributed to exactly one case; the parent then restarts the shard after that case.
//! Every case runs under `catch_unwind` with a silent panic hook and the counting allocator.

use crate::alloc;
use serde_json::{json, Value};
use std::collections::BTreeMap;
use std::io::Write;
use std::path::{Path, PathBuf};
use std::process::{Child, Command, Stdio};
use std::sync::atomic::{AtomicU64, Ordering::Relaxed};
use std::sync::Mutex;
use std::time::{Duration, Instant};

#[derive(Clone, Copy, PartialEq, Eq, Debug)]
pub enum Tier {
    Quick,
    Thorough,
}

impl Tier {
    pub fn parse(s: &str) -> Option<Tier> {
        match s {
            "quick" => Some(Tier::Quick),
            "thorough" => Some(Tier::Thorough),
            _ => None,
        }
    }
    pub fn name(&self) -> &'static str {
        match self {
            Tier::Quick => "quick",
            Tier::Thorough => "thorough",
        }
    }
}

#[derive(Clone, Debug)]
pub struct Violation {
    /// stable signature: used for de-duplication and known-finding matching
    pub sig: String,
    pub detail: String,
}

#[derive(Clone, Debug, Default)]
pub struct Outcome {
    /// outcome class (for the "distinct outcomes" vacuity guard)
    pub class: String,
    /// does this case count as non-trivial by the property's stated rule
    pub nontrivial: bool,
    pub violation: Option<Violation>,
    pub note: Option<String>,
}

impl Outcome {
    pub fn pass(class: impl Into<String>, nontrivial: bool) -> Outcome {
        Outcome { class: class.into(), nontrivial, violation: None, note: None }
    }
    pub fn fail(class: impl Into<String>, sig: impl Into<String>, detail: impl Into<String>) -> Outcome {
        Outcome { class: class.into(), nontrivial: true, violation: Some(Violation { sig: sig.into(), detail: detail.into() }), note: None }
    }
    pub fn with_note(mut self, n: impl Into<String>) -> Outcome {
        self.note = Some(n.into());
        self
    }
}

pub trait Prop {
    fn id(&self) -> &'static str;
    /// evidence level: exploration | fault_enumeration | model_checking
    fn level(&self) -> &'static str;
    /// build the enumeration for this tier (deterministic: every worker builds the same one)
    fn prepare(&mut self, tier: Tier) -> Result<(), String>;
    fn n_cases(&self) -> u64;
    fn run_case(&mut self, idx: u64) -> Outcome;
    fn describe(&self, idx: u64) -> Value;
    fn rule(&self) -> String;
    fn assumptions(&self) -> Vec<String>;
    /// static description of the explored space (blocks, bounds, exhaustive flags)
    fn coverage_extra(&self) -> Value {
        json!({})
    }
    /// memory rule: return Some(description) if (peak, largest request, bytes received from the peer) is out of proportion
    fn mem_rule(&self, peak: usize, maxreq: usize, bytes_in: u64) -> Option<String> {
        if maxreq > (1 << 20) {
            return Some(format!("single allocation request of {} bytes", maxreq));
        }
        let allowed = (16usize << 20) + 1024 * bytes_in as usize;
        if peak > allowed {
            return Some(format!("peak live {} bytes > 16 MiB + 1024 x {} bytes received", peak, bytes_in));
        }
        None
    }
    /// seconds before a single case is declared hung
    fn case_timeout(&self, tier: Tier) -> u64 {
        match tier {
            Tier::Quick => 20,
            Tier::Thorough => 60,
        }
    }
    /// number of worker processes
    fn workers(&self) -> usize {
        16
    }
    fn exhaustive(&self) -> bool {
        true
    }
    /// called in a worker before `prepare`: the worker only executes indexes congruent to w modulo nw,
    /// so a property may avoid materialising the other cases (the enumeration order must not change)
    fn set_shard(&mut self, _w: u64, _nw: u64) {}
    /// called in the parent before `prepare`: the parent only needs the number of cases
    fn set_parent_mode(&mut self) {}
    /// representative cases for the ordered-pair block (see `WithPairs`): every ordered pair (a, b) of them is
    /// executed back to back in one process and b must still satisfy its oracle. Must be the same list in the
    /// parent and in every worker, and the listed cases must be materialised in every shard.
    /// Default: 8 cases spread evenly over the enumeration.
    fn pair_reps(&self, _tier: Tier) -> Vec<u64> {
        let n = self.n_cases();
        if n < 2 {
            return vec![];
        }
        let k = 8u64.min(n);
        (0..k).map(|i| (2 * i + 1) * n / (2 * k)).collect()
    }
}

/// Adds to a property's enumeration the block "every ordered pair of representative cases, run back to back in
/// the same process": state that survives from one connection / call / decode to the next (a cache, a static, a
/// hoisted scratch buffer) must not change the verdict of the second. The second case is judged by its own oracle.
pub struct WithPairs {
    inner: Box<dyn Prop>,
    reps: Vec<u64>,
    base: u64,
}

impl WithPairs {
    pub fn new(inner: Box<dyn Prop>) -> WithPairs {
        WithPairs { inner, reps: vec![], base: 0 }
    }
    fn pair(&self, idx: u64) -> (u64, u64) {
        let k = self.reps.len() as u64;
        let j = idx - self.base;
        (self.reps[(j / k) as usize], self.reps[(j % k) as usize])
    }
}

impl Prop for WithPairs {
    fn id(&self) -> &'static str {
        self.inner.id()
    }
    fn level(&self) -> &'static str {
        self.inner.level()
    }
    fn prepare(&mut self, tier: Tier) -> Result<(), String> {
        self.inner.prepare(tier)?;
        self.base = self.inner.n_cases();
        self.reps = self.inner.pair_reps(tier).into_iter().filter(|i| *i < self.base).collect();
        Ok(())
    }
    fn n_cases(&self) -> u64 {
        self.base + (self.reps.len() * self.reps.len()) as u64
    }
    fn run_case(&mut self, idx: u64) -> Outcome {
        if idx < self.base {
            return self.inner.run_case(idx);
        }
        let (a, b) = self.pair(idx);
        // the first case only establishes whatever state survives it; its own verdict belongs to its own index
        let _ = std::panic::catch_unwind(std::panic::AssertUnwindSafe(|| self.inner.run_case(a)));
        let _ = take_panic();
        let mut out = self.inner.run_case(b);
        out.class = format!("pair:{}", out.class);
        out.nontrivial = true;
        out
    }
    fn describe(&self, idx: u64) -> Value {
        if idx < self.base {
            return self.inner.describe(idx);
        }
        let (a, b) = self.pair(idx);
        json!({"idx": idx, "pair_block": "two cases back to back in one process; the verdict is that of the second", "first": self.inner.describe(a), "then": self.inner.describe(b)})
    }
    fn rule(&self) -> String {
        format!("{} PLUS the pair block: every ordered pair (a, b) of {} representative cases run back to back in one process, b judged by its own oracle (state surviving from one connection / call to the next).", self.inner.rule(), self.reps.len())
    }
    fn assumptions(&self) -> Vec<String> {
        self.inner.assumptions()
    }
    fn coverage_extra(&self) -> Value {
        let mut v = self.inner.coverage_extra();
        if let Some(o) = v.as_object_mut() {
            o.insert("pair_block".into(), json!({"representatives": self.reps, "ordered_pairs": self.reps.len() * self.reps.len()}));
        }
        v
    }
    fn mem_rule(&self, peak: usize, maxreq: usize, bytes_in: u64) -> Option<String> {
        self.inner.mem_rule(peak, maxreq, bytes_in)
    }
    fn case_timeout(&self, tier: Tier) -> u64 {
        self.inner.case_timeout(tier)
    }
    fn workers(&self) -> usize {
        self.inner.workers()
    }
    fn exhaustive(&self) -> bool {
        self.inner.exhaustive()
    }
    fn set_shard(&mut self, w: u64, nw: u64) {
        self.inner.set_shard(w, nw)
    }
    fn set_parent_mode(&mut self) {
        self.inner.set_parent_mode()
    }
}

// ------------------------------------------------------------------ per-case instrumentation

/// bytes handed to the code under test by the (reference) peer during the current case
pub static BYTES_IN: AtomicU64 = AtomicU64::new(0);
static PANIC_INFO: Mutex<Option<String>> = Mutex::new(None);

pub fn install_panic_hook() {
    std::panic::set_hook(Box::new(|info| {
        let loc = info.location().map(|l| format!("{}:{}:{}", l.file(), l.line(), l.column())).unwrap_or_else(|| "?".into());
        let msg = if let Some(s) = info.payload().downcast_ref::<&str>() {
            s.to_string()
        } else if let Some(s) = info.payload().downcast_ref::<String>() {
            s.clone()
        } else {
            "<non-string panic>".into()
        };
        if let Ok(mut g) = PANIC_INFO.lock() {
            *g = Some(format!("{} :: {}", loc, msg));
        }
    }));
}

pub fn take_panic() -> Option<String> {
    PANIC_INFO.lock().ok().and_then(|mut g| g.take())
}

/// shorten a panic message to a stable signature: location + message with digits normalised
pub fn panic_sig(p: &str) -> String {
    let mut out = String::new();
    let (loc, msg) = p.split_once(" :: ").unwrap_or((p, ""));
    // strip the absolute prefix of the repository
    let mut loc = loc.replace("/repo/", "");
    if let Ok(r) = std::env::var("VERIF_REPO") {
        loc = loc.replace(&format!("{}/", r.trim_end_matches('/')), "");
    }
    // the GUI binary is compiled from a verbatim copy generated by vgui/build.rs (same line numbers)
    for gen in ["/out/mstsc_plain.rs", "/out/mstsc_shuttle.rs"] {
        if let Some(i) = loc.find(gen) {
            loc = format!("src/bin/mstsc-rs.rs{}", &loc[i + gen.len()..]);
        }
    }
    out.push_str(&loc);
    out.push_str(" :: ");
    let mut prev_digit = false;
    for c in msg.chars().take(80) {
        if c.is_ascii_digit() {
            if !prev_digit {
                out.push('#');
            }
            prev_digit = true;
        } else {
            prev_digit = false;
            out.push(c);
        }
    }
    out
}

/// run one case under all guards; never panics
pub fn guarded(prop: &mut dyn Prop, idx: u64) -> Outcome {
    BYTES_IN.store(0, Relaxed);
    let _ = take_panic();
    alloc::reset();
    let r = std::panic::catch_unwind(std::panic::AssertUnwindSafe(|| prop.run_case(idx)));
    let (peak, maxreq) = alloc::snapshot();
    let bytes_in = BYTES_IN.load(Relaxed);
    let mut out = match r {
        Ok(o) => o,
        Err(_) => {
            let p = take_panic().unwrap_or_else(|| "? :: panic".into());
            Outcome::fail("panic", format!("panic@{}", panic_sig(&p)), p)
        }
    };
    if out.violation.is_none() {
        if let Some(m) = prop.mem_rule(peak, maxreq, bytes_in) {
            out.violation = Some(Violation { sig: "memory".into(), detail: m });
        }
    }
    out
}

// ------------------------------------------------------------------ journal (mmap)

pub struct Journal {
    ptr: *mut u64,
}

impl Journal {
    pub fn open(path: &Path) -> Journal {
        use std::os::unix::io::AsRawFd;
        let f = std::fs::OpenOptions::new().read(true).write(true).create(true).truncate(false).open(path).expect("journal");
        f.set_len(64).unwrap();
        let p = unsafe { libc::mmap(std::ptr::null_mut(), 64, libc::PROT_READ | libc::PROT_WRITE, libc::MAP_SHARED, f.as_raw_fd(), 0) };
        assert!(p != libc::MAP_FAILED);
        Journal { ptr: p as *mut u64 }
    }
    /// slot 0: current case index + 1 (0 = none); slot 1: cases finished; slot 2: huge allocation size; slot 3: done flag
    pub fn set(&self, slot: usize, v: u64) {
        unsafe { std::ptr::write_volatile(self.ptr.add(slot), v) }
    }
    pub fn get(&self, slot: usize) -> u64 {
        unsafe { std::ptr::read_volatile(self.ptr.add(slot)) }
    }
    pub fn slot_ptr(&self, slot: usize) -> *mut u64 {
        unsafe { self.ptr.add(slot) }
    }
}

// ------------------------------------------------------------------ worker

#[derive(Default)]
struct Stats {
    evals: u64,
    nontrivial: u64,
    classes: BTreeMap<String, u64>,
    notes: BTreeMap<String, u64>,
    samples: Vec<Value>,
    viols: BTreeMap<String, (u64, u64, String)>, // sig -> (first idx, count, detail)
}

impl Stats {
    fn to_json(&self, incarnation: u64) -> Value {
        json!({
            "t": "stats", "inc": incarnation, "evals": self.evals, "nontrivial": self.nontrivial,
            "classes": self.classes, "notes": self.notes, "samples": self.samples,
            "viols": self.viols.iter().map(|(k, v)| json!({"sig": k, "idx": v.0, "count": v.1, "detail": v.2})).collect::<Vec<_>>(),
        })
    }
}

/// run `f` with fd 1 pointing at /dev/null (rdp-rs prints diagnostics on stdout), then restore it
pub fn with_silenced_stdout<T>(f: impl FnOnce() -> T) -> T {
    use std::io::Write;
    // restores the descriptor also when `f` unwinds
    struct Restore(i32);
    impl Drop for Restore {
        fn drop(&mut self) {
            let _ = std::io::stdout().flush();
            unsafe {
                libc::dup2(self.0, 1);
                libc::close(self.0);
            }
        }
    }
    let _ = std::io::stdout().flush();
    let _guard = Restore(unsafe { libc::dup(1) });
    silence_stdout();
    f()
}

pub fn silence_stdout() {
    unsafe {
        let fd = libc::open(b"/dev/null\0".as_ptr() as *const libc::c_char, libc::O_WRONLY);
        if fd >= 0 {
            libc::dup2(fd, 1);
            libc::close(fd);
        }
    }
}

/// entry point of a worker subprocess
pub fn worker_main(mut prop: Box<dyn Prop>, tier: Tier, w: u64, nw: u64, dir: &Path, from: u64, incarnation: u64) -> i32 {
    silence_stdout();
    install_panic_hook();
    let journal = Journal::open(&dir.join(format!("journal.{}", w)));
    alloc::HUGE_SLOT.store(journal.slot_ptr(2), Relaxed);
    prop.set_shard(w, nw);
    if let Err(e) = prop.prepare(tier) {
        eprintln!("worker {}: prepare failed: {}", w, e);
        return 2;
    }
    let n = prop.n_cases();
    let mut stats = Stats::default();
    let res_path = dir.join(format!("result.{}.jsonl", w));
    let mut res = std::fs::OpenOptions::new().create(true).append(true).open(&res_path).expect("result file");
    let mut last_flush = Instant::now();
    let mut idx = from;
    // align to this worker's residue class
    while idx % nw != w {
        idx += 1;
    }
    while idx < n {
        journal.set(0, idx + 1);
        let out = guarded(prop.as_mut(), idx);
        stats.evals += 1;
        if out.nontrivial {
            stats.nontrivial += 1;
        }
        *stats.classes.entry(out.class.clone()).or_insert(0) += 1;
        if let Some(nn) = &out.note {
            *stats.notes.entry(nn.clone()).or_insert(0) += 1;
        }
        if stats.samples.len() < 2 && (out.nontrivial || stats.evals > 100) {
            stats.samples.push(prop.describe(idx));
        }
        if let Some(v) = out.violation {
            let e = stats.viols.entry(v.sig.clone()).or_insert((idx, 0, v.detail.clone()));
            e.1 += 1;
        }
        journal.set(1, journal.get(1) + 1);
        if last_flush.elapsed() > Duration::from_millis(1500) {
            let _ = writeln!(res, "{}", stats.to_json(incarnation));
            last_flush = Instant::now();
        }
        idx += nw;
    }
    journal.set(0, 0);
    let _ = writeln!(res, "{}", stats.to_json(incarnation));
    journal.set(3, 1);
    0
}

// ------------------------------------------------------------------ parent

pub struct RunResult {
    pub evals: u64,
    pub nontrivial: u64,
    pub classes: BTreeMap<String, u64>,
    pub notes: BTreeMap<String, u64>,
    pub samples: Vec<Value>,
    /// sig -> (first idx, count, detail)
    pub viols: BTreeMap<String, (u64, u64, String)>,
    pub n_cases: u64,
    pub wall_s: f64,
    pub crashes: u64,
    /// the sweep was cut short because too many cases crashed the worker (the crashes are violations)
    pub aborted_early: bool,
    /// number of worker processes (case idx was executed by worker idx % workers, after all smaller indices of that class)
    pub workers: u64,
}

struct Slot {
    child: Child,
    incarnation: u64,
    last_idx: u64,
    last_change: Instant,
}

fn spawn(exe: &Path, id: &str, tier: Tier, w: usize, nw: usize, dir: &Path, from: u64, inc: u64) -> Child {
    Command::new(exe)
        .arg("--worker")
        .arg(id)
        .arg(tier.name())
        .arg(w.to_string())
        .arg(nw.to_string())
        .arg(dir)
        .arg(from.to_string())
        .arg(inc.to_string())
        .stdin(Stdio::null())
        .stdout(Stdio::null())
        .spawn()
        .expect("spawn worker")
}

pub fn work_dir(id: &str) -> PathBuf {
    let d = PathBuf::from(format!("{}/.work/{}-{}", crate::root(), id, std::process::id()));
    let _ = std::fs::remove_dir_all(&d);
    std::fs::create_dir_all(&d).expect("work dir");
    d
}

/// prefix of the error returned by `run_parent` when building the enumeration panicked
pub const BASELINE_PANIC: &str = "panic while running the honest baseline: ";

/// run the whole sweep; returns merged results. Machinery failures are returned as Err.
pub fn run_parent(prop: &mut dyn Prop, tier: Tier) -> Result<RunResult, String> {
    let t0 = Instant::now();
    prop.set_parent_mode();
    install_panic_hook();
    let _ = take_panic();
    match std::panic::catch_unwind(std::panic::AssertUnwindSafe(|| with_silenced_stdout(|| prop.prepare(tier)))) {
        Ok(r) => r?,
        Err(_) => {
            // the enumeration is built from honest baseline conversations / calls: a panic of the code under test
            // there is already a verdict (the parent turns it into a violation), anything else is machinery
            let p = take_panic().unwrap_or_else(|| "? :: panic".into());
            return Err(format!("{}{}", BASELINE_PANIC, p));
        }
    }
    let n = prop.n_cases();
    let id = prop.id();
    let nw = prop.workers().min(n.max(1) as usize).max(1);
    let dir = work_dir(id);
    let exe = std::env::current_exe().map_err(|e| e.to_string())?;
    let timeout = Duration::from_secs(prop.case_timeout(tier));
    let mut slots: Vec<Option<Slot>> = vec![];
    let mut journals = vec![];
    for w in 0..nw {
        let j = Journal::open(&dir.join(format!("journal.{}", w)));
        for s in 0..4 {
            j.set(s, 0);
        }
        journals.push(j);
        slots.push(Some(Slot { child: spawn(&exe, id, tier, w, nw, &dir, 0, 0), incarnation: 0, last_idx: u64::MAX, last_change: Instant::now() }));
    }
    let mut crash_viols: Vec<(u64, String, String)> = vec![];
    let mut crashes = 0u64;
    let mut aborted_early = false;
    loop {
        if aborted_early {
            for s in slots.iter_mut() {
                if let Some(sl) = s.as_mut() {
                    let _ = sl.child.kill();
                    let _ = sl.child.wait();
                }
                *s = None;
            }
            break;
        }
        let mut alive = 0;
        for w in 0..nw {
            let mut respawn: Option<(u64, u64)> = None;
            if let Some(s) = slots[w].as_mut() {
                let cur = journals[w].get(0);
                if cur != s.last_idx {
                    s.last_idx = cur;
                    s.last_change = Instant::now();
                }
                match s.child.try_wait() {
                    Ok(Some(status)) => {
                        let done = journals[w].get(3) == 1;
                        if done && status.success() {
                            slots[w] = None;
                            continue;
                        }
                        // abnormal exit
                        let cur = journals[w].get(0);
                        if cur == 0 {
                            return Err(format!("worker {} exited with {:?} outside any case (machinery)", w, status));
                        }
                        let idx = cur - 1;
                        crashes += 1;
                        use std::os::unix::process::ExitStatusExt;
                        let (sig, detail) = if status.code() == Some(alloc::EXIT_HUGE) {
                            ("huge-allocation".to_string(), format!("single allocation request of {} bytes", journals[w].get(2)))
                        } else if let Some(sn) = status.signal() {
                            (format!("killed-by-signal-{}", sn), format!("worker died with signal {} while executing the case", sn))
                        } else {
                            (format!("exit-{}", status.code().unwrap_or(-1)), "worker exited while executing the case".to_string())
                        };
                        crash_viols.push((idx, sig, detail));
                        respawn = Some((idx + nw as u64, s.incarnation + 1));
                    }
                    Ok(None) => {
                        alive += 1;
                        if cur != 0 && s.last_change.elapsed() > timeout {
                            let idx = cur - 1;
                            let _ = s.child.kill();
                            let _ = s.child.wait();
                            crashes += 1;
                            crash_viols.push((idx, "hang".to_string(), format!("case did not finish within {} s", timeout.as_secs())));
                            respawn = Some((idx + nw as u64, s.incarnation + 1));
                        }
                    }
                    Err(e) => return Err(format!("wait: {}", e)),
                }
            }
            if let Some((from, inc)) = respawn {
                if crashes > 200 {
                    aborted_early = true;
                    break;
                }
                journals[w].set(0, 0);
                journals[w].set(3, 0);
                slots[w] = Some(Slot { child: spawn(&exe, id, tier, w, nw, &dir, from, inc), incarnation: inc, last_idx: u64::MAX, last_change: Instant::now() });
                alive += 1;
            }
        }
        if alive == 0 && slots.iter().all(|s| s.is_none()) {
            break;
        }
        std::thread::sleep(Duration::from_millis(50));
    }
    let finished: u64 = journals.iter().map(|j| j.get(1)).sum();
    // merge
    let mut rr = RunResult {
        evals: 0,
        nontrivial: 0,
        classes: BTreeMap::new(),
        notes: BTreeMap::new(),
        samples: vec![],
        viols: BTreeMap::new(),
        n_cases: n,
        wall_s: 0.0,
        crashes,
        aborted_early,
        workers: nw as u64,
    };
    for w in 0..nw {
        let p = dir.join(format!("result.{}.jsonl", w));
        let text = std::fs::read_to_string(&p).unwrap_or_default();
        let mut last_per_inc: BTreeMap<u64, Value> = BTreeMap::new();
        for line in text.lines() {
            if let Ok(v) = serde_json::from_str::<Value>(line) {
                if v["t"] == "stats" {
                    last_per_inc.insert(v["inc"].as_u64().unwrap_or(0), v);
                }
            }
        }
        for (_inc, v) in last_per_inc {
            rr.evals += v["evals"].as_u64().unwrap_or(0);
            rr.nontrivial += v["nontrivial"].as_u64().unwrap_or(0);
            if let Some(m) = v["classes"].as_object() {
                for (k, c) in m {
                    *rr.classes.entry(k.clone()).or_insert(0) += c.as_u64().unwrap_or(0);
                }
            }
            if let Some(m) = v["notes"].as_object() {
                for (k, c) in m {
                    *rr.notes.entry(k.clone()).or_insert(0) += c.as_u64().unwrap_or(0);
                }
            }
            if let Some(a) = v["samples"].as_array() {
                for s in a {
                    if rr.samples.len() < 6 {
                        rr.samples.push(s.clone());
                    }
                }
            }
            if let Some(a) = v["viols"].as_array() {
                for x in a {
                    let sig = x["sig"].as_str().unwrap_or("?").to_string();
                    let idx = x["idx"].as_u64().unwrap_or(0);
                    let cnt = x["count"].as_u64().unwrap_or(1);
                    let det = x["detail"].as_str().unwrap_or("").to_string();
                    let e = rr.viols.entry(sig).or_insert((idx, 0, det.clone()));
                    if idx < e.0 {
                        e.0 = idx;
                        e.2 = det;
                    }
                    e.1 += cnt;
                }
            }
        }
    }
    // exact count of executed cases comes from the journals (stats lines may lag behind a crash)
    rr.evals = finished + crash_viols.len() as u64;
    for (idx, sig, det) in crash_viols {
        let e = rr.viols.entry(sig).or_insert((idx, 0, det.clone()));
        if idx < e.0 {
            e.0 = idx;
            e.2 = det;
        }
        e.1 += 1;
    }
    let _ = std::fs::remove_dir_all(&dir);
    rr.wall_s = t0.elapsed().as_secs_f64();
    // crashed cases are executed but their stats line may predate them; evaluations must cover the space
    if rr.evals != n && !aborted_early {
        return Err(format!("{} of {} cases were accounted for (machinery)", rr.evals, n));
    }
    Ok(rr)
}

/// run a child to completion with a deadline; None = killed after the deadline (a hang)
fn output_with_deadline(mut cmd: Command, secs: u64) -> Result<Option<std::process::Output>, String> {
    use std::io::Read as _;
    let mut child = cmd.stdin(Stdio::null()).stderr(Stdio::piped()).stdout(Stdio::null()).spawn().map_err(|e| e.to_string())?;
    let mut err_pipe = child.stderr.take();
    // drain stderr on a thread so that a chatty child cannot block on a full pipe
    let reader = std::thread::spawn(move || {
        let mut s = Vec::new();
        if let Some(p) = err_pipe.as_mut() {
            let _ = p.read_to_end(&mut s);
        }
        s
    });
    let t0 = Instant::now();
    loop {
        match child.try_wait() {
            Ok(Some(status)) => {
                let stderr = reader.join().unwrap_or_default();
                return Ok(Some(std::process::Output { status, stdout: vec![], stderr }));
            }
            Ok(None) => {
                if t0.elapsed() > Duration::from_secs(secs) {
                    let _ = child.kill();
                    let _ = child.wait();
                    let _ = reader.join();
                    return Ok(None);
                }
                std::thread::sleep(Duration::from_millis(20));
            }
            Err(e) => return Err(e.to_string()),
        }
    }
}

/// seconds a replay subprocess may take before it is declared hung
pub const REPLAY_DEADLINE_S: u64 = 60;

/// re-run one case in a fresh subprocess and return its violation signature (or "" if none, "crash:..." if it died)
pub fn replay_in_subprocess(id: &str, tier: Tier, idx: u64) -> Result<(String, Option<Value>), String> {
    let exe = std::env::current_exe().map_err(|e| e.to_string())?;
    let mut cmd = Command::new(exe);
    cmd.arg("--one").arg(id).arg(tier.name()).arg(idx.to_string());
    let out = match output_with_deadline(cmd, REPLAY_DEADLINE_S)? {
        Some(o) => o,
        None => return Ok(("crash:hang".to_string(), None)),
    };
    let err = String::from_utf8_lossy(&out.stderr).to_string();
    let mut desc = None;
    for l in err.lines() {
        if let Some(d) = l.strip_prefix("ONE-DESC: ") {
            desc = serde_json::from_str(d).ok();
        }
        if let Some(s) = l.strip_prefix("ONE-SIG: ") {
            return Ok((s.to_string(), desc));
        }
    }
    Ok((format!("crash:{:?}", out.status), desc))
}

/// run the cases `idxs` one after the other in ONE fresh subprocess (a history) and return the signature of the last
pub fn replay_seq_in_subprocess(id: &str, tier: Tier, idxs: &[u64]) -> Result<String, String> {
    let exe = std::env::current_exe().map_err(|e| e.to_string())?;
    let list: Vec<String> = idxs.iter().map(|i| i.to_string()).collect();
    let joined = list.join(",");
    let mut cmd = Command::new(exe);
    cmd.arg("--seq").arg(id).arg(tier.name());
    let mut tmp: Option<std::path::PathBuf> = None;
    if joined.len() > 60_000 {
        // too long for one argument: hand it over in a file
        let dir = PathBuf::from(format!("{}/.work", crate::root()));
        let _ = std::fs::create_dir_all(&dir);
        let path = dir.join(format!("history-{}-{}-{}.txt", id, std::process::id(), idxs.last().copied().unwrap_or(0)));
        std::fs::write(&path, &joined).map_err(|e| e.to_string())?;
        cmd.arg(format!("@{}", path.display()));
        tmp = Some(path);
    } else {
        cmd.arg(joined);
    }
    let out = output_with_deadline(cmd, REPLAY_DEADLINE_S + idxs.len() as u64 / 50);
    if let Some(p) = tmp {
        let _ = std::fs::remove_file(p);
    }
    let out = match out? {
        Some(o) => o,
        None => return Ok("crash:hang".to_string()),
    };
    let err = String::from_utf8_lossy(&out.stderr).to_string();
    for l in err.lines() {
        if let Some(s) = l.strip_prefix("ONE-SIG: ") {
            return Ok(s.to_string());
        }
    }
    Ok(format!("crash:{:?}", out.status))
}

/// A violation that a fresh process does not reproduce may depend on what the same process executed before
/// (state that survives a connection: a cache, a static). Look for a history of earlier cases of the same
/// worker after which the case fails again, smallest first. None: not reproducible at all.
pub fn find_history(id: &str, tier: Tier, idx: u64, workers: u64, sig: &str) -> Option<Vec<u64>> {
    let t0 = Instant::now();
    let budget = Duration::from_secs(240);
    let preds: Vec<u64> = (0..idx).filter(|j| j % workers == idx % workers).collect();
    if preds.is_empty() {
        return None;
    }
    let ok = |h: &[u64]| -> bool {
        let mut v = h.to_vec();
        v.push(idx);
        replay_seq_in_subprocess(id, tier, &v).map(|s| s == sig).unwrap_or(false)
    };
    // the last k predecessors, k doubling
    let mut k = 1usize;
    let mut found: Option<Vec<u64>> = None;
    loop {
        let kk = k.min(preds.len());
        let h = &preds[preds.len() - kk..];
        if ok(h) {
            found = Some(h.to_vec());
            break;
        }
        if kk == preds.len() || t0.elapsed() > budget {
            break;
        }
        k *= 2;
    }
    let mut h = found?;
    // shrink: one predecessor alone, else halve while it still reproduces
    for (n, p) in h.iter().enumerate() {
        if n >= 64 || t0.elapsed() > budget {
            break;
        }
        if ok(&[*p]) {
            return Some(vec![*p]);
        }
    }
    while h.len() > 1 && t0.elapsed() < budget {
        let half = h.len() / 2;
        if ok(&h[half..]) {
            h = h[half..].to_vec();
        } else if ok(&h[..half]) {
            h = h[..half].to_vec();
        } else {
            break;
        }
    }
    Some(h)
}

/// entry point for `--seq`: run the cases in order in this process, print the signature of the last one
pub fn seq_main(mut prop: Box<dyn Prop>, tier: Tier, idxs: &[u64], verbose: bool) -> i32 {
    if !verbose {
        silence_stdout();
    }
    install_panic_hook();
    if let Err(e) = prop.prepare(tier) {
        eprintln!("prepare failed: {}", e);
        return 2;
    }
    let mut last = None;
    for &idx in idxs {
        if idx >= prop.n_cases() {
            eprintln!("index {} out of range ({} cases)", idx, prop.n_cases());
            return 2;
        }
        if verbose {
            eprintln!("case: {}", prop.describe(idx));
        }
        let out = guarded(prop.as_mut(), idx);
        if verbose {
            eprintln!("  class: {}", out.class);
            if let Some(v) = &out.violation {
                eprintln!("  violation: {} :: {}", v.sig, v.detail);
            }
        }
        last = Some(out);
    }
    let v = last.and_then(|o| o.violation);
    eprintln!("ONE-SIG: {}", v.as_ref().map(|v| v.sig.clone()).unwrap_or_default());
    if v.is_some() {
        1
    } else {
        0
    }
}

/// entry point for `--one`: run a single case in-process and print its signature on stderr
pub fn one_main(mut prop: Box<dyn Prop>, tier: Tier, idx: u64, verbose: bool) -> i32 {
    if !verbose {
        silence_stdout();
    }
    install_panic_hook();
    // materialise only the residue class of this index (the enumeration order does not depend on the shard)
    prop.set_shard(idx % 16, 16);
    if let Err(e) = prop.prepare(tier) {
        eprintln!("prepare failed: {}", e);
        return 2;
    }
    if idx >= prop.n_cases() {
        eprintln!("index {} out of range ({} cases)", idx, prop.n_cases());
        return 2;
    }
    if verbose {
        eprintln!("case: {}", prop.describe(idx));
    }
    eprintln!("ONE-DESC: {}", prop.describe(idx));
    let out = guarded(prop.as_mut(), idx);
    if verbose {
        eprintln!("class: {}", out.class);
        if let Some(n) = &out.note {
            eprintln!("note: {}", n);
        }
        if let Some(v) = &out.violation {
            eprintln!("violation: {} :: {}", v.sig, v.detail);
        }
    }
    eprintln!("ONE-SIG: {}", out.violation.as_ref().map(|v| v.sig.clone()).unwrap_or_default());
    if out.violation.is_some() {
        1
    } else {
        0
    }
}
