//! vcheck library: engines shared by the `vcheck` and `vgui` binaries (see /verif/DESIGN.md).

/// root of the verification tree (the directory holding `check`, `fixtures`, `evidence`, ...): VERIF_ROOT or /verif
pub fn root() -> String {
    std::env::var("VERIF_ROOT").unwrap_or_else(|_| "/verif".to_string())
}

pub mod alloc;
pub mod faults;
pub mod fixture;
pub mod fsm;
pub mod memlink;
pub mod peer;
pub mod props;
pub mod report;
pub mod runner;
pub mod tls;
pub mod wire;

use runner::Tier;
use std::path::PathBuf;

pub fn selftest() -> Result<(), String> {
    vref::crypto::self_test()?;
    vref::ntlm::self_test()?;
    vref::rle::self_test()?;
    Ok(())
}

/// Command line shared by both binaries. `lookup` resolves sweep properties, `special` handles
/// properties with their own engine (returns the exit code).
pub fn cli_main(lookup: &dyn Fn(&str) -> Option<Box<dyn runner::Prop>>, special: &dyn Fn(&str, Tier) -> Option<i32>, replay_special: &dyn Fn(&serde_json::Value, &str) -> Option<i32>) {
    // trust / cost seam (DESIGN §2.3): a one-file trust store. OpenSSL reads these variables when it is
    // initialised, so they must be in the environment of the process from the start: re-exec once if needed.
    let trust = format!("{}/fixtures/trust.pem", root());
    if std::env::var("SSL_CERT_FILE").ok().as_deref() != Some(trust.as_str()) {
        let exe = std::env::current_exe().expect("current_exe");
        let status = std::process::Command::new(exe)
            .args(std::env::args().skip(1))
            .env("SSL_CERT_FILE", &trust)
            .env("SSL_CERT_DIR", format!("{}/fixtures/empty", root()))
            .status()
            .expect("re-exec");
        std::process::exit(status.code().unwrap_or(2));
    }
    let args: Vec<String> = std::env::args().collect();
    if args.len() < 2 {
        eprintln!("usage: vcheck <ID> quick|thorough | replay <file> | selftest");
        std::process::exit(2);
    }
    match args[1].as_str() {
        "--worker" => {
            let id = &args[2];
            let tier = Tier::parse(&args[3]).unwrap();
            let w: u64 = args[4].parse().unwrap();
            let nw: u64 = args[5].parse().unwrap();
            let dir = PathBuf::from(&args[6]);
            let from: u64 = args[7].parse().unwrap();
            let inc: u64 = args[8].parse().unwrap();
            let prop = lookup(id).expect("unknown property");
            std::process::exit(runner::worker_main(prop, tier, w, nw, &dir, from, inc));
        }
        "--one" => {
            let id = &args[2];
            let tier = Tier::parse(&args[3]).unwrap();
            let idx: u64 = args[4].parse().unwrap();
            let prop = lookup(id).expect("unknown property");
            std::process::exit(runner::one_main(prop, tier, idx, false));
        }
        "--seq" => {
            let id = &args[2];
            let tier = Tier::parse(&args[3]).unwrap();
            // a long history comes in a file (@path): one argument cannot hold more than 128 KiB
            let list = match args[4].strip_prefix('@') {
                Some(path) => std::fs::read_to_string(path).expect("history file"),
                None => args[4].clone(),
            };
            let idxs: Vec<u64> = list.split(',').filter(|s| !s.trim().is_empty()).map(|s| s.trim().parse().unwrap()).collect();
            let prop = lookup(id).expect("unknown property");
            std::process::exit(runner::seq_main(prop, tier, &idxs, false));
        }
        "selftest" => match selftest() {
            Ok(()) => println!("selftest ok"),
            Err(e) => {
                println!("SELFTEST FAILED: {}", e);
                std::process::exit(2);
            }
        },
        "replay" => {
            let text = std::fs::read_to_string(&args[2]).expect("replay file");
            let v: serde_json::Value = serde_json::from_str(&text).expect("replay json");
            let id = v["property"].as_str().unwrap().to_string();
            let tier = Tier::parse(v["tier"].as_str().unwrap()).unwrap();
            if let Some(code) = replay_special(&v, &args[2]) {
                std::process::exit(code);
            }
            if let Some(prop) = lookup(&id) {
                let idx = v["idx"].as_u64().unwrap();
                let code = match v["history"].as_array() {
                    Some(h) => {
                        let mut idxs: Vec<u64> = h.iter().filter_map(|x| x.as_u64()).collect();
                        idxs.push(idx);
                        runner::seq_main(prop, tier, &idxs, true)
                    }
                    None => runner::one_main(prop, tier, idx, true),
                };
                if code == 1 {
                    println!("VIOLATION property={} replay={}", id, args[2]);
                } else if code == 0 {
                    println!("replay: no violation reproduced");
                }
                std::process::exit(code);
            }
            eprintln!("replay: unknown property {}", id);
            std::process::exit(2);
        }
        id => {
            let tier = match args.get(2).and_then(|s| Tier::parse(s)).or_else(|| std::env::var("VERIF_TIER").ok().and_then(|s| Tier::parse(&s))) {
                Some(t) => t,
                None => {
                    eprintln!("tier must be quick or thorough");
                    std::process::exit(2);
                }
            };
            if let Err(e) = selftest() {
                println!("SELFTEST FAILED: {}", e);
                std::process::exit(2);
            }
            if let Some(code) = special(id, tier) {
                std::process::exit(code);
            }
            if let Some(mut prop) = lookup(id) {
                match runner::run_parent(prop.as_mut(), tier) {
                    Ok(rr) => std::process::exit(report::finish_sweep(prop.as_mut(), tier, &rr)),
                    Err(e) => {
                        std::process::exit(report::baseline_failure(id, tier, &e));
                    }
                }
            }
            eprintln!("unknown property {}", id);
            std::process::exit(2);
        }
    }
}


/// replay of a C12 history recorded in a replay file
pub fn c12_replay(v: &serde_json::Value, path: &str) -> Option<i32> {
    let h = v["history_codes"].as_array()?;
    runner::install_panic_hook();
    let h: Vec<usize> = h.iter().map(|x| x.as_u64().unwrap() as usize).collect();
    Some(match fsm::run_history_codes(&h) {
        Ok(keys) => {
            println!("replay: history holds; keys {:?}", keys);
            0
        }
        Err((sig, d)) => {
            println!("violation: {} :: {}", sig, d);
            println!("VIOLATION property=C12 replay={}", path);
            1
        }
    })
}
/// C12: explicit-state BFS to fixpoint (stateright + own closure) and all unmerged histories to a depth
pub fn c12_main(tier: Tier) -> i32 {
    use serde_json::json;
    let t0 = std::time::Instant::now();
    runner::install_panic_hook();
    let saved_stdout = unsafe { libc::dup(1) };
    runner::silence_stdout();
    let b = fsm::bfs();
    unsafe {
        libc::dup2(saved_stdout, 1);
        libc::close(saved_stdout);
    }
    let mut prop = fsm::C12Histories::new();
    let rr = match runner::run_parent(&mut prop, tier) {
        Ok(r) => r,
        Err(e) => {
            println!("MACHINERY-ERROR property=C12 {}", e);
            return 2;
        }
    };
    let findings = report::load_findings();
    let mut unlisted = 0;
    let mut known = 0;
    let mut viols = vec![];
    let mut handle = |sig: &str, body: serde_json::Value, detail: &str| {
        let path = report::write_replay("C12", tier, sig, body);
        if let Some(f) = report::match_finding(&findings, "C12", sig) {
            println!("KNOWN-FINDING: property=C12 {} [sig={}]", f.what, sig);
            known += 1;
        } else {
            println!("VIOLATION property=C12 replay={}", path);
            println!("  sig: {}", sig);
            println!("  detail: {}", detail.chars().take(700).collect::<String>());
            unlisted += 1;
        }
        viols.push(json!({"sig": sig, "replay": path}));
    };
    if let Some((h, sig, d)) = &b.violation {
        handle(sig, json!({"history_codes": h, "history": h.iter().map(|e| fsm::event_name(*e as usize)).collect::<Vec<_>>(), "detail": d, "found_by": "bfs"}), d);
    }
    {
        use runner::Prop;
        for (sig, (idx, count, detail)) in &rr.viols {
            if b.violation.as_ref().map(|v| &v.1) == Some(sig) {
                continue;
            }
            let desc = prop.describe(*idx);
            let codes: Vec<usize> = desc["history"].as_array().map(|a| a.iter().map(|n| n.as_str().and_then(fsm::event_code).unwrap_or(0)).collect()).unwrap_or_default();
            handle(sig, json!({"idx": idx, "history_codes": codes, "history": desc["history"], "detail": detail, "occurrences": count, "found_by": "unmerged histories"}), detail);
        }
    }
    // differential check of the canonicalisation: every key reached by an unmerged history is a BFS state
    let bfs_keys: std::collections::BTreeSet<String> = b.states.iter().map(|k| format!("key:{}:{}", k.impl_state, k.share.map(|s| format!("{:#x}", s)).unwrap_or_else(|| "none".into()))).collect();
    let mut machinery = None;
    for c in rr.classes.keys() {
        if c.starts_with("key:") && !bfs_keys.contains(c) {
            machinery = Some(format!("key {} reached by an unmerged history is not in the BFS fixpoint {:?}", c, bfs_keys));
        }
    }
    let accepting = b.states.iter().filter(|k| k.impl_state == 5).count();
    let refusing = b.states.len() - accepting;
    if (accepting == 0 || refusing == 0) && b.violation.is_none() {
        machinery = Some("vacuous exploration: input window never opens or never closes".into());
    }
    let n_ev = fsm::n_bfs_events();
    {
        use runner::Prop;
        report::write_evidence(&report::Evidence {
            property: "C12".into(),
            tier,
            level: "model_checking".into(),
            coverage: json!({
                "states": b.states.len(),
                "transitions": b.transitions,
                "traces_validated_against_impl": b.replays + rr.evals,
                "samples": rr.samples,
                "state_keys": b.states.iter().map(|k| format!("{:?}", k)).collect::<Vec<_>>(),
                "bfs_max_depth": b.max_depth,
                "alphabet": fsm::EVENTS,
                "unmerged_histories": rr.evals,
                "unmerged_depth": if tier == Tier::Quick { 5 } else { 6 },
                "unmerged_blocks": fsm::C12Histories::blocks_for(tier).iter().map(|(p, d)| json!({"prefix": p.iter().map(|e| fsm::EVENTS[*e as usize]).collect::<Vec<_>>(), "suffix_depth": d})).collect::<Vec<_>>(),
                "histories_in_which_input_window_opened": rr.nontrivial,
                "states_accepting_input": accepting,
                "states_refusing_input": refusing,
                "evaluations": rr.evals + b.transitions,
                "distinct_nontrivial": rr.nontrivial,
                "rule": prop.rule(),
                "exhaustive": true,
                "explanation": format!("BFS to fixpoint over canonical keys (real global::Client state id x share id) with {} events per state (the 12 letters, a Set Error Info with a non-zero code, a deactivate-all naming another share id, a font list sent by the server, a font map with mapFlags 0, a share-control PDU of a type the client does not implement, a demand-active with an empty capability list (alone in its frame only), and every ordered pair of the 15 other slow-path letters packed into one frame; in a packed frame everything in front of the unimplemented PDU counts, what follows it may be lost), every transition executed by replaying the history on a fresh real client; plus every history of length <= depth without merging, whose final keys must all lie in the BFS fixpoint", n_ev),
                "violations_detail": viols,
                "known_findings_matched": known,
            }),
            assumptions: vec![
                "server PDUs are well formed (malformed ones are C06); one representative encoding per alphabet letter".into(),
                "a deactivate-all received during activation may either be ignored or restart activation (the statement is silent)".into(),
                "canonical state = (automaton state id, share id) read through hook H2; soundness of the merge is checked by the unmerged exploration".into(),
            ],
            wall_s: t0.elapsed().as_secs_f64(),
            violations: unlisted,
        });
    }
    println!("C12 {}: bfs-states={} transitions={} unmerged-histories={} violations={} known={} wall={:.1}s", tier.name(), b.states.len(), b.transitions, rr.evals, unlisted, known, t0.elapsed().as_secs_f64());
    if let Some(m) = machinery {
        println!("MACHINERY-ERROR property=C12 {}", m);
        return 2;
    }
    if unlisted > 0 {
        1
    } else {
        0
    }
}
