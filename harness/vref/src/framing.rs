//! Reference TPKT / fast-path framing (T.123 §8, MS-RDPBCGR 2.2.9.1.2) and X.224 class 0 TPDUs.

use crate::bytes::*;

#[derive(Clone, Debug, PartialEq, Eq)]
pub enum Frame {
    /// payload after the 4-byte TPKT header
    Tpkt(Vec<u8>),
    /// fast-path: full first byte, security flags (bits 6-7), payload after the 2- or 3-byte header
    FastPath { first: u8, sec_flags: u8, payload: Vec<u8> },
}

#[derive(Clone, Debug, PartialEq, Eq)]
pub enum Deframe {
    Frame(Frame, usize),
    /// declared length smaller than own header: must be rejected
    Reject,
    /// stream ends inside the frame
    Incomplete,
}

pub fn tpkt(payload: &[u8]) -> Vec<u8> {
    let mut w = W::new();
    w.u8(3).u8(0).u16be((payload.len() + 4) as u16).bytes(payload);
    w.done()
}

/// TPKT with an arbitrary length field (for hostile/edge streams)
pub fn tpkt_raw(len_field: u16, following: &[u8]) -> Vec<u8> {
    let mut w = W::new();
    w.u8(3).u8(0).u16be(len_field).bytes(following);
    w.done()
}

pub fn fastpath(first: u8, payload: &[u8], long_form: bool) -> Vec<u8> {
    let mut w = W::new();
    w.u8(first);
    if long_form {
        let l = payload.len() + 3;
        assert!(l <= 0x7fff);
        w.u8(0x80 | (l >> 8) as u8).u8(l as u8);
    } else {
        let l = payload.len() + 2;
        assert!(l <= 0x7f);
        w.u8(l as u8);
    }
    w.bytes(payload);
    w.done()
}

/// Reference deframer: one frame from the head of `s`.
pub fn deframe(s: &[u8]) -> Deframe {
    if s.is_empty() {
        return Deframe::Incomplete;
    }
    if s[0] == 3 {
        if s.len() < 4 {
            return Deframe::Incomplete;
        }
        let len = u16::from_be_bytes([s[2], s[3]]) as usize;
        if len < 4 {
            return Deframe::Reject;
        }
        if s.len() < len {
            return Deframe::Incomplete;
        }
        Deframe::Frame(Frame::Tpkt(s[4..len].to_vec()), len)
    } else {
        if s.len() < 2 {
            return Deframe::Incomplete;
        }
        let (len, hdr) = if s[1] & 0x80 != 0 {
            if s.len() < 3 {
                return Deframe::Incomplete;
            }
            ((((s[1] & 0x7f) as usize) << 8) | s[2] as usize, 3)
        } else {
            (s[1] as usize, 2)
        };
        if len < hdr {
            return Deframe::Reject;
        }
        if s.len() < len {
            return Deframe::Incomplete;
        }
        Deframe::Frame(
            Frame::FastPath { first: s[0], sec_flags: (s[0] >> 6) & 3, payload: s[hdr..len].to_vec() },
            len,
        )
    }
}

/// MS-RDPBCGR only defines first bytes whose action bits (0-1) are 0 (fast-path) or the TPKT version 3.
pub fn first_byte_defined(b: u8) -> bool {
    b == 3 || b & 3 == 0
}

// ---------------------------------------------------------------- X.224

pub const X224_CR: u8 = 0xE0;
pub const X224_CC: u8 = 0xD0;
pub const X224_DT: u8 = 0xF0;

pub fn x224_dt(payload: &[u8]) -> Vec<u8> {
    let mut v = vec![2, X224_DT, 0x80];
    v.extend_from_slice(payload);
    v
}

#[derive(Clone, Debug, PartialEq, Eq)]
pub struct NegReq {
    pub cookie: Vec<u8>,
    pub neg: Option<(u8, u8, u32)>, // type, flags, protocols
}

/// strict parse of an X.224 Connection Request TPDU (payload of a TPKT)
pub fn parse_x224_cr(p: &[u8]) -> PResult<NegReq> {
    let mut r = R::new(p);
    let li = r.u8()? as usize;
    if li != p.len() - 1 {
        return Err(format!("X.224 CR: LI {} != TPDU size-1 {}", li, p.len() - 1));
    }
    let code = r.u8()?;
    if code != X224_CR {
        return Err(format!("X.224 CR: code {:#x}", code));
    }
    let dst = r.u16be()?;
    let _src = r.u16be()?;
    let class = r.u8()?;
    if dst != 0 || class != 0 {
        return Err(format!("X.224 CR: dst-ref {} class {}", dst, class));
    }
    let rest = r.rest();
    // optional cookie terminated by CR LF, then optional RDP_NEG_REQ (8 bytes)
    let (cookie, neg_bytes) = match find(rest, b"\r\n") {
        Some(i) if rest.len() != 8 => (rest[..i].to_vec(), &rest[i + 2..]),
        _ => (Vec::new(), rest),
    };
    let neg = if neg_bytes.is_empty() {
        None
    } else {
        if neg_bytes.len() != 8 {
            return Err(format!("X.224 CR: negotiation request of {} bytes", neg_bytes.len()));
        }
        let mut n = R::new(neg_bytes);
        let t = n.u8()?;
        let f = n.u8()?;
        let l = n.u16le()?;
        let proto = n.u32le()?;
        if t != 1 {
            return Err(format!("RDP_NEG_REQ type {}", t));
        }
        if l != 8 {
            return Err(format!("RDP_NEG_REQ length {}", l));
        }
        // flags: RESTRICTED_ADMIN_MODE_REQUIRED 0x01, REDIRECTED_AUTHENTICATION_MODE_REQUIRED 0x02,
        // CORRELATION_INFO_PRESENT 0x08 (a 36-byte RDP_NEG_CORRELATION_INFO must then follow, which this parse - the
        // request being the last 8 bytes of the TPDU - never sees); anything else is undefined
        if f & !0x0B != 0 {
            return Err(format!("RDP_NEG_REQ flags {:#04x}: undefined bits", f));
        }
        if f & 0x08 != 0 {
            return Err(format!("RDP_NEG_REQ flags {:#04x}: CORRELATION_INFO_PRESENT is set but no RDP_NEG_CORRELATION_INFO follows the request", f));
        }
        Some((t, f, proto))
    };
    Ok(NegReq { cookie, neg })
}

/// X.224 Connection Confirm with an optional negotiation structure (type, flags, length field, value)
pub fn x224_cc(neg: Option<(u8, u8, u16, u32)>) -> Vec<u8> {
    let mut w = W::new();
    let li = 6 + if neg.is_some() { 8 } else { 0 };
    w.u8(li).u8(X224_CC).u16be(0).u16be(0x1234).u8(0);
    if let Some((t, f, l, v)) = neg {
        w.u8(t).u8(f).u16le(l).u32le(v);
    }
    w.done()
}

/// strict parse of an X.224 data TPDU: returns the user data
pub fn parse_x224_dt(p: &[u8]) -> PResult<&[u8]> {
    if p.len() < 3 {
        return Err("X.224 DT: short".into());
    }
    if p[0] != 2 || p[1] != X224_DT || p[2] != 0x80 {
        return Err(format!("X.224 DT: header {:02x} {:02x} {:02x}", p[0], p[1], p[2]));
    }
    Ok(&p[3..])
}

#[cfg(test)]
mod t {
    use super::*;
    #[test]
    fn roundtrip() {
        let f = tpkt(&[1, 2, 3]);
        assert_eq!(deframe(&f), Deframe::Frame(Frame::Tpkt(vec![1, 2, 3]), 7));
        let f = fastpath(0x80, &[9; 200], true);
        match deframe(&f) {
            Deframe::Frame(Frame::FastPath { sec_flags, payload, .. }, n) => {
                assert_eq!(sec_flags, 2);
                assert_eq!(payload.len(), 200);
                assert_eq!(n, 203);
            }
            _ => panic!(),
        }
        assert_eq!(deframe(&[3, 0, 0, 3]), Deframe::Reject);
        assert_eq!(deframe(&[0, 1]), Deframe::Reject);
        assert_eq!(deframe(&[0, 0x80, 2]), Deframe::Reject);
        assert_eq!(deframe(&[0, 2]), Deframe::Frame(Frame::FastPath { first: 0, sec_flags: 0, payload: vec![] }, 2));
    }
}
