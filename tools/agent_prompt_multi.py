#!/usr/bin/env python3
"""Print the sub-agent prompt asking for THREE independent property-breaking changes (text of the property only)."""
import json, sys, glob
pid = sys.argv[1]
n = sys.argv[2] if len(sys.argv) > 2 else ""
for l in open('/verif/properties.jsonl'):
    p = json.loads(l)
    if p['id'] == pid:
        break
used = []
for d in sorted(glob.glob('/verif/seeded/*')):
    try:
        m = json.load(open(d + '/meta.json'))
    except Exception:
        continue
    if m.get('breaks_property') == pid:
        used.append(m['change'])
wt = f"/tmp/wt-{pid}{n}"
low = pid.lower()
print(f"""You are helping to evaluate a verification tool for the Rust library citronneur/rdp-rs (a pure-Rust RDP client). Your job is to play the role of a developer who introduces subtle, realistic regressions.

Work ONLY inside the git worktree {wt} (a checkout of the library). Do not read or write anything under /verif or /repo, and do not look at other /tmp/wt-* directories. The sandbox has no network; use `cargo ... --offline`. Do not commit anything. NEVER use `git stash` (the stash is shared between all worktrees of the repository and other people are working in sibling worktrees right now).

PROPERTY (this is what must get broken):
  Title: {p['title']}
  Statement: {p['statement']}
  Quantified over: {p['quantifier']['text']}
  Relevant files: {', '.join(p['anchors']['files'])}

TASK: produce THREE INDEPENDENT changes (numbered 1, 2, 3), each of which alone makes the property FALSE. They must differ from each other in the function or file they touch and in the kind of input / sequence that exposes them. For each change k:
1. Start from the clean tree (`git -C {wt} checkout -- src` before starting change k; keep earlier demo files, they are untracked).
2. Make ONE small, realistic source change under {wt}/src (the kind of bug a maintainer could plausibly introduce in a refactor, a "hardening" or an "optimisation": an off-by-one in cursor/offset/length logic, a comparison against the wrong value, a check moved after the action it guards, a state guard loosened, a wrong loop-exit condition, state that now survives from one call to the next, two sites that each look fine alone but disagree) such that:
   - the crate still compiles (`cargo build --offline`; do not touch src/bin),
   - the existing unit tests all still pass: `cd {wt} && cargo test --offline --lib` must report 39 passed,
   - the breakage needs something SPECIFIC to manifest (an unusual value, a particular multi-step sequence, a particular fault, a boundary length, a rarely used configuration) — NOT something every ordinary connection would hit at once. Think about which corner of the "Quantified over" text a test harness would be least likely to enumerate, and put the bug there. Do not modify or delete existing tests. Do not touch code guarded by `#[cfg(rdp_rs_verif)]`. Do not add dependencies.
3. Write a demonstration test file {wt}/tests/demo_{low}_k.rs (k = 1, 2, 3; an integration test using only the crate's public API; it may use the `--cfg rdp_rs_verif` hook functions `rdp::model::rnd::verif::set_pattern`, `x224::Client::verif_new_raw`, `RdpClient::verif_from_parts`, `RdpClient::verif_global`, `global::Client::verif_state_id`/`verif_share_id` if needed — then it must be run with RUSTFLAGS="--cfg rdp_rs_verif" and you must say so). The demonstration must FAIL with change k and PASS on the clean tree. Verify both.
4. Save the change alone: `git -C {wt} diff -- src > /tmp/{pid}{n}-change-k.patch`.
When all three are done: `git -C {wt} checkout -- src` (leave the tree clean, with the three untracked demo files in tests/), and remove the build output (`rm -rf {wt}/target`).

STYLE for this round: refactorings that break an invariant BETWEEN two pieces of code that each look right alone. Ideas: a helper gains a parameter whose default is wrong for exactly one of its callers; a constant that exists in two places is changed in one; units are confused (bytes vs UTF-16 units vs pixels vs bits; inclusive vs exclusive upper bound; 0-based vs 1-based counter; length with vs without the header or the terminator); a cast narrows or sign-extends on one side of an interface only; one field of a structure switches endianness or width on the writing side but not on the reading side (or the reverse); a value is normalised (upper-cased, trimmed, clamped, rounded up to a multiple) in one place and compared with the un-normalised value in another; a builder/encoder and the matching parser/validator drift apart for one rarely used variant; an early-exit optimisation (nothing to do when empty / when equal to the previous value / when already in that state) skips a side effect that a later step relies on. Each change must keep every ordinary session working and show only for specific values, sizes or sequences. Prefer places where the existing unit tests pin bytes of the common case only.

These ideas have ALREADY been used by others for this property — do something different from all of them: {' | '.join(used) if used else '(none)'}

REPORT (your final message), for each k: (a) the diff, (b) the demo path and exact command (with RUSTFLAGS if needed), (c) two or three sentences: why it breaks the property and the specific condition needed, (d) confirmation of the runs (unit tests 39 pass with the change; demo fails with it; demo passes on the clean tree).
""")
