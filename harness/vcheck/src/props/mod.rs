pub mod c08;
pub mod c09;
pub mod c13;
pub mod c14;

use crate::runner::Prop;

pub fn sweep_prop(id: &str) -> Option<Box<dyn Prop>> {
    Some(match id {
        "C08" => Box::new(c08::C08::new()),
        "C09" => Box::new(c09::C09::new()),
        "C13" => Box::new(c13::C13::new()),
        "C14" => Box::new(c14::C14::new()),
        _ => return None,
    })
}
