//! Evidence files, replay files, known findings, verdict lines.

use crate::runner::{Prop, RunResult, Tier};
use serde_json::{json, Value};
use std::collections::BTreeMap;

pub fn known_findings_path() -> String {
    format!("{}/known_findings.json", crate::root())
}

#[derive(Clone, Debug)]
pub struct Finding {
    pub property: String,
    pub sig: String,
    pub prefix: bool,
    pub what: String,
}

pub fn load_findings() -> Vec<Finding> {
    let text = match std::fs::read_to_string(known_findings_path()) {
        Ok(t) => t,
        Err(_) => return vec![],
    };
    let v: Value = match serde_json::from_str(&text) {
        Ok(v) => v,
        Err(e) => {
            eprintln!("known_findings.json does not parse: {}", e);
            std::process::exit(2);
        }
    };
    let mut out = vec![];
    if let Some(a) = v["findings"].as_array() {
        for f in a {
            out.push(Finding {
                property: f["property"].as_str().unwrap_or("").to_string(),
                sig: f["sig"].as_str().unwrap_or("").to_string(),
                prefix: f["prefix"].as_bool().unwrap_or(false),
                what: f["what"].as_str().unwrap_or("").to_string(),
            });
        }
    }
    out
}

pub fn match_finding<'a>(fs: &'a [Finding], property: &str, sig: &str) -> Option<&'a Finding> {
    fs.iter().find(|f| f.property == property && !f.sig.is_empty() && if f.prefix { sig.starts_with(&f.sig) } else { sig == f.sig })
}

fn fnv(s: &str) -> u64 {
    let mut h: u64 = 0xcbf29ce484222325;
    for b in s.bytes() {
        h ^= b as u64;
        h = h.wrapping_mul(0x100000001b3);
    }
    h
}

pub fn write_replay(property: &str, tier: Tier, sig: &str, body: Value) -> String {
    let _ = std::fs::create_dir_all(format!("{}/{}replays", crate::root(), alt()));
    let path = format!("{}/{}replays/{}-{:016x}.json", crate::root(), alt(), property, fnv(sig));
    let mut v = body;
    v["property"] = json!(property);
    v["tier"] = json!(tier.name());
    v["sig"] = json!(sig);
    v["how"] = json!(format!("cd {} && ./check replay {}", crate::root(), path));
    let _ = std::fs::write(&path, serde_json::to_string_pretty(&v).unwrap());
    path
}

/// tooling runs against a scratch copy of the repository (VERIF_REPO) keep their output apart from the real one
fn alt() -> &'static str {
    if std::env::var("VERIF_REPO").is_ok() {
        ".alt/"
    } else {
        ""
    }
}

pub struct Evidence {
    pub property: String,
    pub tier: Tier,
    pub level: String,
    pub coverage: Value,
    pub assumptions: Vec<String>,
    pub wall_s: f64,
    pub violations: i64,
}

pub fn write_evidence(e: &Evidence) {
    let _ = std::fs::create_dir_all(format!("{}/{}evidence", crate::root(), alt()));
    let seed: i64 = std::env::var("VERIF_SEED").ok().and_then(|s| s.parse().ok()).unwrap_or(0);
    let v = json!({
        "property_id": e.property,
        "tier": e.tier.name(),
        "seed": seed,
        "level": e.level,
        "coverage": e.coverage,
        "assumptions": e.assumptions,
        "wall_s": e.wall_s,
        "violations": e.violations,
    });
    let path = format!("{}/{}evidence/{}.json", crate::root(), alt(), e.property);
    std::fs::write(&path, serde_json::to_string_pretty(&v).unwrap()).expect("write evidence");
}

/// Turn a finished sweep into verdict lines, replay files and the evidence file. Returns the exit code.
pub fn finish_sweep(prop: &mut dyn Prop, tier: Tier, rr: &RunResult) -> i32 {
    let id = prop.id().to_string();
    let findings = load_findings();
    let mut unlisted = 0;
    let mut known = 0;
    let mut viol_json = vec![];
    let mut machinery_error = false;
    for (sig, (idx, count, detail)) in &rr.viols {
        // determinism: replay the first occurrence in a fresh process; the signature must reproduce
        let (again, desc) = crate::runner::replay_in_subprocess(&id, tier, *idx).unwrap_or_else(|e| (format!("replay-error:{}", e), None));
        let crash_like = sig.starts_with("killed-by-signal") || sig == "hang" || sig == "huge-allocation" || sig.starts_with("exit-");
        // (a request of >= 512 MiB ends the worker on the spot; the replay process lets it through and the memory rule names it)
        let mut reproduced = &again == sig || (crash_like && again.starts_with("crash:")) || (sig == "huge-allocation" && again == "memory");
        // not reproduced from a fresh process: does it depend on the cases the worker executed before it?
        let mut history: Option<Vec<u64>> = None;
        if !reproduced && !crash_like {
            history = crate::runner::find_history(&id, tier, *idx, rr.workers.max(1), sig);
            reproduced = history.is_some();
        }
        // still not: a fresh process shows ANOTHER violation for the same case (the verdict of the sweep depended on what ran
        // before, the case fails either way): reported under the signature of the sweep, the replay file names both
        let mut other_sig = false;
        if !reproduced && !again.is_empty() && !again.starts_with("crash:") && !again.starts_with("replay-error") && again != "machinery" {
            reproduced = true;
            other_sig = true;
        }
        let mut body = json!({"idx": idx, "case": desc.unwrap_or_else(|| prop.describe(*idx)), "detail": detail, "occurrences": count, "replayed_sig": again});
        if other_sig {
            body["replay_note"] = json!("in a fresh process the case fails with the signature in replayed_sig; the signature of the sweep depended on the cases executed before it in the same worker");
        }
        if let Some(h) = &history {
            body["history"] = json!(h);
            body["history_note"] = json!("the case holds in a fresh process and fails after the listed earlier cases were executed in the same process: state survives from one connection / call to the next");
        }
        let path = write_replay(&id, tier, sig, body);
        viol_json.push(json!({"sig": sig, "first_idx": idx, "count": count, "detail": detail, "replay": path, "reproduced": reproduced}));
        if !reproduced {
            println!("MACHINERY-ERROR property={} case {} gave '{}' then '{}' on replay (nondeterminism); replay={}", id, idx, sig, again, path);
            machinery_error = true;
            continue;
        }
        if let Some(f) = match_finding(&findings, &id, sig) {
            println!("KNOWN-FINDING: property={} {} [{} occurrence(s), first case {}; sig={}]", id, f.what, count, idx, sig);
            known += 1;
        } else {
            println!("VIOLATION property={} replay={}", id, path);
            println!("  sig: {}", sig);
            println!("  detail: {}", detail.chars().take(600).collect::<String>());
            println!("  occurrences: {} (first case index {})", count, idx);
            if let Some(h) = &history {
                println!("  history-dependent: holds in a fresh process, fails after case(s) {:?} ran in the same process", &h[..h.len().min(8)]);
            }
            unlisted += 1;
        }
    }
    let mut coverage = json!({
        "evaluations": rr.evals,
        "distinct_nontrivial": rr.nontrivial,
        "rule": prop.rule(),
        "samples": rr.samples,
        "exhaustive": prop.exhaustive() && !rr.aborted_early,
        "aborted_after_too_many_crashing_cases": rr.aborted_early,
        "cases_in_space": rr.n_cases,
        "distinct_outcome_classes": rr.classes.len(),
        "outcome_classes": top(&rr.classes, 300),
        "notes": top(&rr.notes, 40),
        "violations_detail": viol_json,
        "known_findings_matched": known,
        "worker_crashes": rr.crashes,
        "build_profile": std::env::var("VERIF_PROFILE").unwrap_or_else(|_| "checked (optimised, overflow checks and debug assertions on)".into()),
        "same_sweep_passed_in_wrapping_profile": std::env::var("VERIF_WRAPPING_PASSED").is_ok(),
    });
    if let (Some(c), Some(x)) = (coverage.as_object_mut(), prop.coverage_extra().as_object()) {
        for (k, v) in x {
            c.insert(k.clone(), v.clone());
        }
    }
    write_evidence(&Evidence {
        property: id.clone(),
        tier,
        level: prop.level().to_string(),
        coverage,
        assumptions: prop.assumptions(),
        wall_s: rr.wall_s,
        violations: unlisted as i64,
    });
    println!(
        "{} {}: cases={} nontrivial={} outcome-classes={} violations={} known-findings={} wall={:.1}s",
        id,
        tier.name(),
        rr.evals,
        rr.nontrivial,
        rr.classes.len(),
        unlisted,
        known,
        rr.wall_s
    );
    if unlisted > 0 {
        // every VIOLATION above was reproduced in a fresh process: it stands, whatever else could not be reproduced
        1
    } else if machinery_error {
        2
    } else {
        0
    }
}

/// `run_parent` failed before any case ran. If the code under test (a file of the repository) panicked while the
/// honest baseline was executed, that is a violation of the property at hand (conforming input made the client
/// panic); every other failure is machinery. Returns the exit code.
pub fn baseline_failure(id: &str, tier: Tier, e: &str) -> i32 {
    if let Some(p) = e.strip_prefix(crate::runner::BASELINE_PANIC) {
        let sig = format!("baseline-panic@{}", crate::runner::panic_sig(p));
        let in_repo = !sig.contains("vcheck/src") && !sig.contains("vref/src") && !sig.contains("vgui/src") && (sig.contains("@src/") || sig.contains("/src/"));
        if in_repo {
            let path = write_replay(id, tier, &sig, json!({"baseline": true, "detail": p, "how_to_replay": "the honest baseline of the check itself panics inside the library: run the check"}));
            println!("VIOLATION property={} replay={}", id, path);
            println!("  sig: {}", sig);
            println!("  detail: the honest baseline conversation / call of this check panics inside the library: {}", p);
            write_evidence(&Evidence {
                property: id.to_string(),
                tier,
                level: "exploration".into(),
                coverage: json!({"evaluations": 1, "distinct_nontrivial": 0, "rule": "the honest baseline panicked before the enumeration could be built", "samples": [], "exhaustive": false, "violations_detail": [{"sig": sig, "detail": p}]}),
                assumptions: vec![],
                wall_s: 0.0,
                violations: 1,
            });
            return 1;
        }
    }
    println!("MACHINERY-ERROR property={} {}", id, e);
    2
}

fn top(m: &BTreeMap<String, u64>, n: usize) -> Value {
    let mut v: Vec<(&String, &u64)> = m.iter().collect();
    v.sort_by(|a, b| b.1.cmp(a.1));
    Value::Object(v.into_iter().take(n).map(|(k, c)| (k.clone(), json!(c))).collect())
}
