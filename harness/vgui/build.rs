//! Derive two modules from the CURRENT /repo/src/bin/mstsc-rs.rs (see DESIGN §2.6):
//!  * mstsc_plain.rs   — the file verbatim + a child module exporting the private functions
//!  * mstsc_shuttle.rs — the same with exactly six import lines rewritten to shuttle / the fake descriptor
//! If an anchor line is missing the build fails: the check then exits 2 (machinery), it never guesses.
use std::fs;
use std::path::Path;

fn main() {
    let src_path = "/repo/src/bin/mstsc-rs.rs";
    println!("cargo:rerun-if-changed={}", src_path);
    let src = fs::read_to_string(src_path).expect("read mstsc-rs.rs");
    let out = std::env::var("OUT_DIR").unwrap();
    let export_plain = r#"

pub mod verif_export {
    use super::*;
    pub fn blit(buffer: &mut Vec<u32>, width: usize, bitmap: BitmapEvent) -> RdpResult<()> {
        super::fast_bitmap_transfer(buffer, width, bitmap)
    }
}
"#;
    fs::write(Path::new(&out).join("mstsc_plain.rs"), format!("{}{}", src, export_plain)).unwrap();

    let anchors = [
        ("use std::thread;", "use shuttle::thread;"),
        ("use std::sync::{mpsc, Arc, Mutex};", "use shuttle::sync::{mpsc, Arc, Mutex};"),
        ("use std::thread::{JoinHandle};", "use shuttle::thread::{JoinHandle};"),
        ("use std::sync::atomic::{AtomicBool, Ordering};", "use shuttle::sync::atomic::{AtomicBool, Ordering};"),
        ("use std::sync::mpsc::{Receiver, Sender};", "use shuttle::sync::mpsc::{Receiver, Sender};"),
        ("use libc::{select, fd_set, FD_SET};", "use crate::fake_fd::{select, fd_set, FD_SET};"),
    ];
    let mut s = src.clone();
    for (from, to) in anchors.iter() {
        let n = s.matches(from).count();
        if n != 1 {
            panic!("VERIF-ANCHOR: expected exactly one occurrence of `{}` in mstsc-rs.rs, found {}", from, n);
        }
        s = s.replace(from, to);
    }
    let export_shuttle = r#"

pub mod verif_export {
    use super::*;
    pub fn launch<S: 'static + Read + Write + Send>(handle: usize, rdp_client: Arc<Mutex<RdpClient<S>>>, sync: Arc<AtomicBool>, bitmap_channel: Sender<BitmapEvent>) -> RdpResult<JoinHandle<()>> {
        super::launch_rdp_thread(handle, rdp_client, sync, bitmap_channel)
    }
    pub fn wait(fd: usize) -> bool {
        super::wait_for_fd(fd)
    }
}
"#;
    fs::write(Path::new(&out).join("mstsc_shuttle.rs"), format!("{}{}", s, export_shuttle)).unwrap();
}
