//! Reference fast-path output builder and parser (MS-RDPBCGR 2.2.9.1.2, 2.2.9.1.1.3.1.2).
//! Scope of the parser = what the client negotiates: unfragmented, uncompressed updates.

use crate::bytes::*;

pub const UPD_ORDERS: u8 = 0x0;
pub const UPD_BITMAP: u8 = 0x1;
pub const UPD_PALETTE: u8 = 0x2;
pub const UPD_SYNCHRONIZE: u8 = 0x3;
pub const UPD_SURFCMDS: u8 = 0x4;
pub const UPD_PTR_NULL: u8 = 0x5;
pub const UPD_PTR_DEFAULT: u8 = 0x6;
pub const UPD_PTR_POSITION: u8 = 0x8;
pub const UPD_COLOR: u8 = 0x9;
pub const UPD_CACHED: u8 = 0xA;
pub const UPD_POINTER: u8 = 0xB;

pub const BITMAP_COMPRESSION: u16 = 0x0001;
pub const NO_BITMAP_COMPRESSION_HDR: u16 = 0x0400;

#[derive(Clone, Debug, PartialEq, Eq, Hash, serde::Serialize, serde::Deserialize)]
pub struct Rect {
    pub left: u16,
    pub top: u16,
    pub right: u16,
    pub bottom: u16,
    pub width: u16,
    pub height: u16,
    pub bpp: u16,
    pub flags: u16,
    pub data: Vec<u8>,
}

impl Rect {
    pub fn has_hdr(&self) -> bool {
        self.flags & BITMAP_COMPRESSION != 0 && self.flags & NO_BITMAP_COMPRESSION_HDR == 0
    }
    pub fn bytes(&self) -> Vec<u8> {
        let mut w = W::new();
        w.u16le(self.left).u16le(self.top).u16le(self.right).u16le(self.bottom);
        w.u16le(self.width).u16le(self.height).u16le(self.bpp).u16le(self.flags);
        if self.has_hdr() {
            w.u16le((self.data.len() + 8) as u16);
            // TS_CD_HEADER: cbCompFirstRowSize(0) cbCompMainBodySize cbScanWidth cbUncompressedSize
            let scan = ((self.width as u32 * self.bpp as u32 / 8 + 3) & !3) as u16;
            w.u16le(0).u16le(self.data.len() as u16).u16le(scan).u16le(scan.wrapping_mul(self.height));
        } else {
            w.u16le(self.data.len() as u16);
        }
        w.bytes(&self.data);
        w.done()
    }
}

#[derive(Clone, Debug, PartialEq, Eq, Hash, serde::Serialize, serde::Deserialize)]
pub enum Update {
    Bitmap(Vec<Rect>),
    /// any other update code with an opaque body
    Other { code: u8, body: Vec<u8> },
}

impl Update {
    pub fn bytes(&self) -> Vec<u8> {
        let (code, body) = match self {
            Update::Bitmap(rects) => {
                let mut w = W::new();
                w.u16le(1).u16le(rects.len() as u16);
                for r in rects {
                    w.bytes(&r.bytes());
                }
                (UPD_BITMAP, w.done())
            }
            Update::Other { code, body } => (*code, body.clone()),
        };
        let mut w = W::new();
        w.u8(code & 0x0f).u16le(body.len() as u16).bytes(&body);
        w.done()
    }
}

/// payload of one fast-path output PDU (after the fpOutputHeader/length bytes)
pub fn updates_payload(updates: &[Update]) -> Vec<u8> {
    updates.iter().flat_map(|u| u.bytes()).collect()
}

/// a plausible body for each non-bitmap update kind
pub fn other_update(code: u8) -> Update {
    let body = match code {
        UPD_SYNCHRONIZE | UPD_PTR_NULL | UPD_PTR_DEFAULT => vec![],
        UPD_PTR_POSITION => vec![10, 0, 20, 0],
        UPD_COLOR => {
            // TS_COLORPOINTERATTRIBUTE: cacheIndex, hotSpot(4), width, height, lengthAndMask, lengthXorMask, xor, and, pad
            let mut w = W::new();
            w.u16le(0).u16le(1).u16le(1).u16le(1).u16le(1).u16le(2).u16le(3).bytes(&[1, 2, 3]).bytes(&[0xaa, 0xbb]).u8(0);
            w.done()
        }
        UPD_CACHED => vec![3, 0],
        UPD_POINTER => {
            let mut w = W::new();
            w.u16le(32).u16le(0).u16le(1).u16le(1).u16le(1).u16le(1).u16le(2).u16le(4).bytes(&[1, 2, 3, 4]).bytes(&[0xaa, 0xbb]).u8(0);
            w.done()
        }
        UPD_ORDERS => vec![1, 0, 0x03, 0x09],
        UPD_PALETTE => {
            let mut w = W::new();
            w.u16le(2).u16le(0).u32le(1).bytes(&[1, 2, 3]);
            w.done()
        }
        UPD_SURFCMDS => vec![4, 0, 0, 0, 0, 0],
        _ => vec![0xde, 0xad],
    };
    Update::Other { code, body }
}

/// Reference parser: the list of bitmap rectangles, in wire order, a conforming client must deliver.
pub fn expected_events(payload: &[u8]) -> PResult<Vec<Rect>> {
    let mut r = R::new(payload);
    let mut out = vec![];
    while !r.at_end() {
        let hdr = r.u8()?;
        let code = hdr & 0x0f;
        let frag = (hdr >> 4) & 3;
        let comp = (hdr >> 6) & 3;
        if frag != 0 || comp != 0 {
            return Err("out of scope: fragmented or compressed update".into());
        }
        let size = r.u16le()? as usize;
        let body = r.take(size)?;
        if code == UPD_BITMAP {
            let mut b = R::new(body);
            let ut = b.u16le()?;
            if ut != 1 {
                return Err(format!("bitmap update: updateType {}", ut));
            }
            let n = b.u16le()? as usize;
            for _ in 0..n {
                let left = b.u16le()?;
                let top = b.u16le()?;
                let right = b.u16le()?;
                let bottom = b.u16le()?;
                let width = b.u16le()?;
                let height = b.u16le()?;
                let bpp = b.u16le()?;
                let flags = b.u16le()?;
                let len = b.u16le()? as usize;
                let mut rect = Rect { left, top, right, bottom, width, height, bpp, flags, data: vec![] };
                let data_len = if rect.has_hdr() {
                    if len < 8 {
                        return Err("bitmapLength < 8 with compression header".into());
                    }
                    let _first = b.u16le()?;
                    let main = b.u16le()? as usize;
                    let _scan = b.u16le()?;
                    let _unc = b.u16le()?;
                    if main != len - 8 {
                        return Err("inconsistent cbCompMainBodySize".into());
                    }
                    len - 8
                } else {
                    len
                };
                rect.data = b.take(data_len)?.to_vec();
                out.push(rect);
            }
            b.expect_end("bitmap update")?;
        }
    }
    Ok(out)
}
