#!/bin/bash
# usage: try_alt.sh <patch> <ID> [tier] — run a check against a scratch copy of /repo with <patch> applied, WITHOUT touching
# /repo (usable while a background run is using /repo). Evidence / replays of such runs go to /verif/.alt/.
set -u
patch="$1"; id="$2"; tier="${3:-quick}"
alt=/tmp/altrepo
git -C /repo worktree remove --force $alt 2>/dev/null
git -C /repo worktree add -q --detach $alt HEAD || exit 2
git -C $alt apply "$patch" || { echo "PATCH DOES NOT APPLY"; git -C /repo worktree remove --force $alt; exit 3; }
VERIF_REPO=$alt /verif/check "$id" "$tier"; rc=$?
git -C /repo worktree remove --force $alt
exit $rc
