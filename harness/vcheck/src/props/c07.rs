//! C07 — hostile server bytes during NLA never crash the client.

use crate::faults::{self, FaultSpace, Msg};
use crate::peer::{apply_dev, ts_request, DevKind, Deviation, ServerParams};
use crate::props::c05::{dev_class, err_class};
use crate::runner::{Outcome, Prop, Tier};
use crate::tls::{tls_connect, Cert, ConnCfg};
use rdp::nla::cssp;
use rdp::nla::ntlm::{NTLMv2SecurityInterface, Ntlm};
use rdp::nla::rc4::Rc4;
use rdp::nla::sspi::{AuthenticationProtocol, GenericSecurityService};
use serde_json::{json, Value};
use vref::bytes::W;
use vref::ntlm::{self as rn, ServerCfg};

pub struct C07 {
    tier: Tier,
    /// end-to-end (TLS) fault space over the two server TSRequests
    e2e: Option<FaultSpace>,
    /// direct fault space: [TSRequest(challenge), CHALLENGE token, TSRequest(pubKeyAuth), sealed message]
    direct: Option<FaultSpace>,
    av_cases: Vec<(String, Vec<u8>)>,
    ts: Vec<(String, Vec<u8>)>,
    blocks: Vec<(&'static str, u64)>,
}

impl C07 {
    pub fn new() -> C07 {
        C07 { tier: Tier::Quick, e2e: None, direct: None, av_cases: vec![], ts: vec![], blocks: vec![] }
    }
}

const DIRECT_ENTRIES: [&str; 4] = ["read_ts_server_challenge", "read_challenge_message", "read_ts_validate", "gss_unwrapex"];
/// entry point of each honest message of the direct fault space (the CHALLENGE comes in three layouts)
const ENTRY_OF_MSG: [usize; 6] = [0, 1, 2, 3, 1, 1];
const CERTS: [Cert; 19] = [
    Cert::A,
    Cert::B,
    Cert::Ed25519,
    Cert::Plain2,
    Cert::CriticalExt,
    Cert::LongSerial,
    Cert::Rsa4096,
    Cert::NegativeSerial,
    Cert::EmptySubject,
    Cert::Odd(0),
    Cert::Odd(1),
    Cert::Odd(2),
    Cert::Odd(3),
    Cert::Odd(4),
    Cert::Odd(5),
    Cert::Odd(6),
    Cert::Odd(7),
    Cert::Odd(8),
    Cert::Odd(9),
];

fn challenge_with(flags: u32, target_info: &[u8], ti_len: Option<u16>, ti_off: Option<u32>, tn_len: Option<u16>, tn_off: Option<u32>) -> Vec<u8> {
    let version = flags & rn::F_VERSION != 0;
    let hdr: u32 = if version { 56 } else { 48 };
    let tn = vref::bytes::utf16le("SRV");
    let mut w = W::new();
    w.bytes(b"NTLMSSP\0").u32le(2);
    let l = tn_len.unwrap_or(tn.len() as u16);
    w.u16le(l).u16le(l).u32le(tn_off.unwrap_or(hdr));
    w.u32le(flags).bytes(&[1, 2, 3, 4, 5, 6, 7, 8]).zeros(8);
    let l = ti_len.unwrap_or(target_info.len() as u16);
    w.u16le(l).u16le(l).u32le(ti_off.unwrap_or(hdr + tn.len() as u32));
    if version {
        w.bytes(&[6, 1, 0xb1, 0x1d, 0, 0, 0, 15]);
    }
    w.bytes(&tn).bytes(target_info);
    w.done()
}

fn av_alphabet() -> Vec<(String, Vec<u8>)> {
    let mut v = vec![];
    let ts = (rn::AV_TIMESTAMP, vec![1u8, 2, 3, 4, 5, 6, 7, 8]);
    // every id x declared length (value bytes present or truncated), with and without timestamp / EOL
    let mut ids: Vec<u16> = (0..=0x0B).collect();
    ids.extend([0x0C, 0x00FF, 0x0100, 0x7FFF, 0x8000, 0xFFFF]);
    for &id in &ids {
        for declared in [0u16, 1, 2, 8, 0xFFFF] {
            for present in [0usize, 1, 8] {
                for with_ts in [true, false] {
                    for with_eol in [true, false] {
                        let mut w = W::new();
                        if with_ts {
                            w.u16le(ts.0).u16le(8).bytes(&ts.1);
                        }
                        w.u16le(id).u16le(declared).bytes(&vec![0x41; present.min(declared as usize)]);
                        if with_eol {
                            w.u16le(0).u16le(0);
                        }
                        let ti = w.done();
                        v.push((format!("av id {:#x} declared {} present {} ts {} eol {}", id, declared, present, with_ts, with_eol), challenge_with(rn::DEFAULT_FLAGS, &ti, None, None, None, None)));
                    }
                }
            }
        }
    }
    // buffer descriptors at their boundaries
    let ti = rn::av_bytes(&[ts.clone()], true);
    for len in [0u16, 1, 3, 4, 11, 12, 13, 0x7FFF, 0xFFFF] {
        for off in [0u32, 1, 47, 48, 55, 56, 57, 62, 63, 74, 75, 0x7FFF_FFFF, 0x8000_0000, 0xFFFF_FFFF] {
            v.push((format!("target info len {} offset {:#x}", len, off), challenge_with(rn::DEFAULT_FLAGS, &ti, Some(len), Some(off), None, None)));
            v.push((format!("target name len {} offset {:#x}", len, off), challenge_with(rn::DEFAULT_FLAGS, &ti, None, None, Some(len), Some(off))));
            v.push((format!("no-version target info len {} offset {:#x}", len, off), challenge_with(rn::DEFAULT_FLAGS & !rn::F_VERSION, &ti, Some(len), Some(off), None, None)));
        }
    }
    // flags: every single bit cleared / set
    for b in 0..32 {
        v.push((format!("flags bit {} toggled", b), challenge_with(rn::DEFAULT_FLAGS ^ (1 << b), &ti, None, None, None, None)));
    }
    // well-formed but very large target information (everything really present): the answer's length fields are
    // 16-bit, so the client cannot answer these; it must fail cleanly, not crash
    for total in [4000usize, 32767, 32768, 65000, 65400, 65480, 65491, 65492, 65500, 65519] {
        let fill = total - 12 - 4 - 4;
        let ti = rn::av_bytes(&[ts.clone(), (rn::AV_DNS_DOMAIN, vec![0x41; fill])], true);
        v.push((format!("well-formed target info of {} bytes", ti.len()), challenge_with(rn::DEFAULT_FLAGS, &ti, None, None, None, None)));
    }
    // TargetInfoMaxLen differing from TargetInfoLen
    for (len, max) in [(16u16, 0u16), (16, 15), (16, 17), (16, 0xFFFF), (0, 16)] {
        let ti = rn::av_bytes(&[ts.clone()], true);
        let mut c = challenge_with(rn::DEFAULT_FLAGS, &ti, Some(len), None, None, None);
        // TargetInfoFields: Len at 40, MaxLen at 42
        c[42..44].copy_from_slice(&max.to_le_bytes());
        v.push((format!("target info len {} maxlen {}", len, max), c));
    }
    // TargetName content: not UTF-8 (OEM), odd length, lone surrogates (Unicode), with the Unicode flag set and cleared
    for flags in [rn::DEFAULT_FLAGS, (rn::DEFAULT_FLAGS & !rn::F_UNICODE) | rn::F_OEM, rn::DEFAULT_FLAGS & !rn::F_UNICODE] {
        for name in [&[0x53u8, 0xC9, 0x52, 0x56][..], &[0xFF, 0xFE, 0xFD][..], &[0xC3][..], &[0x00, 0xD8][..], &[0x00, 0xDC, 0x41, 0x00][..], &[0x41, 0x00, 0x42][..], &[0xF0, 0x9F, 0x98][..], &[][..], &[0x80; 300][..]] {
            let ti = rn::av_bytes(&[ts.clone()], true);
            let mut c = challenge_with(flags, &ti, None, None, Some(name.len() as u16), None);
            // TargetName sits right after the header in challenge_with: overwrite / re-insert its bytes
            let hdr = if flags & rn::F_VERSION != 0 { 56 } else { 48 };
            let old_len = vref::bytes::utf16le("SRV").len();
            c.splice(hdr..hdr + old_len, name.iter().copied());
            // TargetInfo offset follows the name
            let ti_off = (hdr + name.len()) as u32;
            c[44..48].copy_from_slice(&ti_off.to_le_bytes());
            v.push((format!("target name bytes {:02x?} flags {:#x}", &name[..name.len().min(6)], flags), c));
        }
    }
    v.push(("empty target info".into(), challenge_with(rn::DEFAULT_FLAGS, &[], None, None, None, None)));
    v.push(("duplicate timestamp".into(), challenge_with(rn::DEFAULT_FLAGS, &rn::av_bytes(&[ts.clone(), ts.clone()], true), None, None, None, None)));
    // the same id twice with values of different lengths (longer first, shorter first), next to each other and apart
    for id in [rn::AV_NB_COMPUTER, rn::AV_NB_DOMAIN, rn::AV_DNS_COMPUTER, rn::AV_FLAGS, rn::AV_TIMESTAMP, rn::AV_TARGET_NAME, rn::AV_CHANNEL_BINDINGS, 0x00FF] {
        for (a, b) in [(8usize, 4usize), (4, 8), (0, 8), (8, 0), (8, 9), (16, 300)] {
            let first = (id, vec![0x41u8; a]);
            let second = (id, vec![0x42u8; b]);
            v.push((format!("av id {:#x} twice, {} then {} bytes, adjacent", id, a, b), challenge_with(rn::DEFAULT_FLAGS, &rn::av_bytes(&[ts.clone(), first.clone(), second.clone()], true), None, None, None, None)));
            v.push((format!("av id {:#x} twice, {} then {} bytes, apart", id, a, b), challenge_with(rn::DEFAULT_FLAGS, &rn::av_bytes(&[first, ts.clone(), (rn::AV_DNS_DOMAIN, vec![0x43; 6]), second], true), None, None, None, None)));
        }
    }
    v
}

/// final-round replies that are correctly sealed and signed under the session keys (a hostile server that knows the
/// account can produce them; byte-level faults on the reply never get past the checksum)
fn sealed_replies() -> Vec<crate::peer::FinalReply> {
    use crate::peer::FinalReply as F;
    let mut v = vec![];
    for seq in [0u32, 1, 2, 0xFF, 0x100, 0x7FFF_FFFF, 0x8000_0000, 0xFFFF_FFFE, 0xFFFF_FFFF] {
        v.push(F::SealedWithSeq(seq));
    }
    for n in [0usize, 1, 2, 15, 16, 17, 255, 256, 4096, 65535, 65536, 200_000] {
        v.push(F::SealedBlob(n));
    }
    v.extend([F::SealedPrefix(0), F::SealedPrefix(1), F::SealedWithTrailing(1), F::SealedWithTrailing(70000), F::ZeroExtended(70000), F::Offset(-1), F::Offset(0)]);
    v
}

fn many_tokens(tok: &[u8], n: usize) -> Vec<u8> {
    use vref::der;
    let item = der::seq(&[der::explicit(0, &der::octets(tok))]);
    der::seq(&[der::explicit(0, &der::integer(2)), der::explicit(1, &der::seq(&vec![item; n]))])
}

fn ts_variants() -> Vec<(String, Vec<u8>)> {
    use vref::der;
    let tok = rn::challenge_message(&ServerCfg::windows_like());
    let mut v: Vec<(String, Vec<u8>)> = vec![
        ("empty negoTokens".into(), der::seq(&[der::explicit(0, &der::integer(2)), der::explicit(1, &der::seq(&[]))])),
        ("negoTokens item without token".into(), der::seq(&[der::explicit(0, &der::integer(2)), der::explicit(1, &der::seq(&[der::seq(&[])]))])),
        ("two negoTokens".into(), der::seq(&[der::explicit(0, &der::integer(2)), der::explicit(1, &der::seq(&[der::seq(&[der::explicit(0, &der::octets(&tok))]), der::seq(&[der::explicit(0, &der::octets(&tok))])]))])),
        ("no negoTokens".into(), der::seq(&[der::explicit(0, &der::integer(2))])),
        ("version only, huge".into(), der::seq(&[der::explicit(0, &der::integer(0xFFFF_FFFF))])),
        ("empty sequence".into(), der::seq(&[])),
        ("token empty".into(), ts_request(2, Some(&[]), None, None)),
        ("errorCode field".into(), der::seq(&[der::explicit(0, &der::integer(2)), der::explicit(4, &der::integer(0xC000006D))])),
        ("indefinite length".into(), vec![0x30, 0x80, 0xa0, 0x03, 0x02, 0x01, 0x02, 0x00, 0x00]),
        ("length 2^32-1".into(), vec![0x30, 0x84, 0xFF, 0xFF, 0xFF, 0xFF, 0xa0, 0x03, 0x02, 0x01, 0x02]),
        ("length 2^63".into(), vec![0x30, 0x88, 0x80, 0, 0, 0, 0, 0, 0, 0, 0xa0]),
        ("length 2^64-1".into(), vec![0x30, 0x88, 0xFF, 0xFF, 0xFF, 0xFF, 0xFF, 0xFF, 0xFF, 0xFF]),
        ("length 2^64-2 then data".into(), vec![0x30, 0x88, 0xFF, 0xFF, 0xFF, 0xFF, 0xFF, 0xFF, 0xFF, 0xFE, 0xa0, 0x03, 0x02, 0x01, 0x02]),
        ("inner length 2^64-1".into(), vec![0x30, 0x0c, 0xa0, 0x0a, 0x02, 0x88, 0xFF, 0xFF, 0xFF, 0xFF, 0xFF, 0xFF, 0xFF, 0xFF]),
        ("length 2^64-16".into(), vec![0x30, 0x88, 0xFF, 0xFF, 0xFF, 0xFF, 0xFF, 0xFF, 0xFF, 0xF0, 0xa0]),
        ("octet string length 2^31".into(), vec![0x30, 0x10, 0xa0, 0x03, 0x02, 0x01, 0x02, 0xa3, 0x09, 0x04, 0x84, 0x80, 0, 0, 0, 1, 2, 3]),
        ("3 negoTokens".into(), many_tokens(&tok, 3)),
        ("63 negoTokens".into(), many_tokens(&tok, 63)),
        ("64 negoTokens".into(), many_tokens(&tok, 64)),
        ("65 negoTokens".into(), many_tokens(&tok, 65)),
        ("256 negoTokens".into(), many_tokens(&tok, 256)),
        ("1000 empty negoTokens items".into(), vref::der::seq(&[vref::der::explicit(0, &vref::der::integer(2)), vref::der::explicit(1, &vref::der::seq(&vec![vref::der::seq(&[]); 1000]))])),
        ("deep nesting".into(), {
            let mut v = vec![0x02, 0x01, 0x02];
            for _ in 0..200 {
                v = der::tlv(der::UNIV_SEQ, &v);
            }
            v
        }),
    ];
    // TSRequests of exactly 1499 / 1500 / 1501 / 3000 bytes (one link read takes at most 1500), after which the server is silent
    for total in [1499usize, 1500, 1501, 3000] {
        // 30 82 LL LL | a0 03 02 01 02 | a1 82 .. 30 82 .. 30 82 .. a0 82 .. 04 82 .. token
        let overhead = der::seq(&[der::explicit(0, &der::integer(2)), der::explicit(1, &der::seq(&[der::seq(&[der::explicit(0, &der::octets(&vec![0x41; 1300]))])]))]).len() - 1300;
        let token: Vec<u8> = tok.iter().cycle().take(total - overhead).copied().collect();
        let msg = der::seq(&[der::explicit(0, &der::integer(2)), der::explicit(1, &der::seq(&[der::seq(&[der::explicit(0, &der::octets(&token))])]))]);
        v.push((format!("TSRequest of exactly {} bytes (token of {} bytes)", msg.len(), token.len()), msg));
    }
    // piles of nested explicit context tags (DER-minimal lengths), far deeper than any TSRequest
    for levels in [90usize, 300, 3000, 20000] {
        let mut v2 = vec![0x04u8, 0x01, 0x41];
        for _ in 0..levels {
            v2 = der::tlv(der::ctx(0), &v2);
        }
        v.push((format!("{} nested [0] tags around a token", levels), der::seq(&[der::explicit(0, &der::integer(2)), der::explicit(1, &v2)])));
        v.push((format!("{} nested [0] tags alone", levels), v2));
    }
    // much deeper piles (built back to front, linear): a walk that does not count every level exhausts the stack
    for levels in [200_000usize, 600_000] {
        let mut rev: Vec<u8> = vec![0x41, 0x01, 0x04];
        for _ in 0..levels {
            let n = rev.len();
            if n < 0x80 {
                rev.push(n as u8);
            } else {
                let be: Vec<u8> = n.to_be_bytes().iter().copied().skip_while(|b| *b == 0).collect();
                rev.extend(be.iter().rev());
                rev.push(0x80 | be.len() as u8);
            }
            rev.push(0xa0);
        }
        rev.reverse();
        v.push((format!("{} nested [0] tags around a token", levels), der::seq(&[der::explicit(0, &der::integer(2)), der::explicit(1, &rev)])));
        v.push((format!("{} nested [0] tags alone", levels), rev));
    }
    // several negoTokens of which the first is (a prefix of) an NTLM message header
    let items = |toks: &[&[u8]]| der::seq(&[der::explicit(0, &der::integer(2)), der::explicit(1, &der::seq(&toks.iter().map(|t| der::seq(&[der::explicit(0, &der::octets(t))])).collect::<Vec<_>>()))]);
    let sig = b"NTLMSSP\0\x02\0\0\0\x01\x02";
    for n in [0usize, 1, 7, 8, 9, 10, 11, 12, 13, 14] {
        v.push((format!("two negoTokens, the first the first {} bytes of an NTLM CHALLENGE header", n), items(&[&sig[..n], &tok])));
        v.push((format!("two negoTokens, the second the first {} bytes of an NTLM CHALLENGE header", n), items(&[&tok, &sig[..n]])));
        v.push((format!("three negoTokens of {} header bytes", n), items(&[&sig[..n], &sig[..n], &sig[..n]])));
    }
    // a primitive element declaring a length near 2^64, alone inside wrappers that fit it exactly, at every depth
    for tag in [0x04u8, 0x02, 0x30, 0x0a, 0xa0] {
        for last in [0xFFu8, 0xF0, 0x01] {
            let hostile = vec![tag, 0x88, 0xFF, 0xFF, 0xFF, 0xFF, 0xFF, 0xFF, 0xFF, last];
            for n in 0..5u32 {
                let wrapped = der::explicit(n, &hostile);
                v.push((format!("[{}] wrapping exactly {:02x} 88 ff..{:02x}, after the version", n, tag, last), der::seq(&[der::explicit(0, &der::integer(2)), wrapped.clone()])));
                v.push((format!("[{}] wrapping exactly {:02x} 88 ff..{:02x}, alone", n, tag, last), der::seq(&[wrapped.clone()])));
                v.push((format!("[{}] [{}] wrapping exactly {:02x} 88 ff..{:02x}", n, n, tag, last), der::seq(&[der::explicit(0, &der::integer(2)), der::explicit(n, &wrapped)])));
            }
            v.push((format!("negoTokens item wrapping exactly {:02x} 88 ff..{:02x}", tag, last), der::seq(&[der::explicit(0, &der::integer(2)), der::explicit(1, &der::seq(&[der::seq(&[der::explicit(0, &hostile)])]))])));
            v.push((format!("negoTokens wrapping exactly {:02x} 88 ff..{:02x}", tag, last), der::seq(&[der::explicit(0, &der::integer(2)), der::explicit(1, &der::seq(&[hostile.clone()]))])));
        }
    }
    v
}

impl C07 {
    fn locate(&self, idx: u64) -> (&'static str, u64) {
        let mut i = idx;
        for (n, c) in &self.blocks {
            if i < *c {
                return (n, i);
            }
            i -= c;
        }
        unreachable!()
    }
    fn strings(&self) -> u64 {
        let (sl, al) = if self.tier == Tier::Quick { (2, 5) } else { (3, 6) };
        faults::short_string_count(sl) + faults::alphabet_string_count(al)
    }
    fn string(&self, i: u64) -> Vec<u8> {
        let sl = if self.tier == Tier::Quick { 2 } else { 3 };
        let n = faults::short_string_count(sl);
        if i < n {
            faults::short_string(i)
        } else {
            faults::alphabet_string(i - n)
        }
    }
}

fn run_direct(entry: usize, input: &[u8]) -> String {
    crate::runner::BYTES_IN.store(input.len() as u64, std::sync::atomic::Ordering::Relaxed);
    let r: Result<(), String> = match entry {
        0 => cssp::read_ts_server_challenge(input).map(|_| ()).map_err(|e| format!("{:?}", e)),
        1 => {
            // non-ASCII credentials: a CHALLENGE may select the OEM character set
            let mut n = Ntlm::new("döm日".into(), "usér😀x".into(), "pä日w".into());
            // the object has already completed a handshake (a short CHALLENGE without VERSION) when the hostile one arrives
            let _ = n.create_negotiate_message();
            let _ = n.read_challenge_message(&rn::challenge_message(&ServerCfg { flags: rn::DEFAULT_FLAGS & !rn::F_VERSION, target_name: "S".into(), av_pairs: vec![(rn::AV_TIMESTAMP, vec![1, 2, 3, 4, 5, 6, 7, 8])], ..ServerCfg::windows_like() }));
            let _ = n.create_negotiate_message();
            let r = n.read_challenge_message(input).map(|_| ()).map_err(|e| format!("{:?}", e));
            if r.is_ok() {
                // what CredSSP would do next with an accepted challenge
                let _ = n.build_security_interface();
                let _ = (n.get_domain_name(), n.get_user_name(), n.get_password());
            }
            // the object goes on being used, whatever became of the hostile CHALLENGE: the same bytes again, a well-formed
            // CHALLENGE for the NEGOTIATE that is still pending, then a whole new handshake
            let _ = n.read_challenge_message(input);
            let good = rn::challenge_message(&ServerCfg::windows_like());
            let _ = n.read_challenge_message(&good);
            let _ = n.create_negotiate_message();
            let _ = n.read_challenge_message(&good);
            let _ = n.build_security_interface();
            r
        }
        2 => cssp::read_ts_validate(input).map(|_| ()).map_err(|e| format!("{:?}", e)),
        _ => {
            let mut s = NTLMv2SecurityInterface::new(Rc4::new(b"0123456789abcdef"), Rc4::new(b"fedcba9876543210"), vec![1; 16], vec![2; 16]);
            // a context that has already unsealed twelve genuine messages of its peer
            let mut peer = NTLMv2SecurityInterface::new(Rc4::new(b"fedcba9876543210"), Rc4::new(b"0123456789abcdef"), vec![2; 16], vec![1; 16]);
            for k in 0..12u8 {
                if let Ok(tok) = peer.gss_wrapex(&[k; 5]) {
                    let _ = s.gss_unwrapex(&tok);
                }
            }
            s.gss_unwrapex(input).map(|_| ()).map_err(|e| format!("{:?}", e))
        }
    };
    match r {
        Ok(()) => "ok".into(),
        Err(e) => err_class(&e),
    }
}

impl Prop for C07 {
    fn id(&self) -> &'static str {
        "C07"
    }
    fn level(&self) -> &'static str {
        "fault_enumeration"
    }
    fn prepare(&mut self, tier: Tier) -> Result<(), String> {
        self.tier = tier;
        // honest end-to-end run
        let t = tls_connect(&ConnCfg::default(), ServerParams { selected: 2, ..Default::default() }, vec![], Cert::A)?;
        if t.client.is_none() {
            return Err(format!("honest NLA connect failed: {:?} {:?}", t.error, t.peer.borrow().srv.errors));
        }
        let sent = t.peer.borrow().srv.sent.clone();
        let ch = sent.iter().find(|s| s.0 == "cssp_challenge").ok_or("no challenge")?.1.clone();
        let pk = sent.iter().find(|s| s.0 == "cssp_pubkey").ok_or("no pubkey reply")?.1.clone();
        // end to end: quick uses the reduced value sets of the fault space on the challenge; the pubKeyAuth reply is mostly ciphertext (C01 flips every bit of it)
        self.e2e = Some(FaultSpace::new(vec![Msg { name: "cssp_challenge".into(), honest: ch.clone() }], tier));
        let token = rn::challenge_message(&ServerCfg::windows_like());
        let sealed = vref::ntlm::SealCtx::new(&[7u8; 16], false).wrap(&[9u8; 40]);
        self.direct = Some(FaultSpace::new(
            vec![Msg { name: "TSRequest(challenge)".into(), honest: ch }, Msg { name: "CHALLENGE".into(), honest: token }, Msg { name: "TSRequest(pubKeyAuth)".into(), honest: pk.clone() }, Msg { name: "sealed".into(), honest: sealed },
                Msg { name: "CHALLENGE without VERSION".into(), honest: rn::challenge_message(&ServerCfg { flags: rn::DEFAULT_FLAGS & !rn::F_VERSION, ..ServerCfg::windows_like() }) },
                Msg { name: "CHALLENGE without VERSION, info before name".into(), honest: rn::challenge_message(&ServerCfg { flags: rn::DEFAULT_FLAGS & !rn::F_VERSION, layout: 1, ..ServerCfg::windows_like() }) }],
            Tier::Thorough,
        ));
        self.av_cases = av_alphabet();
        self.ts = ts_variants();
        let n = self.strings();
        let red = pk.len() as u64 * 3;
        let mut blocks = vec![
            ("e2e-challenge", self.e2e.as_ref().unwrap().total()),
            ("e2e-pubkey", red),
            ("e2e-av", self.av_cases.len() as u64),
            ("e2e-ts", self.ts.len() as u64 * 2),
            ("e2e-sealed", sealed_replies().len() as u64 * 3),
            ("e2e-cert", CERTS.len() as u64 * 2),
            ("direct-faults", self.direct.as_ref().unwrap().total()),
            ("direct-av", self.av_cases.len() as u64),
            ("direct-ts", self.ts.len() as u64 * 2),
            ("direct-strings", DIRECT_ENTRIES.len() as u64 * n),
        ];
        if tier == Tier::Thorough {
            let r = self.direct.as_ref().unwrap().reduced_count();
            blocks.push(("direct-pairs", r * r));
        }
        self.blocks = blocks;
        Ok(())
    }
    fn n_cases(&self) -> u64 {
        self.blocks.iter().map(|b| b.1).sum()
    }
    fn describe(&self, idx: u64) -> Value {
        let (b, i) = self.locate(idx);
        json!({"idx": idx, "block": b, "local_index": i, "detail": match b {
            "e2e-challenge" => json!(self.e2e.as_ref().unwrap().get(i).1),
            "direct-faults" => json!(self.direct.as_ref().unwrap().get(i).1),
            "e2e-av" | "direct-av" => json!(self.av_cases[i as usize].0),
            "e2e-ts" | "direct-ts" => json!(self.ts[(i / 2) as usize].0),
            "e2e-sealed" => json!(format!("{:?} certificate #{}", sealed_replies()[(i / 3) as usize], i % 3)),
            "e2e-cert" => json!(format!("{:?} check={}", CERTS[(i / 2) as usize], i % 2)),
            _ => json!(null),
        }})
    }
    fn rule(&self) -> String {
        "cases: [e2e-*] the real cssp_connect inside the real Connector::connect over real TLS against the reference CredSSP server whose CHALLENGE TSRequest carries every single deviation (byte x value set, 16/32-bit boundary fields at every offset in both byte orders, truncations, extensions), whose pubKeyAuth reply carries {00, FF, truncate} at every offset, an AV-pair alphabet (the same id twice with values of different lengths; every id 0..0x0C, 0xFF, 0x100, 0x7FFF, 0x8000, 0xFFFF x declared lengths {0,1,2,8,0xFFFF} x present bytes x with/without timestamp x with/without EOL; target-info/target-name descriptors at their boundaries; every flag bit toggled), TSRequest shapes (empty/missing/double negoTokens, 3/63/64/65/256/1000 negoTokens items, well-formed target information of 4000..65519 bytes, TargetInfoMaxLen != TargetInfoLen, TargetName bytes that are not valid UTF-8 / UTF-16 with the Unicode flag set and cleared, correctly sealed final replies numbered 0..2^32-1 or carrying 0..200000-byte values, errorCode, indefinite and 2^31/2^32/2^63 lengths, 200-deep nesting, up to 600 000 nested explicit tags, TSRequests of exactly 1499 / 1500 / 1501 / 3000 bytes, several negoTokens of which one is a 0..14-byte prefix of an NTLM message header, a primitive element declaring a length near 2^64 alone inside exactly fitting [0]..[4] wrappers at three depths) in both rounds, and 19 server certificates (RSA-2048/4096, EC P-256, Ed25519, critical unknown extension, 20-byte / 40-byte / negative serial, empty subject, and DER-edited ones: X.509 v1, version 4, GeneralizedTime, invalid UTCTime, non-zero unused bits, BMPString / T61String subject, duplicate / empty extensions) with checking on/off; [direct-*] the same inputs, every single deviation with all 256 byte values, and every byte string of length <=2 (<=3) plus 3..5 (..6) byte strings over 8 boundary bytes, fed directly to read_ts_server_challenge, Ntlm::read_challenge_message (on an object that completed a handshake before and that afterwards reads the same bytes again, a well-formed CHALLENGE for the pending NEGOTIATE and a whole new handshake), read_ts_validate and gss_unwrapex; thorough adds all pairs of {00, FF, truncate} faults on the direct entries. Oracle: returns; no panic/abort/hang; allocation rule.".into()
    }
    fn assumptions(&self) -> Vec<String> {
        vec!["memory rule: single request > 1 MiB or peak > 16 MiB + 1024 x bytes received".into()]
    }
    fn coverage_extra(&self) -> Value {
        json!({"blocks": self.blocks.iter().map(|b| json!({"name": b.0, "cases": b.1})).collect::<Vec<_>>(), "deviation_bound_completed": if self.tier == Tier::Quick { 1 } else { 2 }})
    }
    fn mem_rule(&self, peak: usize, maxreq: usize, bytes_in: u64) -> Option<String> {
        // OpenSSL allocates outside this allocator; the rule covers the Rust side
        if maxreq > (1 << 20) {
            return Some(format!("single allocation request of {} bytes", maxreq));
        }
        if peak > (16 << 20) + 1024 * bytes_in as usize {
            return Some(format!("peak {} for {} bytes", peak, bytes_in));
        }
        None
    }
    fn run_case(&mut self, idx: u64) -> Outcome {
        let (b, i) = self.locate(idx);
        let e2e = |devs: Vec<Deviation>, cert: Cert, check: bool| -> Outcome {
            let cfg = ConnCfg { check_certificate: check, ..Default::default() };
            match tls_connect(&cfg, ServerParams { selected: 2, ..Default::default() }, devs.clone(), cert) {
                Err(e) => Outcome::fail("setup", "machinery", e),
                Ok(t) => {
                    let applied = t.peer.borrow().srv.dev_applied.iter().any(|a| *a) || devs.is_empty();
                    let res = if t.client.is_some() { "ok".to_string() } else { err_class(t.error.as_deref().unwrap_or("")) };
                    Outcome::pass(format!("{}:{}:{}", b, devs.first().map(dev_class).unwrap_or("none"), res), applied)
                }
            }
        };
        match b {
            "e2e-challenge" => e2e(vec![self.e2e.as_ref().unwrap().get(i).1], Cert::A, false),
            "e2e-pubkey" => {
                let off = (i / 3) as usize;
                let kind = match i % 3 {
                    0 => DevKind::SetByte { off, val: 0 },
                    1 => DevKind::SetByte { off, val: 0xFF },
                    _ => DevKind::Truncate(off),
                };
                e2e(vec![Deviation { msg: "cssp_pubkey".into(), kind }], Cert::A, false)
            }
            "e2e-av" => {
                let tok = self.av_cases[i as usize].1.clone();
                e2e(vec![Deviation { msg: "cssp_challenge".into(), kind: DevKind::Replace(ts_request(2, Some(&tok), None, None)) }], Cert::A, false)
            }
            "e2e-ts" => {
                let v = crate::alloc::exempt(|| self.ts[(i / 2) as usize].1.clone());
                let msg = if i % 2 == 0 { "cssp_challenge" } else { "cssp_pubkey" };
                if v.len() > (1 << 20) {
                    // the client reads at most 1500 bytes of a CredSSP message: the giant shapes are for the direct entries
                    return Outcome::pass("e2e-ts:giant-shape-left-to-the-direct-entries", false);
                }
                e2e(vec![Deviation { msg: msg.into(), kind: DevKind::Replace(v) }], Cert::A, false)
            }
            "e2e-sealed" => {
                let reply = sealed_replies()[(i / 3) as usize].clone();
                let cert = [Cert::A, Cert::B, Cert::Ed25519][(i % 3) as usize];
                let cfg = ConnCfg::default();
                match tls_connect(&cfg, ServerParams { selected: 2, final_reply: reply.clone(), ..Default::default() }, vec![], cert) {
                    Err(e) => Outcome::fail("setup", "machinery", e),
                    Ok(t) => {
                        let res = if t.client.is_some() { "ok".to_string() } else { err_class(t.error.as_deref().unwrap_or("")) };
                        let kind = format!("{:?}", reply).split('(').next().unwrap_or("").to_string();
                        Outcome::pass(format!("e2e-sealed:{}:{}", kind, res), true)
                    }
                }
            }
            "e2e-cert" => {
                let cert = CERTS[(i / 2) as usize];
                // a certificate OpenSSL itself refuses to load cannot be presented by any server: not a case
                if crate::tls::acceptor(cert).is_err() {
                    return Outcome::pass("e2e-cert:not-loadable-by-openssl", false);
                }
                e2e(vec![], cert, i % 2 == 1)
            }
            "direct-faults" => {
                let fs = self.direct.as_ref().unwrap();
                let (mi, d) = fs.get(i);
                let mut bytes = fs.msgs[mi].honest.clone();
                let changed = apply_dev(&mut bytes, &d.kind);
                let r = run_direct(ENTRY_OF_MSG[mi], &bytes);
                Outcome::pass(format!("direct:{}:{}:{}", DIRECT_ENTRIES[ENTRY_OF_MSG[mi]], dev_class(&d), r), changed)
            }
            "direct-pairs" => {
                let fs = self.direct.as_ref().unwrap();
                let n = fs.reduced_count();
                let d1 = fs.reduced_get(i / n);
                let d2 = fs.reduced_get(i % n);
                if d1.msg != d2.msg {
                    return Outcome::pass("direct-pairs:different-messages", false);
                }
                let mi = fs.msgs.iter().position(|m| m.name == d1.msg).unwrap();
                let mut bytes = fs.msgs[mi].honest.clone();
                let c1 = apply_dev(&mut bytes, &d1.kind);
                let c2 = apply_dev(&mut bytes, &d2.kind);
                let r = run_direct(ENTRY_OF_MSG[mi], &bytes);
                Outcome::pass(format!("direct-pairs:{}:{}", DIRECT_ENTRIES[ENTRY_OF_MSG[mi]], r), c1 && c2)
            }
            "direct-av" => {
                let r = run_direct(1, &self.av_cases[i as usize].1);
                Outcome::pass(format!("direct-av:{}", r), true)
            }
            "direct-ts" => {
                let v = crate::alloc::exempt(|| self.ts[(i / 2) as usize].1.clone());
                let r = run_direct(if i % 2 == 0 { 0 } else { 2 }, &v);
                Outcome::pass(format!("direct-ts:{}", r), true)
            }
            _ => {
                let n = self.strings();
                let e = (i / n) as usize;
                let s = self.string(i % n);
                let r = run_direct(e, &s);
                Outcome::pass(format!("direct-strings:{}:{}", DIRECT_ENTRIES[e], r), !s.is_empty())
            }
        }
    }
}
