//! C16 — NTLM session security seals per MS-NLMP, round-trips, and rejects tampering.
//! All operation sequences up to a depth against the reference SEAL/SIGN, and every single-bit
//! flip / truncation / extension of peer-sealed messages.

use crate::runner::{Outcome, Prop, Tier};
use rdp::model::rnd::verif as rnd;
use rdp::nla::ntlm::{NTLMv2SecurityInterface, Ntlm};
use rdp::nla::rc4::Rc4;
use rdp::nla::sspi::{AuthenticationProtocol, GenericSecurityService};
use serde::Serialize;
use serde_json::{json, Value};
use vref::bytes::hex;
use vref::crypto::md5;
use vref::ntlm::{self as rn, SealCtx, ServerCfg};

#[derive(Clone, Debug, Serialize)]
enum Op {
    Wrap(usize),
    Unwrap(usize),
}

#[derive(Clone, Debug, Serialize)]
enum Tamper {
    Flip(usize),
    Truncate(usize),
    Extend(usize),
    /// sealed by the client-to-server keys instead (reflection)
    Reflect,
    /// sequence number field rewritten (with the checksum left as is)
    Seq(u32),
}

#[derive(Clone, Debug, Serialize)]
enum Case {
    Sequence { key: usize, ops: Vec<Op>, via_handshake: bool },
    Tamper { key: usize, len: usize, prior: usize, t: Tamper },
    /// two live contexts (two session keys) taking turns on one thread: .0 of each op = which context
    Interleaved { keys: (usize, usize), ops: Vec<(u8, Op)> },
}

pub struct C16 {
    cases: Vec<Case>,
}

impl C16 {
    pub fn new() -> C16 {
        C16 { cases: vec![] }
    }
}

const LENS: [usize; 10] = [0, 1, 2, 3, 15, 16, 17, 255, 256, 1000];

fn keys() -> Vec<[u8; 16]> {
    let mut pat = [0u8; 16];
    for (i, b) in pat.iter_mut().enumerate() {
        *b = (i as u8).wrapping_mul(0x1d).wrapping_add(7);
    }
    vec![[0u8; 16], [0xFF; 16], pat, [0x55; 16], [0x80, 0, 0, 0, 0, 0, 0, 0, 0, 0, 0, 0, 0, 0, 0, 1]]
}

fn plaintext(len: usize, salt: usize) -> Vec<u8> {
    (0..len).map(|i| ((i * 31 + salt * 7 + 3) & 0xff) as u8).collect()
}

const C2S_SIGN: &[u8] = b"session key to client-to-server signing key magic constant\0";
const S2C_SIGN: &[u8] = b"session key to server-to-client signing key magic constant\0";
const C2S_SEAL: &[u8] = b"session key to client-to-server sealing key magic constant\0";
const S2C_SEAL: &[u8] = b"session key to server-to-client sealing key magic constant\0";

/// the client's security context for exported session key `k`, built through the public constructor
fn lib_ctx(k: &[u8; 16]) -> Box<dyn GenericSecurityService> {
    let d = |m: &[u8]| md5(&[&k[..], m].concat()).to_vec();
    Box::new(NTLMv2SecurityInterface::new(Rc4::new(&d(C2S_SEAL)), Rc4::new(&d(S2C_SEAL)), d(C2S_SIGN), d(S2C_SIGN)))
}

/// the same context obtained from a real handshake (exercises the library's own key derivation)
/// `earlier`: the same Ntlm object first completes another handshake (other session key, a CHALLENGE without VERSION
/// and with other AV pairs) and builds a context from it; the judged context is that of its second handshake
fn lib_ctx_handshake(k: &[u8; 16], earlier: bool) -> Result<Box<dyn GenericSecurityService>, String> {
    let mut n = Ntlm::new("dom".into(), "user".into(), "pw".into());
    if earlier {
        n.create_negotiate_message().map_err(|e| format!("{:?}", e))?;
        let mut cfg1 = ServerCfg::windows_like();
        cfg1.flags &= !rn::F_VERSION;
        cfg1.challenge = [0x5a; 8];
        let mut pattern = vec![0x11; 8];
        pattern.extend_from_slice(&[0xC3; 16]);
        rnd::set_pattern(Some(pattern));
        let r = n.read_challenge_message(&rn::challenge_message(&cfg1));
        rnd::set_pattern(None);
        r.map_err(|e| format!("earlier handshake: {:?}", e))?;
        let mut first = n.build_security_interface();
        let _ = first.gss_wrapex(b"first session");
    }
    n.create_negotiate_message().map_err(|e| format!("{:?}", e))?;
    let cfg = ServerCfg::windows_like();
    // random(8) = client challenge, random(16) = exported session key
    let mut pattern = vec![0xAA; 8];
    pattern.extend_from_slice(k);
    rnd::set_pattern(Some(pattern));
    let r = n.read_challenge_message(&rn::challenge_message(&cfg));
    rnd::set_pattern(None);
    r.map_err(|e| format!("{:?}", e))?;
    Ok(n.build_security_interface())
}

impl Prop for C16 {
    fn id(&self) -> &'static str {
        "C16"
    }
    fn level(&self) -> &'static str {
        "exploration"
    }
    fn prepare(&mut self, tier: Tier) -> Result<(), String> {
        let mut cs = vec![];
        let nk = keys().len();
        let depth = if tier == Tier::Quick { 3 } else { 4 };
        let mut ops = vec![];
        for l in LENS {
            ops.push(Op::Wrap(l));
            ops.push(Op::Unwrap(l));
        }
        fn rec(ops: &[Op], depth: usize, cur: &mut Vec<Op>, out: &mut Vec<Vec<Op>>) {
            if !cur.is_empty() {
                out.push(cur.clone());
            }
            if depth == 0 {
                return;
            }
            for o in ops {
                cur.push(o.clone());
                rec(ops, depth - 1, cur, out);
                cur.pop();
            }
        }
        let mut seqs = vec![];
        rec(&ops, depth, &mut vec![], &mut seqs);
        if tier != Tier::Quick {
            // depth 5 and 6 over the lengths {0, 1, 16, 256}
            let small: Vec<Op> = [0usize, 1, 16, 256].iter().flat_map(|l| [Op::Wrap(*l), Op::Unwrap(*l)]).collect();
            let mut deep = vec![];
            rec(&small, 6, &mut vec![], &mut deep);
            seqs.extend(deep.into_iter().filter(|s| s.len() >= 5));
        }
        for key in 0..nk {
            for s in &seqs {
                // the handshake-derived context for the shorter sequences (for every second session key the Ntlm object has completed an earlier handshake with another key before), the constructor for all
                cs.push(Case::Sequence { key, ops: s.clone(), via_handshake: false });
                if s.len() <= 2 {
                    cs.push(Case::Sequence { key, ops: s.clone(), via_handshake: true });
                }
            }
        }
        // long-lived contexts (the sequence number passes 255 / 256 / 257 in each direction) and very large messages
        for key in [2usize, 1] {
            for via_handshake in [false, true] {
                cs.push(Case::Sequence { key, ops: vec![Op::Wrap(1); 300], via_handshake });
                // 66 000 messages in each direction on one context (the sequence number passes 2^16)
                cs.push(Case::Sequence { key, ops: (0..132_000).map(|i| if i % 2 == 0 { Op::Wrap(i % 5) } else { Op::Unwrap(i % 3) }).collect(), via_handshake });
                cs.push(Case::Sequence { key, ops: vec![Op::Unwrap(2); 300], via_handshake });
                cs.push(Case::Sequence { key, ops: (0..600).map(|i| if i % 2 == 0 { Op::Wrap(3) } else { Op::Unwrap(0) }).collect(), via_handshake });
                cs.push(Case::Sequence { key, ops: (0..520).map(|i| if i < 260 { Op::Unwrap(1) } else { Op::Wrap(1) }).collect(), via_handshake });
            }
            for big in [65519usize, 65520, 65521, 65535, 65536, 70000, 200000] {
                cs.push(Case::Sequence { key, ops: vec![Op::Wrap(big), Op::Wrap(3), Op::Unwrap(2)], via_handshake: false });
                cs.push(Case::Sequence { key, ops: vec![Op::Unwrap(big), Op::Wrap(3), Op::Unwrap(big), Op::Wrap(big)], via_handshake: false });
            }
        }
        // every message length 0..1100 (and around the powers of two up to 64 KiB), sealed one after the other by one
        // context, then unsealed one after the other
        {
            let mut lens: Vec<usize> = (0..=1100).collect();
            for k in 11..=16u32 {
                let p = 1usize << k;
                lens.extend([p - 5, p - 4, p - 3, p - 1, p, p + 1, p + 4]);
            }
            for key in [2usize, 3] {
                cs.push(Case::Sequence { key, ops: lens.iter().map(|l| Op::Wrap(*l)).collect(), via_handshake: false });
                cs.push(Case::Sequence { key, ops: lens.iter().map(|l| Op::Unwrap(*l)).collect(), via_handshake: false });
                cs.push(Case::Sequence { key, ops: lens.iter().flat_map(|l| [Op::Wrap(*l), Op::Unwrap(*l)]).collect(), via_handshake: key == 2 });
            }
        }
        let mut tlens: Vec<usize> = (0..=17).collect();
        tlens.extend([100, 256]);
        if tier == Tier::Thorough {
            tlens.extend([64, 500, 1000]);
        }
        for key in 0..nk {
            for &len in &tlens {
                for prior in [0usize, 1] {
                    let total = 16 + len;
                    for bit in 0..total * 8 {
                        cs.push(Case::Tamper { key, len, prior, t: Tamper::Flip(bit) });
                    }
                    for cut in 0..total {
                        if cut < 40 || cut + 3 > total || cut % 16 == 0 {
                            cs.push(Case::Tamper { key, len, prior, t: Tamper::Truncate(cut) });
                        }
                    }
                    for n in 1..=3 {
                        cs.push(Case::Tamper { key, len, prior, t: Tamper::Extend(n) });
                    }
                    cs.push(Case::Tamper { key, len, prior, t: Tamper::Reflect });
                    for s in [0u32, 1, 2, 0xFFFF_FFFF] {
                        if s != prior as u32 {
                            cs.push(Case::Tamper { key, len, prior, t: Tamper::Seq(s) });
                        }
                    }
                }
            }
        }
        // two contexts alive at the same time on one thread, taking turns: every sequence of <=4 (5 in thorough) operations
        // over {A, B} x {wrap, unwrap} x len {1, 16}; each context is judged against its own reference
        {
            let mut alpha: Vec<(u8, Op)> = vec![];
            for c in [0u8, 1] {
                for l in [1usize, 16] {
                    alpha.push((c, Op::Wrap(l)));
                    alpha.push((c, Op::Unwrap(l)));
                }
            }
            fn rec2(alpha: &[(u8, Op)], depth: usize, cur: &mut Vec<(u8, Op)>, out: &mut Vec<Vec<(u8, Op)>>) {
                if cur.len() >= 2 {
                    out.push(cur.clone());
                }
                if depth == 0 {
                    return;
                }
                for o in alpha {
                    cur.push(o.clone());
                    rec2(alpha, depth - 1, cur, out);
                    cur.pop();
                }
            }
            let mut seqs = vec![];
            rec2(&alpha, if tier == Tier::Quick { 4 } else { 6 }, &mut vec![], &mut seqs);
            for keys in [(2usize, 3usize), (0, 1), (2, 2)] {
                for s in &seqs {
                    cs.push(Case::Interleaved { keys, ops: s.clone() });
                }
            }
            // long turns: 300 rounds of A.wrap, B.wrap, A.unwrap, B.unwrap
            cs.push(Case::Interleaved { keys: (2, 3), ops: (0..1200).map(|i| ((i % 2) as u8, if (i / 2) % 2 == 0 { Op::Wrap(i % 7) } else { Op::Unwrap(i % 5) })).collect() });
        }
        self.cases = cs;
        Ok(())
    }
    fn n_cases(&self) -> u64 {
        self.cases.len() as u64
    }
    fn describe(&self, idx: u64) -> Value {
        json!({"idx": idx, "case": self.cases[idx as usize], "keys": keys().iter().map(|k| hex(k)).collect::<Vec<_>>()})
    }
    fn rule(&self) -> String {
        "cases: [sequence] every sequence of <=3 (<=4 thorough; thorough also every sequence of 5 and 6 operations with len in {0,1,16,256}) operations over {wrap(len), unwrap(peer-sealed len)} with len in {0,1,2,3,15,16,17,255,256,1000}, for 5 exported session keys, on the context built by the public constructor and (sequences <=2) on the one built by a real NEGOTIATE/CHALLENGE handshake (for every second session key the same Ntlm object has completed an earlier handshake, with another key, before): every wrap output must be byte-identical to reference MS-NLMP SEAL+SIGN with carried-over cipher state and sequence numbers, every unwrap must return the plaintext; contexts carrying 66 000 messages in each direction; every tampered message is refused (and when the alteration sits in the checksum, the sequence number or the ciphertext, the peer's next genuine message still unseals on a context that saw the same traffic), refused again when presented a second time to the same context, and so are a following message extended by 1 / 3 / 16 bytes or cut by one; two contexts (different or equal session keys) alive at the same time on one thread taking turns, every sequence of 2..4 (6 thorough) operations over {A, B} x {wrap, unwrap} x {1, 16} bytes and 300 rounds; plus long-lived contexts (300 wraps, 300 unwraps, 600 alternating, 260 unwraps then 260 wraps: the sequence numbers pass 256 in each direction) and messages of 65519..200000 bytes followed by further traffic; every length 0..1100 and 2^k-5..2^k+4 (k = 11..16) sealed / unsealed / both in one context; [tamper] for every peer-sealed message of length 0..17, 100, 256 at stream position 0 and 1: every single-bit flip, truncations, extensions by 1..3 bytes, reflection, rewritten sequence numbers: all must be rejected. Non-trivial: sequences of >=2 operations and all tamper cases.".into()
    }
    fn assumptions(&self) -> Vec<String> {
        vec![
            "session keys are covered by 5 boundary/pattern values (the code does not branch on key bytes)".into(),
            "the reference sealing (vref::ntlm::SealCtx) reproduces the MS-NLMP 4.2.4.4 example at start-up".into(),
            "extended session security + key exchange + 128-bit keys, as this client always requests".into(),
        ]
    }
    fn run_case(&mut self, idx: u64) -> Outcome {
        match crate::alloc::exempt(|| self.cases[idx as usize].clone()) {
            Case::Sequence { key, ops, via_handshake } => {
                let k = keys()[key];
                let mut lib = if via_handshake {
                    match lib_ctx_handshake(&k, key % 2 == 1) {
                        Ok(c) => c,
                        Err(e) => return Outcome::fail("error", "handshake-failed", e),
                    }
                } else {
                    lib_ctx(&k)
                };
                let mut ref_c2s = SealCtx::new(&k, true);
                let mut ref_s2c = SealCtx::new(&k, false);
                for (i, op) in ops.iter().enumerate() {
                    match op {
                        Op::Wrap(len) => {
                            let pt = plaintext(*len, i);
                            let want = ref_c2s.wrap(&pt);
                            match lib.gss_wrapex(&pt) {
                                Ok(got) if got == want => {}
                                Ok(got) => {
                                    let sig = if via_handshake { "handshake-context-seals-differently" } else { "wrap-differs-from-ms-nlmp" };
                                    return Outcome::fail("mismatch", sig, format!("op {} wrap({}): got {}.. want {}..", i, len, hex(&got[..got.len().min(24)]), hex(&want[..want.len().min(24)])));
                                }
                                Err(e) => return Outcome::fail("mismatch", "wrap-error", format!("{:?}", e)),
                            }
                        }
                        Op::Unwrap(len) => {
                            let pt = plaintext(*len, i + 100);
                            let sealed = ref_s2c.wrap(&pt);
                            match lib.gss_unwrapex(&sealed) {
                                Ok(got) if got == pt => {}
                                Ok(got) => return Outcome::fail("mismatch", "unwrap-wrong-plaintext", format!("op {} unwrap({}): got {}..", i, len, hex(&got[..got.len().min(16)]))),
                                Err(e) => return Outcome::fail("mismatch", "unwrap-rejects-conforming-peer", format!("op {} unwrap({}): {:?}", i, len, e)),
                            }
                        }
                    }
                }
                Outcome::pass(if via_handshake { "sequence-handshake" } else { "sequence" }, ops.len() >= 2)
            }
            Case::Interleaved { keys: (ka, kb), ops } => {
                let ks = [keys()[ka], keys()[kb]];
                let mut libs = [lib_ctx(&ks[0]), lib_ctx(&ks[1])];
                let mut c2s = [SealCtx::new(&ks[0], true), SealCtx::new(&ks[1], true)];
                let mut s2c = [SealCtx::new(&ks[0], false), SealCtx::new(&ks[1], false)];
                for (i, (c, op)) in ops.iter().enumerate() {
                    let c = *c as usize;
                    match op {
                        Op::Wrap(len) => {
                            let pt = plaintext(*len, i);
                            let want = c2s[c].wrap(&pt);
                            match libs[c].gss_wrapex(&pt) {
                                Ok(got) if got == want => {}
                                Ok(got) => return Outcome::fail("mismatch", "wrap-differs-from-ms-nlmp-with-another-context-alive", format!("op {} context {} wrap({}) after {:?}: got {}.. want {}..", i, c, len, &ops[..i.min(6)], hex(&got[..got.len().min(24)]), hex(&want[..want.len().min(24)]))),
                                Err(e) => return Outcome::fail("mismatch", "wrap-error", format!("{:?}", e)),
                            }
                        }
                        Op::Unwrap(len) => {
                            let pt = plaintext(*len, i + 100);
                            let sealed = s2c[c].wrap(&pt);
                            match libs[c].gss_unwrapex(&sealed) {
                                Ok(got) if got == pt => {}
                                Ok(got) => return Outcome::fail("mismatch", "unwrap-wrong-plaintext", format!("op {} context {} unwrap({}): got {}..", i, c, len, hex(&got[..got.len().min(16)]))),
                                Err(e) => return Outcome::fail("mismatch", "unwrap-rejects-conforming-peer-with-another-context-alive", format!("op {} context {} unwrap({}) after {:?}: {:?}", i, c, len, &ops[..i.min(6)], e)),
                            }
                        }
                    }
                }
                Outcome::pass("interleaved-contexts", true)
            }
            Case::Tamper { key, len, prior, t } => {
                let k = keys()[key];
                let mut lib = lib_ctx(&k);
                let mut ref_s2c = SealCtx::new(&k, false);
                for p in 0..prior {
                    let pt = plaintext(5, p);
                    let sealed = ref_s2c.wrap(&pt);
                    if lib.gss_unwrapex(&sealed).ok() != Some(pt) {
                        return Outcome::fail("mismatch", "unwrap-rejects-conforming-peer", "prior message".to_string());
                    }
                }
                let pt = plaintext(len, 9);
                let honest = ref_s2c.wrap(&pt);
                let mut msg = honest.clone();
                let class;
                match &t {
                    Tamper::Flip(bit) => {
                        msg[bit / 8] ^= 1 << (bit % 8);
                        class = match bit / 8 {
                            0..=3 => "flip-version",
                            4..=11 => "flip-checksum",
                            12..=15 => "flip-seqnum",
                            _ => "flip-ciphertext",
                        };
                    }
                    Tamper::Truncate(n) => {
                        msg.truncate(*n);
                        class = "truncate";
                    }
                    Tamper::Extend(n) => {
                        msg.extend(std::iter::repeat(0x41).take(*n));
                        class = "extend";
                    }
                    Tamper::Reflect => {
                        let mut c2s = SealCtx::new(&k, true);
                        c2s.seq = prior as u32;
                        msg = c2s.wrap(&pt);
                        class = "reflect";
                    }
                    Tamper::Seq(s) => {
                        msg[12..16].copy_from_slice(&s.to_le_bytes());
                        class = "seqnum";
                    }
                }
                if msg == honest {
                    return Outcome::pass("tamper-noop", false);
                }
                // an alteration in a field that can only be judged after decryption (checksum, sequence number, ciphertext; same
                // length as the genuine message) does not take the context out of step with its peer: on a second context that
                // saw the same traffic, the peer's NEXT genuine message still unseals to its plaintext
                if matches!(class, "flip-checksum" | "flip-seqnum" | "flip-ciphertext" | "seqnum") {
                    let mut lib2 = lib_ctx(&k);
                    let mut ref2 = SealCtx::new(&k, false);
                    for p in 0..prior {
                        let _ = lib2.gss_unwrapex(&ref2.wrap(&plaintext(5, p)));
                    }
                    let _ = ref2.wrap(&pt);
                    if lib2.gss_unwrapex(&msg).is_err() {
                        let next_pt = plaintext(len + 1, 12);
                        let next = ref2.wrap(&next_pt);
                        match lib2.gss_unwrapex(&next) {
                            Ok(p) if p == next_pt => {}
                            other => return Outcome::fail("mismatch", format!("genuine-message-refused-after-a-rejected-{}", class), format!("key {} len {} prior {} {:?}: the altered message was refused, then the peer's next genuine message: {}", key, len, prior, t, match other { Ok(p) => format!("wrong plaintext {}..", hex(&p[..p.len().min(16)])), Err(e) => format!("{:?}", e) })),
                        }
                    }
                }
                match lib.gss_unwrapex(&msg) {
                    Err(_) => {
                        // what a peer could send next at this stream position, altered: a message of the same length sealed
                        // with the same sequence number and the continuing key stream, extended by 1 / 3 / 16 bytes, or
                        // cut by one byte — refused whatever the context kept of the forgery
                        let mut again = ref_s2c.clone();
                        again.seq = prior as u32;
                        let next = again.wrap(&plaintext(len, 11));
                        for ext in [1usize, 3, 16] {
                            let mut m = next.clone();
                            m.extend(std::iter::repeat(0x42).take(ext));
                            if let Ok(p) = lib.gss_unwrapex(&m) {
                                return Outcome::fail("mismatch", format!("extended-message-accepted-after-a-rejected-{}", class), format!("key {} len {} prior {} {:?}: after the refusal, a sealed message followed by {} more bytes was accepted, plaintext {}..", key, len, prior, t, ext, hex(&p[..p.len().min(16)])));
                            }
                        }
                        if next.len() > 16 {
                            if let Ok(p) = lib.gss_unwrapex(&next[..next.len() - 1]) {
                                return Outcome::fail("mismatch", format!("truncated-message-accepted-after-a-rejected-{}", class), format!("key {} len {} prior {} {:?}: plaintext {}..", key, len, prior, t, hex(&p[..p.len().min(16)])));
                            }
                        }
                        // the same forgery presented again to the same context is refused again (a refusal must not
                        // teach the context to expect what it just refused)
                        match lib.gss_unwrapex(&msg) {
                            Err(_) => Outcome::pass(format!("rejected-{}", class), true),
                            Ok(p) => Outcome::fail("mismatch", format!("tampered-message-accepted-at-the-second-presentation-{}", class), format!("key {} len {} prior {} {:?}: refused once, then accepted, plaintext {}..", key, len, prior, t, hex(&p[..p.len().min(16)]))),
                        }
                    }
                    Ok(p) => Outcome::fail("mismatch", format!("tampered-message-accepted-{}", class), format!("key {} len {} prior {} {:?}: accepted, plaintext {}..", key, len, prior, t, hex(&p[..p.len().min(16)]))),
                }
            }
        }
    }
}
