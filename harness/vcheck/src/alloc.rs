//! Counting global allocator: per-case peak of live bytes and largest single request.
//! A single request above `HUGE` is journalled and the process exits (attributed to the running case)
//! instead of letting the allocation failure abort anonymously.

use std::alloc::{GlobalAlloc, Layout, System};
use std::sync::atomic::{AtomicPtr, AtomicUsize, Ordering::Relaxed};

pub struct Counting;

static LIVE: AtomicUsize = AtomicUsize::new(0);
static PEAK: AtomicUsize = AtomicUsize::new(0);
static BASE: AtomicUsize = AtomicUsize::new(0);
static MAXREQ: AtomicUsize = AtomicUsize::new(0);
/// journal slot for "huge allocation" (points into the mmap'd journal, or null)
pub static HUGE_SLOT: AtomicPtr<u64> = AtomicPtr::new(std::ptr::null_mut());

/// > 0 while the harness itself allocates for its own bookkeeping (event traces): not charged to the case
static EXEMPT: AtomicUsize = AtomicUsize::new(0);

/// run harness bookkeeping whose allocations must not count as the code under test's
pub fn exempt<T>(f: impl FnOnce() -> T) -> T {
    EXEMPT.fetch_add(1, Relaxed);
    let r = f();
    EXEMPT.fetch_sub(1, Relaxed);
    r
}

pub const HUGE: usize = 1 << 29;
pub const EXIT_HUGE: i32 = 86;

#[inline]
fn on_alloc(size: usize) {
    if EXEMPT.load(Relaxed) > 0 {
        LIVE.fetch_add(size, Relaxed);
        return;
    }
    if size > MAXREQ.load(Relaxed) {
        MAXREQ.store(size, Relaxed);
    }
    if size >= HUGE {
        let p = HUGE_SLOT.load(Relaxed);
        if !p.is_null() {
            unsafe {
                std::ptr::write_volatile(p, size as u64);
                libc::_exit(EXIT_HUGE);
            }
        }
    }
    let live = LIVE.fetch_add(size, Relaxed) + size;
    if live > PEAK.load(Relaxed) {
        PEAK.store(live, Relaxed);
    }
}

unsafe impl GlobalAlloc for Counting {
    unsafe fn alloc(&self, l: Layout) -> *mut u8 {
        on_alloc(l.size());
        System.alloc(l)
    }
    unsafe fn alloc_zeroed(&self, l: Layout) -> *mut u8 {
        on_alloc(l.size());
        System.alloc_zeroed(l)
    }
    unsafe fn dealloc(&self, p: *mut u8, l: Layout) {
        LIVE.fetch_sub(l.size(), Relaxed);
        System.dealloc(p, l)
    }
    unsafe fn realloc(&self, p: *mut u8, l: Layout, new: usize) -> *mut u8 {
        if new > l.size() {
            on_alloc(new - l.size());
            // the request itself is for `new` bytes
            if EXEMPT.load(Relaxed) == 0 && new > MAXREQ.load(Relaxed) {
                MAXREQ.store(new, Relaxed);
            }
            if new >= HUGE && EXEMPT.load(Relaxed) == 0 {
                on_alloc(new);
            }
        } else {
            LIVE.fetch_sub(l.size() - new, Relaxed);
        }
        System.realloc(p, l, new)
    }
}

/// start measuring a case
pub fn reset() {
    let live = LIVE.load(Relaxed);
    BASE.store(live, Relaxed);
    PEAK.store(live, Relaxed);
    MAXREQ.store(0, Relaxed);
}

/// (peak live bytes above the level at reset, largest single request)
pub fn snapshot() -> (usize, usize) {
    (PEAK.load(Relaxed).saturating_sub(BASE.load(Relaxed)), MAXREQ.load(Relaxed))
}
