//! Derive two modules from the CURRENT /repo/src/bin/mstsc-rs.rs (see DESIGN §2.6):
//!  * mstsc_plain.rs   — the file verbatim + a child module exporting the private functions
//!  * mstsc_shuttle.rs — the same with every std::thread / std::sync:: / libc:: path rewritten to shuttle / the fake descriptor
//! If an anchor line is missing the build fails: the check then exits 2 (machinery), it never guesses.
use std::fs;
use std::path::Path;

fn main() {
    // VERIF_REPO: tooling only (a scratch copy of the repository); the registered commands never set it
    println!("cargo:rerun-if-env-changed=VERIF_REPO");
    let src_path = format!("{}/src/bin/mstsc-rs.rs", std::env::var("VERIF_REPO").unwrap_or_else(|_| "/repo".into()));
    let src_path = src_path.as_str();
    println!("cargo:rerun-if-changed={}", src_path);
    let src = fs::read_to_string(src_path).expect("read mstsc-rs.rs");
    let out = std::env::var("OUT_DIR").unwrap();
    let export_plain = r#"

pub mod verif_export {
    use super::*;
    pub fn blit(buffer: &mut Vec<u32>, width: usize, bitmap: BitmapEvent) -> RdpResult<()> {
        super::fast_bitmap_transfer(buffer, width, bitmap)
    }
    /// the socket the GUI client hands to its receive thread, as `main` opens it
    pub fn tcp(args: &ArgMatches) -> RdpResult<TcpStream> {
        super::tcp_from_args(args)
    }
}
"#;
    fs::write(Path::new(&out).join("mstsc_plain.rs"), format!("{}{}", src, export_plain)).unwrap();

    // rewrite the imports of the synchronisation primitives and of the descriptor API by prefix, whatever the
    // imported item list is (a change may add e.g. `timeval` or `Condvar`): std::thread -> shuttle::thread,
    // std::sync -> shuttle::sync, libc -> the modelled descriptor
    // every path through std::thread / std::sync / libc, in `use` lines or written out in the code
    let rules = [("std::thread", "shuttle::thread"), ("std::sync::", "shuttle::sync::"), ("libc::", "crate::fake_fd::")];
    let mut s = src.clone();
    for (from, to) in rules.iter() {
        s = s.replace(from, to);
    }
    // grouped imports (`use std::{thread, sync::{..}}`) are not rewritten by the rules above: refuse to guess
    let grouped = src.lines().any(|l| {
        let t = l.trim_start();
        t.starts_with("use std::{") && (t.contains("thread") || t.contains("sync"))
    });
    if grouped || !s.contains("shuttle::thread") || !s.contains("shuttle::sync::") {
        panic!("VERIF-ANCHOR: mstsc-rs.rs reaches std::thread / std::sync in a way the derived module does not rewrite (grouped import, or no use of them at all)");
    }
    if !s.contains("crate::fake_fd::") {
        panic!("VERIF-ANCHOR: mstsc-rs.rs no longer goes through libc for its descriptor wait");
    }
    let export_shuttle = r#"

pub mod verif_export {
    use super::*;
    pub fn launch<S: 'static + Read + Write + Send>(handle: usize, rdp_client: Arc<Mutex<RdpClient<S>>>, sync: Arc<AtomicBool>, bitmap_channel: Sender<BitmapEvent>) -> RdpResult<JoinHandle<()>> {
        super::launch_rdp_thread(handle, rdp_client, sync, bitmap_channel)
    }
    pub fn wait(fd: usize) -> bool {
        super::wait_for_fd(fd)
    }
}
"#;
    fs::write(Path::new(&out).join("mstsc_shuttle.rs"), format!("{}{}", s, export_shuttle)).unwrap();
}
