//! Reference for the basic security header, Client Info PDU (MS-RDPBCGR 2.2.1.11) and the
//! server licensing PDUs a client must accept (2.2.1.12, MS-RDPELE).

use crate::bytes::*;

pub const SEC_INFO_PKT: u16 = 0x0040;
pub const SEC_LICENSE_PKT: u16 = 0x0080;

pub const INFO_MOUSE: u32 = 0x1;
pub const INFO_AUTOLOGON: u32 = 0x8;
pub const INFO_UNICODE: u32 = 0x10;

#[derive(Clone, Debug, PartialEq, Eq)]
pub struct ExtendedInfo {
    pub address_family: u16,
    pub client_address: String,
    pub client_dir: String,
    pub session_id: u32,
    pub performance_flags: u32,
}

#[derive(Clone, Debug, PartialEq, Eq)]
pub struct ClientInfo {
    pub sec_flags: u16,
    pub sec_flags_hi: u16,
    pub code_page: u32,
    pub flags: u32,
    pub domain: String,
    pub user: String,
    pub password: String,
    pub alternate_shell: String,
    pub working_dir: String,
    pub extended: Option<ExtendedInfo>,
}

fn unicode_z(r: &mut R, cb: usize, what: &str) -> PResult<String> {
    // cb excludes the mandatory 2-byte terminator
    if cb % 2 != 0 {
        return Err(format!("{}: odd byte count {}", what, cb));
    }
    let raw = r.take(cb + 2).map_err(|e| format!("{}: {}", what, e))?;
    if raw[cb] != 0 || raw[cb + 1] != 0 {
        return Err(format!("{}: not NUL terminated", what));
    }
    let units: Vec<u16> = raw[..cb].chunks(2).map(|c| u16::from_le_bytes([c[0], c[1]])).collect();
    if units.contains(&0) {
        return Err(format!("{}: embedded NUL", what));
    }
    String::from_utf16(&units).map_err(|_| format!("{}: invalid UTF-16", what))
}

fn unicode_incl(r: &mut R, cb: usize, what: &str) -> PResult<String> {
    // cb includes the mandatory terminator
    if cb < 2 || cb % 2 != 0 {
        return Err(format!("{}: byte count {} must be even and include the terminator", what, cb));
    }
    let raw = r.take(cb).map_err(|e| format!("{}: {}", what, e))?;
    if raw[cb - 2] != 0 || raw[cb - 1] != 0 {
        return Err(format!("{}: not NUL terminated", what));
    }
    let units: Vec<u16> = raw[..cb - 2].chunks(2).map(|c| u16::from_le_bytes([c[0], c[1]])).collect();
    String::from_utf16(&units).map_err(|_| format!("{}: invalid UTF-16", what))
}

/// strict parse of security header + TS_INFO_PACKET (+ TS_EXTENDED_INFO_PACKET if bytes remain)
pub fn parse_client_info(b: &[u8]) -> PResult<ClientInfo> {
    let mut r = R::new(b);
    let sec_flags = r.u16le()?;
    let sec_flags_hi = r.u16le()?;
    if sec_flags & SEC_INFO_PKT == 0 {
        return Err(format!("Client Info: security flags {:#x} lack SEC_INFO_PKT", sec_flags));
    }
    let code_page = r.u32le()?;
    let flags = r.u32le()?;
    if flags & INFO_UNICODE == 0 {
        return Err("Client Info: only the UNICODE form is supported by this reference".into());
    }
    let cb_domain = r.u16le()? as usize;
    let cb_user = r.u16le()? as usize;
    let cb_password = r.u16le()? as usize;
    let cb_shell = r.u16le()? as usize;
    let cb_dir = r.u16le()? as usize;
    let domain = unicode_z(&mut r, cb_domain, "Domain")?;
    let user = unicode_z(&mut r, cb_user, "UserName")?;
    let password = unicode_z(&mut r, cb_password, "Password")?;
    let alternate_shell = unicode_z(&mut r, cb_shell, "AlternateShell")?;
    let working_dir = unicode_z(&mut r, cb_dir, "WorkingDir")?;
    let extended = if r.at_end() {
        None
    } else {
        let address_family = r.u16le()?;
        if address_family != 2 && address_family != 0x17 && address_family != 0 {
            return Err(format!("extended info: clientAddressFamily {:#x}", address_family));
        }
        let cb_addr = r.u16le()? as usize;
        let client_address = unicode_incl(&mut r, cb_addr, "clientAddress")?;
        let cb_cdir = r.u16le()? as usize;
        let client_dir = unicode_incl(&mut r, cb_cdir, "clientDir")?;
        let _tz = r.take(172).map_err(|e| format!("clientTimeZone: {}", e))?;
        let session_id = r.u32le()?;
        let performance_flags = r.u32le()?;
        if !r.at_end() {
            // cbAutoReconnectCookie + cookie
            let cb = r.u16le()? as usize;
            r.take(cb)?;
            r.expect_end("extended info")?;
        }
        Some(ExtendedInfo { address_family, client_address, client_dir, session_id, performance_flags })
    };
    Ok(ClientInfo { sec_flags, sec_flags_hi, code_page, flags, domain, user, password, alternate_shell, working_dir, extended })
}

// ------------------------------------------------------------------ licensing (server to client)

#[derive(Clone, Debug, PartialEq, Eq, serde::Serialize, serde::Deserialize)]
pub enum Licence {
    /// ERROR_ALERT / STATUS_VALID_CLIENT / ST_NO_TRANSITION, optional error-info blob bytes
    ValidClient { blob: Vec<u8>, blob_type: u16 },
    /// NEW_LICENSE with opaque body
    NewLicense { body: Vec<u8> },
}

pub fn licence_pdu(l: &Licence, preamble_flags: u8) -> Vec<u8> {
    licence_pdu_flags(l, preamble_flags, SEC_LICENSE_PKT)
}

/// the same with the flags of the basic security header chosen (SEC_LICENSE_PKT must be among them;
/// SEC_LICENSE_ENCRYPT_CS 0x0200 commonly is)
pub fn licence_pdu_flags(l: &Licence, preamble_flags: u8, sec_flags: u16) -> Vec<u8> {
    let (ty, body) = match l {
        Licence::ValidClient { blob, blob_type } => {
            let mut w = W::new();
            w.u32le(7).u32le(2).u16le(*blob_type).u16le(blob.len() as u16).bytes(blob);
            (0xffu8, w.done())
        }
        Licence::NewLicense { body } => (0x03u8, body.clone()),
    };
    let mut w = W::new();
    w.u16le(sec_flags).u16le(0);
    w.u8(ty).u8(preamble_flags).u16le((body.len() + 4) as u16).bytes(&body);
    w.done()
}
