//! C06 — hostile server bytes during an active session never crash the client.
//! For each of the six client states (reached by the honest prefix on the raw stack): every kind of
//! server PDU with <=1 deviation (<=2 thorough), and all short strings at the PDU parser entries.

use crate::faults::{self, FaultSpace, Msg};
use crate::fsm;
use crate::peer::apply_dev;
use crate::props::c05::err_class;
use crate::runner::{Outcome, Prop, Tier};
use serde_json::{json, Value};
use vref::fastpath::{self, Rect, Update};
use vref::{framing, mcs, share};

pub struct C06 {
    tier: Tier,
    space: Option<FaultSpace>,
    blocks: Vec<(&'static str, u64)>,
}

impl C06 {
    pub fn new() -> C06 {
        C06 { tier: Tier::Quick, space: None, blocks: vec![] }
    }
}

fn sdi(data: &[u8]) -> Vec<u8> {
    framing::tpkt(&framing::x224_dt(&mcs::send_data_indication(1002, 1003, data)))
}

const SID: u32 = fsm::SHARE_A;

pub fn pdu_kinds() -> Vec<Msg> {
    let cap = share::windows_capture_demand_active();
    let (_, sd, caps, _) = share::parse_demand_active_body(&cap).expect("capture");
    let r1 = Rect { left: 0, top: 0, right: 3, bottom: 1, width: 4, height: 2, bpp: 16, flags: 0, data: vec![7; 16] };
    let r2 = Rect { left: 4, top: 4, right: 5, bottom: 4, width: 2, height: 1, bpp: 32, flags: 1, data: vec![0x10, 0x20, 1, 0x20, 2, 0x20, 3, 0x20, 4] };
    let two_pdus = {
        // two share-control PDUs in one TPKT (the Data-state reader loops over them)
        let a = share::set_error_info(SID, 1002, 1);
        let b = share::synchronize(SID, 1002, 1007);
        sdi(&[a, b].concat())
    };
    let play_sound = {
        let mut w = vref::bytes::W::new();
        w.u32le(440).u32le(100);
        sdi(&share::share_data(SID, 1002, share::PDUTYPE2_PLAY_SOUND, &w.0))
    };
    vec![
        Msg { name: "demand-active(windows)".into(), honest: sdi(&share::demand_active(SID, 1002, &sd, &caps, 0)) },
        Msg { name: "demand-active(minimal)".into(), honest: sdi(&share::demand_active(SID, 1002, b"RDP\0", &share::minimal_caps(), 0)) },
        Msg { name: "deactivate-all".into(), honest: sdi(&share::deactivate_all(SID, 1002)) },
        Msg { name: "synchronize".into(), honest: sdi(&share::synchronize(SID, 1002, 1007)) },
        Msg { name: "control".into(), honest: sdi(&share::control(SID, 1002, share::CTRLACTION_COOPERATE, 0, 0)) },
        Msg { name: "font-map".into(), honest: sdi(&share::font_map(SID, 1002)) },
        Msg { name: "set-error-info".into(), honest: sdi(&share::set_error_info(SID, 1002, 0)) },
        Msg { name: "play-sound(unknown)".into(), honest: play_sound },
        Msg { name: "two-pdus-in-one-frame".into(), honest: two_pdus },
        Msg { name: "confirm-active(sent-by-server)".into(), honest: {
            // a PDU kind a server never sends, but that the client's share-control parser knows
            let caps: Vec<u8> = share::minimal_caps().iter().flat_map(share::cap_bytes).collect();
            let mut w = vref::bytes::W::new();
            w.u32le(SID).u16le(0x03EA).u16le(4).u16le((caps.len() + 4) as u16).bytes(b"RDP\0").u16le(1).u16le(0).bytes(&caps);
            sdi(&share::share_control(share::PDUTYPE_CONFIRMACTIVE, 1002, &w.0))
        } },
        Msg { name: "fp-bitmap".into(), honest: framing::fastpath(0, &fastpath::updates_payload(&[Update::Bitmap(vec![r1, r2])]), false) },
        Msg { name: "fp-pointers".into(), honest: framing::fastpath(0, &fastpath::updates_payload(&[fastpath::other_update(fastpath::UPD_COLOR), fastpath::other_update(fastpath::UPD_PTR_POSITION), fastpath::other_update(fastpath::UPD_SYNCHRONIZE), fastpath::other_update(fastpath::UPD_PTR_NULL)]), false) },
        Msg { name: "fp-unknown".into(), honest: framing::fastpath(0, &fastpath::updates_payload(&[fastpath::other_update(0xC), fastpath::other_update(fastpath::UPD_ORDERS), fastpath::other_update(fastpath::UPD_POINTER)]), true) },
    ]
}

const PREFIX: [usize; 5] = [0, 2, 3, 4, 6];

/// well-formed share PDUs (not yet wrapped in a send-data indication) for the "frame-pairs" block
fn inner_pdus() -> Vec<(&'static str, Vec<u8>)> {
    let play_sound = {
        let mut w = vref::bytes::W::new();
        w.u32le(440).u32le(100);
        share::share_data(SID, 1002, share::PDUTYPE2_PLAY_SOUND, &w.0)
    };
    vec![
        ("demand-active", share::demand_active(SID, 1002, b"RDP\0", &share::minimal_caps(), 0)),
        ("demand-active(other share)", share::demand_active(fsm::SHARE_B, 1002, b"RDP\0", &share::minimal_caps(), 0)),
        ("deactivate-all", share::deactivate_all(SID, 1002)),
        ("synchronize", share::synchronize(SID, 1002, 1007)),
        ("control-cooperate", share::control(SID, 1002, share::CTRLACTION_COOPERATE, 0, 0)),
        ("control-granted", share::control(SID, 1002, share::CTRLACTION_GRANTED_CONTROL, 1007, 0x03EA)),
        ("font-map", share::font_map(SID, 1002)),
        ("set-error-info", share::set_error_info(SID, 1002, 0)),
        ("set-error-info(other share)", share::set_error_info(fsm::SHARE_B, 1002, 0)),
        ("play-sound", play_sound),
    ]
}

/// well-formed but unusual frames (every length / count field consistent) that single byte-level faults do not
/// reach: (description, frame)
fn structured_frames() -> Vec<(String, Vec<u8>)> {
    use vref::bytes::W;
    let mut v: Vec<(String, Vec<u8>)> = vec![];
    // share control: every PDU type (low 4 bits) x version bits x body length
    for ty in 0..16u16 {
        for hi in [0x10u16, 0x00, 0xFFF0] {
            for blen in [0usize, 4, 14, 40] {
                let mut body = W::new();
                body.u32le(SID).bytes(&vec![0u8; blen.saturating_sub(4).min(blen)]);
                let b: Vec<u8> = body.done().into_iter().take(blen).collect();
                v.push((format!("share control type {:#x} body {}", ty | hi, blen), sdi(&share::share_control(ty | hi, 1002, &b))));
            }
        }
    }
    // share data: every pduType2 x payload length x compression / stream bytes, lengths consistent
    for ty2 in 0..=0x40u8 {
        for plen in [0usize, 4, 8, 12] {
            v.push((format!("share data pduType2 {:#x} payload {}", ty2, plen), sdi(&share::share_data(SID, 1002, ty2, &vec![0x01; plen]))));
        }
    }
    // every prefix of the honest body of the data PDUs the client parses (trailing fields absent, lengths consistent),
    // and every pduType2 with 1..3 payload bytes
    for (name, ty2, body) in [
        ("synchronize", 0x1Fu8, vec![0x01u8, 0x00, 0xEA, 0x03]),
        ("control", 0x14, vec![0x04, 0x00, 0x00, 0x00, 0x00, 0x00, 0x00, 0x00]),
        ("control granted", 0x14, vec![0x02, 0x00, 0xEF, 0x03, 0xEA, 0x03, 0x00, 0x00]),
        ("font map", 0x28, vec![0x00, 0x00, 0x00, 0x00, 0x03, 0x00, 0x04, 0x00]),
        ("set error info", 0x2F, vec![0x05, 0x00, 0x00, 0x00]),
    ] {
        for n in 0..=body.len() {
            v.push((format!("{} PDU with the first {} of its {} body bytes", name, n, body.len()), sdi(&share::share_data(SID, 1002, ty2, &body[..n]))));
        }
    }
    for ty2 in 0..=0x40u8 {
        for plen in [1usize, 2, 3] {
            v.push((format!("share data pduType2 {:#x} payload {}", ty2, plen), sdi(&share::share_data(SID, 1002, ty2, &vec![0x01; plen]))));
        }
    }
    // TPKT frames whose body is shorter than an X.224 data header + one MCS byte: every X.224 code byte behind
    // several length indicators, followed by 0..4 more bytes; every one-byte body; the empty body is block inner-frame's
    for code in 0..=255u8 {
        for li in [0x02u8, 0x06, 0x00, 0xFF] {
            for more in 0..=4usize {
                if li != 2 && more % 2 == 1 {
                    continue;
                }
                let mut body = vec![li, code];
                body.extend(std::iter::repeat(0x80).take(more));
                v.push((format!("TPKT body LI {:#x} code {:#x} + {} bytes", li, code, more), framing::tpkt(&body)));
            }
        }
        v.push((format!("TPKT body of the single byte {:#x}", code), framing::tpkt(&[code])));
    }
    for (stream, ctype, clen) in [(0u8, 0u8, 0u16), (1, 0x20, 4), (2, 0x61, 0xFFFF), (4, 0xFF, 1)] {
        let mut w = W::new();
        w.u32le(SID).u8(0).u8(stream).u16le(4 + 18).u8(share::PDUTYPE2_PLAY_SOUND).u8(ctype).u16le(clen).bytes(&[1, 2, 3, 4]);
        v.push((format!("share data stream {} compression {:#x} compressedLength {}", stream, ctype, clen), sdi(&share::share_control(share::PDUTYPE_DATA, 1002, &w.0))));
    }
    // the same for every data PDU the client parses (and two it does not), with its honest payload: compression type byte x
    // compressedLength (the two fields together decide how much of the PDU a decompressing reader would look at)
    for (t2, payload) in [(0x1Fu8, vec![1u8, 0, 0xEA, 0x03]), (0x14, vec![4, 0, 0, 0, 0, 0, 0, 0]), (0x28, vec![0, 0, 0, 0, 3, 0, 4, 0]), (0x2F, vec![0, 0, 0, 0]), (0x27, vec![0, 0, 0, 0, 3, 0, 50, 0]), (0x26, vec![2, 0, 0, 0]), (0x02, vec![1, 0, 0, 0])] {
        for ctype in [0x20u8, 0x21, 0x61, 0xA0, 0xFF] {
            for clen in [0u16, 4, 17, 18, 19, 22, 23, 26, 27, 100, 0x7FFF, 0x8000, 0xFFFF] {
                let mut w = W::new();
                w.u32le(SID).u8(0).u8(1).u16le(payload.len() as u16 + 18).u8(t2).u8(ctype).u16le(clen).bytes(&payload);
                v.push((format!("share data pduType2 {:#x} compression {:#x} compressedLength {}", t2, ctype, clen), sdi(&share::share_control(share::PDUTYPE_DATA, 1002, &w.0))));
            }
        }
    }
    // demand-active: one capability of every type x body length; count one more / one less than present; no capability
    for ty in (1..=0x1Eu16).chain([0u16, 0x1F, 0xFF, 0xFFFF]) {
        for blen in [0usize, 4, 8, 84] {
            let mut caps = share::minimal_caps();
            caps.insert(1, share::CapSet { ty, body: vec![0x11; blen] });
            v.push((format!("demand-active with capability type {:#x} body {}", ty, blen), sdi(&share::demand_active(SID, 1002, b"RDP\0", &caps, 0))));
        }
    }
    // every data PDU the client parses, each 16-bit word of its payload set to 0 / 0x7FFF / 0xFFFF in every combination
    // (two counters multiplied with each other need two faults at once)
    for (t2, words) in [(0x1Fu8, 2usize), (0x14, 4), (0x28, 4), (0x2F, 2), (0x27, 4)] {
        let n = 3usize.pow(words as u32);
        for combo in 0..n {
            let mut c = combo;
            let mut payload = vec![];
            for _ in 0..words {
                payload.extend([0u16, 0x7FFF, 0xFFFF][c % 3].to_le_bytes());
                c /= 3;
            }
            v.push((format!("share data pduType2 {:#x} with payload words {}", t2, vref::bytes::hex(&payload)), sdi(&share::share_data(SID, 1002, t2, &payload))));
        }
    }
    // capability bodies may hold text (the IME file name of the input capability, ...): bodies made of UTF-16 units that are
    // not text (lone surrogates, reversed pairs), of valid pairs, of 0xFF / 0x80 fills, in the places of a real list too
    for ty in 1..=0x1Eu16 {
        for blen in [8usize, 24, 84, 88] {
            for (fname, unit) in [("lone high surrogates", vec![0x00u8, 0xD8]), ("lone low surrogates", vec![0x00, 0xDC]), ("A, lone surrogate, B", vec![0x41, 0x00, 0x00, 0xD8, 0x42, 0x00]), ("reversed pairs", vec![0x00, 0xDC, 0x00, 0xD8]), ("valid pairs", vec![0x3D, 0xD8, 0x00, 0xDE]), ("0xD8 fill", vec![0xD8])] {
                let body: Vec<u8> = unit.iter().cycle().take(blen).copied().collect();
                // (a) alone next to the minimal list, (b) in the place of the same type inside the Windows list, keeping its first
                // 20 bytes (the numeric fields in front of the text of the input capability)
                let mut caps = share::minimal_caps();
                caps.insert(1, share::CapSet { ty, body: body.clone() });
                v.push((format!("demand-active with capability type {:#x} body {} of {}", ty, blen, fname), sdi(&share::demand_active(SID, 1002, b"RDP\0", &caps, 0))));
                if blen == 84 {
                    let mut wcaps = share::parse_demand_active_body(&share::windows_capture_demand_active()).expect("embedded capture").2;
                    for c in wcaps.iter_mut().filter(|c| c.ty == ty && c.body.len() > 20) {
                        let n = c.body.len();
                        let tail: Vec<u8> = unit.iter().cycle().take(n - 20).copied().collect();
                        c.body[20..].copy_from_slice(&tail);
                    }
                    v.push((format!("Windows demand-active whose capability type {:#x} holds {} after its first 20 bytes", ty, fname), sdi(&share::demand_active(SID, 1002, b"RDP\0", &wcaps, 0))));
                }
            }
        }
    }
    for (delta, name) in [(1i32, "one more"), (-1, "one less"), (100, "a hundred more")] {
        let caps = share::minimal_caps();
        let capbytes: Vec<u8> = caps.iter().flat_map(share::cap_bytes).collect();
        let mut w = W::new();
        w.u32le(SID).u16le(4).u16le((capbytes.len() + 4) as u16).bytes(b"RDP\0").u16le((caps.len() as i32 + delta) as u16).u16le(0).bytes(&capbytes).u32le(0);
        v.push((format!("demand-active announcing {} capability than present", name), sdi(&share::share_control(share::PDUTYPE_DEMANDACTIVE, 1002, &w.0))));
    }
    // source descriptor: lengths around 16 / 32 / 64 x content (ASCII, Latin-1, 2/3/4-byte UTF-8 at every alignment, invalid UTF-8)
    for len in [0usize, 1, 3, 14, 15, 16, 17, 18, 19, 20, 31, 32, 33, 63, 64, 65, 255, 256, 300] {
        let fills: [(&str, Vec<u8>); 7] = [
            ("ascii", vec![0x41]),
            ("latin-1", vec![0xE9]),
            ("2-byte utf-8", "é".as_bytes().to_vec()),
            ("3-byte utf-8", "日".as_bytes().to_vec()),
            ("4-byte utf-8", "😀".as_bytes().to_vec()),
            ("invalid utf-8", vec![0xFF, 0xC0, 0x80]),
            ("utf-16", vec![0x52, 0x00, 0x44, 0xD8]),
        ];
        for (name, unit) in fills.iter() {
            for shift in 0..unit.len().min(3) {
                let mut sd: Vec<u8> = std::iter::repeat(0x61).take(shift).chain(unit.iter().cycle().copied()).take(len).collect();
                if len > 0 && shift == 0 {
                    let last = sd.len() - 1;
                    sd[last] = 0;
                }
                v.push((format!("demand-active source descriptor of {} bytes, {} shifted by {}", len, name, shift), sdi(&share::demand_active(SID, 1002, &sd, &share::minimal_caps(), 0))));
            }
        }
    }
    v.push(("demand-active without any capability".into(), sdi(&share::demand_active(SID, 1002, b"", &[], 0))));
    v.push(("demand-active with 2000 capabilities".into(), sdi(&share::demand_active(SID, 1002, b"RDP\0", &vec![share::CapSet { ty: 0x0E, body: vec![0; 4] }; 2000], 0))));
    // MCS: every domain PDU choice with a short body; every disconnect reason; indications on other channels / from other users
    for choice in 0..64u8 {
        for body in [&[][..], &[0x00][..], &[0x80, 0x00, 0x00, 0x00, 0x00, 0x00][..]] {
            v.push((format!("MCS domain PDU choice {} body {}", choice, body.len()), framing::tpkt(&framing::x224_dt(&[&[choice << 2][..], body].concat()))));
        }
    }
    for reason in 0..8u8 {
        v.push((format!("disconnect ultimatum reason {}", reason), framing::tpkt(&framing::x224_dt(&mcs::disconnect_provider_ultimatum(reason)))));
    }
    for (init, ch) in [(1002u16, 1004u16), (1002, 0), (1002, 65535), (1001, 1003), (65535, 1003), (1007, 1007)] {
        v.push((format!("send-data indication initiator {} channel {}", init, ch), framing::tpkt(&framing::x224_dt(&mcs::send_data_indication(init, ch, &share::set_error_info(SID, 1002, 0))))));
    }
    // fast-path: every update code x fragmentation x compression bit, size field consistent; rectangle counts vs present
    for code in 0..16u8 {
        for frag in 0..4u8 {
            for comp in [0u8, 2] {
                for blen in [0usize, 2, 4, 30] {
                    let mut w = W::new();
                    w.u8(code | (frag << 4) | (comp << 6));
                    if comp != 0 {
                        w.u8(0x21);
                    }
                    w.u16le(blen as u16).bytes(&vec![0x02; blen]);
                    v.push((format!("fast-path update code {} fragmentation {} compression {} body {}", code, frag, comp, blen), framing::fastpath(0, &w.0, false)));
                    // the same under the security flags of the fast-path header (secure checksum, encrypted, both)
                    if frag == 0 {
                        for first in [0x40u8, 0x80, 0xC0] {
                            v.push((format!("fast-path header {:#04x} update code {} compression {} body {}", first, code, comp, blen), framing::fastpath(first, &w.0, blen == 30)));
                        }
                    }
                }
            }
        }
    }
    for announced in [0u16, 1, 2, 3, 100, 0xFFFF] {
        let r = Rect { left: 0, top: 0, right: 1, bottom: 0, width: 2, height: 1, bpp: 16, flags: 0, data: vec![1, 2, 3, 4] };
        let mut body = W::new();
        body.u16le(1).u16le(announced).bytes(&r.bytes()).bytes(&r.bytes());
        let mut w = W::new();
        w.u8(1).u16le(body.0.len() as u16).bytes(&body.0);
        v.push((format!("fast-path bitmap update announcing {} rectangles, 2 present", announced), framing::fastpath(0, &w.0, false)));
    }
    v
}

/// what the server sends after the hostile frame: the rest of an honest activation from the state the case started
/// in, then output and data PDUs — a fault that was tolerated must not blow up later
fn aftermath(l: &mut fsm::Live, state: u8) {
    let mut tail: Vec<Vec<u8>> = PREFIX.iter().skip(state as usize).map(|ev| fsm::event_frame(*ev, SID)).collect();
    tail.push(fsm::event_frame(10, SID));
    tail.push(sdi(&share::set_error_info(SID, 1002, 0)));
    tail.push(fsm::event_frame(11, SID));
    for f in tail {
        l.sh.borrow_mut().push_to_client(&f);
        let _ = l.client.read(|_| {});
        l.sh.borrow_mut().to_client.clear();
        let _ = l.client.try_write(rdp::core::event::RdpEvent::Pointer(rdp::core::event::PointerEvent { x: 1, y: 1, button: rdp::core::event::PointerButton::None, down: false }));
    }
}

/// long-lived sessions: totality is about every state the client can be in, and some states are only reached late
const N_LONG: u64 = 8;
const LONG_NAMES: [&str; 8] = [
    "400 frames of PDUs the active client ignores (unknown data PDUs, Set Error Info, other share-control types, a data PDU cut short), one per frame",
    "one frame packing 400, then one packing 1400 Set Error Info PDUs",
    "re-activations whose demand-active announces fewer, other, no, then all capability sets",
    "100 000 send-data indications on the user channel, queued at once",
    "70 000 send-data indications on a channel that was never joined and from another initiator",
    "300 re-activations rotating four capability lists",
    "2 000 fast-path frames with unknown update codes / empty payloads between bitmap updates",
    "re-activations (same / fewer / more capability sets) during which the transport refuses one write of the client's answer, at every position of the burst and with three error kinds; the server then sends its demand-active again and completes the activation",
];

fn run_long(k: u64) -> Outcome {
    let mut l = match fsm::fresh() {
        Ok(l) => l,
        Err(e) => return Outcome::fail("setup", "honest-connect-failed", e),
    };
    for ev in PREFIX.iter() {
        if let Err(e) = fsm::step(&mut l, *ev) {
            return Outcome::fail("setup", "honest-prefix-failed", format!("{} {}", e.0, e.1));
        }
    }
    fn feed(l: &mut fsm::Live, f: &[u8]) {
        l.sh.borrow_mut().push_to_client(f);
        let mut n = 0;
        while !l.sh.borrow().to_client.is_empty() && n < 4 {
            let _ = l.client.read(|_| {});
            n += 1;
        }
        l.sh.borrow_mut().to_client.clear();
    }
    let windows_caps = share::parse_demand_active_body(&share::windows_capture_demand_active()).expect("embedded capture").2;
    let activation = |l: &mut fsm::Live, caps: &[share::CapSet]| {
        feed(l, &sdi(&share::deactivate_all(SID, 1002)));
        feed(l, &sdi(&share::demand_active(SID, 1002, b"RDP\0", caps, 0)));
        for ev in [2usize, 3, 4, 6] {
            feed(l, &fsm::event_frame(ev, SID));
        }
        let _ = l.client.try_write(rdp::core::event::RdpEvent::Pointer(rdp::core::event::PointerEvent { x: 2, y: 3, button: rdp::core::event::PointerButton::None, down: false }));
    };
    match k {
        0 => {
            let kinds: Vec<Vec<u8>> = vec![
                sdi(&share::set_error_info(SID, 1002, 0)),
                sdi(&share::share_data(SID, 1002, 0x2F, &[1, 2, 3, 4])),
                sdi(&share::share_control(0x13, 1002, &[0; 8])),
                sdi(&share::share_data(SID, 1002, 0x26, &[2, 0])),
                sdi(&share::share_data(SID, 1002, 0x1B, &[])),
                {
                    let mut cut = share::set_error_info(SID, 1002, 5);
                    cut.truncate(cut.len() - 3);
                    let n = cut.len() as u16;
                    cut[0..2].copy_from_slice(&n.to_le_bytes());
                    sdi(&cut)
                },
            ];
            for i in 0..400 {
                feed(&mut l, &kinds[i % kinds.len()]);
                if i % 50 == 49 {
                    feed(&mut l, &fsm::event_frame(10, SID));
                }
            }
        }
        1 => {
            for n in [400usize, 1400] {
                let body: Vec<u8> = (0..n).flat_map(|i| share::set_error_info(SID, 1002, (i % 3) as u32)).collect();
                feed(&mut l, &sdi(&body));
            }
        }
        2 => {
            let fewer: Vec<share::CapSet> = windows_caps.iter().take(3).cloned().collect();
            let other: Vec<share::CapSet> = windows_caps.iter().rev().take(5).cloned().collect();
            for caps in [windows_caps.clone(), fewer, other, vec![], share::minimal_caps(), windows_caps.clone(), windows_caps.iter().step_by(2).cloned().collect()] {
                activation(&mut l, &caps);
            }
        }
        3 | 4 => {
            let (count, initiator, channel) = if k == 3 { (100_000usize, 1002u16, 1007u16) } else { (70_000, 1005, 1009) };
            let one = framing::tpkt(&framing::x224_dt(&vref::mcs::send_data_indication(initiator, channel, &[0x41])));
            let all: Vec<u8> = crate::alloc::exempt(|| one.iter().cycle().take(one.len() * count).copied().collect());
            l.sh.borrow_mut().push_to_client(&all);
            let mut n = 0;
            while !l.sh.borrow().to_client.is_empty() && n < count + 100 {
                let _ = l.client.read(|_| {});
                n += 1;
            }
            l.sh.borrow_mut().to_client.clear();
        }
        5 => {
            let lists = [windows_caps.clone(), share::minimal_caps(), windows_caps.iter().take(7).cloned().collect::<Vec<_>>(), vec![]];
            for i in 0..300 {
                activation(&mut l, &lists[i % 4]);
            }
        }
        7 => {
            let fewer: Vec<share::CapSet> = windows_caps.iter().take(3).cloned().collect();
            let lists = [windows_caps.clone(), fewer, share::minimal_caps(), vec![], windows_caps.clone()];
            let mut round = 0usize;
            for caps in lists.iter() {
                for fail_after in [0usize, 1, 20, 60, 120, 200, 300, 400, 450, 500] {
                    feed(&mut l, &sdi(&share::deactivate_all(SID, 1002)));
                    {
                        // one refused write, `fail_after` bytes into whatever the client writes next
                        let mut sh = l.sh.borrow_mut();
                        let pos = sh.from_client.len() + fail_after;
                        sh.write_seq_pos = 0;
                        sh.write_plan = crate::memlink::WritePlan::ErrOnceAt { pos, kind: [std::io::ErrorKind::WouldBlock, std::io::ErrorKind::BrokenPipe, std::io::ErrorKind::Other][round % 3] };
                    }
                    let da = sdi(&share::demand_active(SID, 1002, b"RDP\0", caps, 0));
                    feed(&mut l, &da);
                    // the server got no (complete) answer: it asks again, then plays the rest
                    feed(&mut l, &da);
                    for ev in [2usize, 3, 4, 6] {
                        feed(&mut l, &fsm::event_frame(ev, SID));
                    }
                    l.sh.borrow_mut().write_plan = crate::memlink::WritePlan::All;
                    let _ = l.client.try_write(rdp::core::event::RdpEvent::Pointer(rdp::core::event::PointerEvent { x: 2, y: 3, button: rdp::core::event::PointerButton::None, down: false }));
                    feed(&mut l, &fsm::event_frame(10, SID));
                    round += 1;
                }
                // and a clean re-activation in between
                activation(&mut l, caps);
            }
        }
        _ => {
            for i in 0..2000usize {
                let f = match i % 4 {
                    0 => framing::fastpath(0, &[], i % 8 == 0),
                    1 => framing::fastpath(0, &vref::fastpath::updates_payload(&[vref::fastpath::other_update((2 + i % 14) as u8)]), false),
                    2 => framing::fastpath(0, &[0x0F, 0x00, 0x00], false),
                    _ => fsm::event_frame(10, SID),
                };
                feed(&mut l, &f);
            }
        }
    }
    aftermath(&mut l, 5);
    Outcome::pass(format!("long-lived:{}", k), true)
}

impl C06 {
    fn locate(&self, idx: u64) -> (&'static str, u64) {
        let mut i = idx;
        for (n, c) in &self.blocks {
            if i < *c {
                return (n, i);
            }
            i -= c;
        }
        unreachable!()
    }
    /// string set per (block, state): in thorough the 3-byte strings go to the Data state (and state 0 for the
    /// share-control entry); the other states get all <=2-byte strings and the 6-letter alphabet strings
    fn strs(&self, block: &str, state: u8) -> faults::Strs {
        if self.tier == Tier::Quick {
            // every string of length <= 2, and of length 3..4 over the 8-letter alphabet
            return faults::Strs { short: 2, alpha: 4 };
        }
        faults::Strs::for_tier(self.tier, state == 5 || (block == "inner-slow" && state == 0))
    }
    fn states_of(&self, block: &str) -> Vec<u8> {
        match block {
            "inner-slow" => self.slow_states(),
            "inner-mcs" => vec![0, 5],
            "inner-fast" => vec![5, 0, 2],
            _ => vec![5, 0],
        }
    }
    fn block_count(&self, block: &str) -> u64 {
        self.states_of(block).iter().map(|s| self.strs(block, *s).count()).sum()
    }
    fn block_case(&self, block: &str, mut i: u64) -> (u8, Vec<u8>) {
        for st in self.states_of(block) {
            let s = self.strs(block, st);
            if i < s.count() {
                return (st, s.get(i));
            }
            i -= s.count();
        }
        unreachable!()
    }
    fn slow_states(&self) -> Vec<u8> {
        if self.tier == Tier::Quick {
            vec![0, 1, 5]
        } else {
            vec![0, 1, 2, 3, 4, 5]
        }
    }
    /// -> (state, frame bytes, description, whether the deviation changed the frame)
    fn decode(&self, idx: u64) -> (u8, Vec<u8>, Value, bool) {
        let fs = self.space.as_ref().unwrap();
        let (b, i) = self.locate(idx);
        match b {
            "single" => {
                let per = fs.total();
                let state = (i / per) as u8;
                let (mi, d) = fs.get(i % per);
                let mut bytes = fs.msgs[mi].honest.clone();
                let changed = apply_dev(&mut bytes, &d.kind);
                (state, bytes, json!({"block": b, "state": state, "pdu": d.msg, "deviation": d.kind}), changed)
            }
            "pairs" => {
                let n = fs.reduced_count();
                let states = [0u8, 5];
                let state = states[(i / (n * n)) as usize];
                let r = i % (n * n);
                let d1 = fs.reduced_get(r / n);
                let d2 = fs.reduced_get(r % n);
                if d1.msg != d2.msg {
                    // deviations in two different PDUs: deliver the second PDU after the first (handled by the runner as two frames)
                    let mut b1 = fs.msgs.iter().find(|m| m.name == d1.msg).unwrap().honest.clone();
                    let mut b2 = fs.msgs.iter().find(|m| m.name == d2.msg).unwrap().honest.clone();
                    let c1 = apply_dev(&mut b1, &d1.kind);
                    let c2 = apply_dev(&mut b2, &d2.kind);
                    b1.extend(b2);
                    return (state, b1, json!({"block": b, "state": state, "deviations": [d1, d2], "two_frames": true}), c1 && c2);
                }
                let mut bytes = fs.msgs.iter().find(|m| m.name == d1.msg).unwrap().honest.clone();
                let c1 = apply_dev(&mut bytes, &d1.kind);
                let c2 = apply_dev(&mut bytes, &d2.kind);
                (state, bytes, json!({"block": b, "state": state, "deviations": [d1, d2]}), c1 && c2)
            }
            "structured" => {
                let sv = structured_frames();
                let n = sv.len() as u64;
                let state = (i / n) as u8;
                let (d, f) = sv[(i % n) as usize].clone();
                (state, f, json!({"block": b, "state": state, "frame": d}), true)
            }
            "frame-pairs" => {
                let pd = inner_pdus();
                let n = pd.len() as u64;
                let state = (i / (n * n)) as u8;
                let r = i % (n * n);
                let (a, c) = (&pd[(r / n) as usize], &pd[(r % n) as usize]);
                (state, sdi(&[a.1.clone(), c.1.clone()].concat()), json!({"block": b, "state": state, "two_share_pdus_in_one_frame": [a.0, c.0]}), true)
            }
            "inner-slow" => {
                let (state, s) = self.block_case(b, i);
                (state, sdi(&s), json!({"block": b, "state": state, "share_control_level_bytes": vref::bytes::hex(&s)}), true)
            }
            "inner-mcs" => {
                let (state, s) = self.block_case(b, i);
                (state, framing::tpkt(&framing::x224_dt(&s)), json!({"block": b, "state": state, "mcs_level_bytes": vref::bytes::hex(&s)}), true)
            }
            "inner-frame" => {
                let (state, s) = self.block_case(b, i);
                (state, s.clone(), json!({"block": b, "state": state, "raw_frame_bytes": vref::bytes::hex(&s)}), true)
            }
            "inner-fast" => {
                let (state, s) = self.block_case(b, i);
                (state, framing::fastpath(0, &s, false), json!({"block": b, "state": state, "fast_path_payload": vref::bytes::hex(&s)}), true)
            }
            _ => unreachable!(),
        }
    }
}

impl Prop for C06 {
    fn id(&self) -> &'static str {
        "C06"
    }
    fn level(&self) -> &'static str {
        "fault_enumeration"
    }
    fn prepare(&mut self, tier: Tier) -> Result<(), String> {
        self.tier = tier;
        // the honest prefix must really drive the client through the six states
        let mut l = fsm::fresh()?;
        for (k, ev) in PREFIX.iter().enumerate() {
            let key = fsm::step(&mut l, *ev).map_err(|e| format!("honest prefix step {}: {} {}", k, e.0, e.1))?;
            if key.impl_state != k as u8 + 1 {
                return Err(format!("honest prefix: state {} after step {}", key.impl_state, k));
            }
        }
        let fs = FaultSpace::new(pdu_kinds(), tier);
        let mut blocks = vec![("single", 6 * fs.total()), ("inner-slow", self.block_count("inner-slow")), ("inner-mcs", self.block_count("inner-mcs")), ("inner-fast", self.block_count("inner-fast")), ("inner-frame", self.block_count("inner-frame")), ("frame-pairs", 6 * (inner_pdus().len() * inner_pdus().len()) as u64), ("structured", 6 * structured_frames().len() as u64), ("long-lived", N_LONG)];
        if tier == Tier::Thorough {
            let r = fs.reduced_count();
            blocks.push(("pairs", 2 * r * r));
        }
        self.space = Some(fs);
        self.blocks = blocks;
        Ok(())
    }
    fn n_cases(&self) -> u64 {
        self.blocks.iter().map(|b| b.1).sum()
    }
    fn describe(&self, idx: u64) -> Value {
        if let ("long-lived", k) = self.locate(idx) {
            return json!({"idx": idx, "block": "long-lived", "session": LONG_NAMES[k as usize]});
        }
        let (_s, bytes, mut d, _c) = self.decode(idx);
        d["idx"] = json!(idx);
        d["frame_hex"] = json!(vref::bytes::hex(&bytes[..bytes.len().min(96)]));
        d
    }
    fn rule(&self) -> String {
        "cases = (client state 0..5 reached by the honest activation prefix of a client configured, in rotation, 800x600 / 65535x65535 with a 30-byte name / 0x0 without a name / 65533x1, one server frame with <=1 deviation (<=2 thorough)). PDU kinds: demand-active (Windows capability list and minimal), deactivate-all, synchronize, control, font-map, set-error-info, an unparsed data PDU, two share PDUs in one frame, a confirm-active sent by the server, fast-path bitmap (raw + compressed-with-header rectangles), fast-path pointer/synchronize updates, unknown fast-path codes. Deviations: every byte offset x value set (12 boundary values + honest+-1; all 256 in thorough), every offset as 16/32-bit field in both byte orders x boundary set, every truncation, extensions {+1,+2,+1500}; [inner-*] every byte string of length <=2 (<=3 in thorough for the Data state, and state 0 at the share-control entry) and every string of length 3..4 (..6 in thorough) over 8 boundary bytes at the MCS, share-control (states 0,1,5 in quick, all six in thorough) and fast-path parser entries, and as raw unframed bytes at the frame reader; [pairs, thorough] all pairs of {byte:=00, byte:=FF, truncate} over all offsets, in states 0 and 5. [structured] well-formed frames with consistent length fields in each of the six states: every share-control type x version bits x body length, every pduType2 0..0x40 x payload length 0..12, every prefix of the honest body of each data PDU the client parses, every combination of {0, 0x7FFF, 0xFFFF} over the 16-bit words of those bodies, TPKT frames whose body is 1..6 bytes long (every X.224 code byte behind 4 length indicators), compression / stream bytes (for every parsed data PDU: 5 compression-type bytes x 13 compressedLength values), a demand-active carrying a capability of every type 0..0x1F, 0xFF, 0xFFFF x body length, capability bodies made of UTF-16 units that are not text (lone / reversed surrogates, 0xD8 fills) alone and inside the Windows list, source descriptors of 0..300 bytes in ASCII / Latin-1 / 2-3-4-byte UTF-8 at every alignment / invalid UTF-8 / UTF-16, capability counts off by +-1 / +100, no and 2000 capabilities, every MCS domain-PDU choice 0..63, every disconnect reason, indications on other channels / from other users, every fast-path update code x fragmentation x compression bit x body length (also under the header's secure-checksum / encrypted flags), rectangle counts 0..0xFFFF against two present; [frame-pairs] every ordered pair of 10 well-formed share PDUs in one frame, in each of the six states. After the hostile frame an honest PDU is read to expose desynchronisation loops, then, whether the hostile frame was tolerated or refused, the server plays the rest of an honest activation from that state followed by fast-path output and a data PDU, with an input attempt after every step: neither a tolerated fault nor a refused one may blow up later. [long-lived] eight sessions on one active client: 400 frames of PDUs it ignores; frames packing 400 and 1400 PDUs; re-activations whose demand-active announces fewer / other / no / all capability sets; 100 000 indications on the user channel and 70 000 on a channel never joined, queued at once; 300 re-activations rotating four capability lists; 2 000 fast-path frames with unknown codes and empty payloads; re-activations during which the transport refuses one write of the client's answer (10 positions x 3 error kinds x 5 capability lists), the demand-active then sent again. Non-trivial: the frame differs from the honest one.".into()
    }
    fn assumptions(&self) -> Vec<String> {
        vec!["memory rule: single request > 1 MiB or peak > 16 MiB + 1024 x bytes received".into(), "the six states are reached through RdpClient::read on the raw stack (hooks H3/H4); TLS record handling is not part of this property".into()]
    }
    fn coverage_extra(&self) -> Value {
        json!({"blocks": self.blocks.iter().map(|b| json!({"name": b.0, "cases": b.1})).collect::<Vec<_>>(), "deviation_bound_completed": if self.tier == Tier::Quick { 1 } else { 2 },
               "pdu_kinds": self.space.as_ref().map(|f| f.msgs.iter().map(|m| json!({"name": m.name, "bytes": m.honest.len()})).collect::<Vec<_>>())})
    }
    fn run_case(&mut self, idx: u64) -> Outcome {
        if let ("long-lived", k) = self.locate(idx) {
            return run_long(k);
        }
        let (state, frame, desc, changed) = self.decode(idx);
        // the client's own configuration rotates with the case index (what it writes while reading depends on it)
        let mut cfg = crate::fixture::ClientCfg::default();
        match idx % 4 {
            1 => {
                cfg.width = 65535;
                cfg.height = 65535;
                cfg.name = "\u{e9}".repeat(15);
            }
            2 => {
                cfg.width = 0;
                cfg.height = 0;
                cfg.name = String::new();
                cfg.layout = 2;
            }
            3 => {
                cfg.width = 65533;
                cfg.height = 1;
                cfg.name = "pc-\u{1F600}".into();
                cfg.layout = 1;
            }
            _ => {}
        }
        let mut l = match fsm::fresh_with(&cfg) {
            Ok(l) => l,
            Err(e) => return Outcome::fail("setup", "honest-connect-failed", e),
        };
        for ev in PREFIX.iter().take(state as usize) {
            if let Err(e) = fsm::step(&mut l, *ev) {
                return Outcome::fail("setup", "honest-prefix-failed", format!("{} {}", e.0, e.1));
            }
        }
        l.sh.borrow_mut().push_to_client(&frame);
        let r1 = l.client.read(|_| {});
        // keep reading while input remains (a second frame of a pair, or leftovers), bounded
        let mut extra = 0;
        while !l.sh.borrow().to_client.is_empty() && extra < 8 {
            let _ = l.client.read(|_| {});
            extra += 1;
        }
        l.sh.borrow_mut().to_client.clear();
        // an honest PDU afterwards must still be handled without crashing
        let honest = sdi(&share::set_error_info(SID, 1002, 0));
        l.sh.borrow_mut().push_to_client(&honest);
        let _ = l.client.read(|_| {});
        // the server goes on: the rest of an honest activation, output, a data PDU — also after an error (reading again
        // from a client whose last read failed is reading in "a client state" all the same)
        aftermath(&mut l, state);
        let res = match r1 {
            Ok(()) => "ok".to_string(),
            Err(e) => err_class(&format!("{:?}", e)),
        };
        let pdu = desc["pdu"].as_str().unwrap_or(desc["block"].as_str().unwrap_or("?")).to_string();
        Outcome::pass(format!("s{}:{}:{}", state, pdu, res), changed)
    }
}
