#!/bin/bash
# usage: try_mutant.sh <patch.diff> <ID> [tier]  — apply patch to /repo, run check, revert. Prints verdict lines.
set -u
patch="$1"; id="$2"; tier="${3:-quick}"
cd /repo || exit 2
if ! git diff --quiet; then echo "REPO DIRTY"; exit 2; fi
if ! git apply "$patch" 2>/tmp/apply.err && ! git apply --3way "$patch" 2>>/tmp/apply.err; then echo "PATCH DOES NOT APPLY"; cat /tmp/apply.err | head -5; git reset -q --hard HEAD; exit 3; fi
cd /verif && ./check "$id" "$tier" > /tmp/mut.out 2>&1; code=$?
grep -E 'VIOLATION|sig:|KNOWN|MACHINERY|quick:|thorough:' /tmp/mut.out | head -12
echo "exit=$code"
git -C /repo reset -q --hard HEAD; git -C /repo status --short | head -3
