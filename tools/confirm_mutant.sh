#!/bin/bash
# usage: confirm_mutant.sh <ID> [suffix] — confirm a sub-agent's mutant in its scratch worktree /tmp/wt-<ID><suffix> and store it under /verif/seeded/<ID><suffix>/
set -u
id="$1"; suf="${2:-}"; wt=/tmp/wt-$id$suf; out=/verif/seeded/$id$suf
export CARGO_TARGET_DIR=/tmp/mut-target-$id$suf CARGO_NET_OFFLINE=true
cd "$wt" || exit 2
demo=$(ls tests/demo_*.rs 2>/dev/null | head -1)
flags=""; grep -q 'verif_' "$demo" 2>/dev/null && flags="--cfg rdp_rs_verif"
grep -q 'rnd::verif' "$demo" 2>/dev/null && flags="--cfg rdp_rs_verif"
demoname=$(basename "$demo" .rs)
feat=""; git diff --name-only -- src | grep -q '^src/bin' && feat="--features mstsc-rs"
echo "== unit tests with change"; cargo test --offline --lib 2>&1 | grep -E '^test result' | tee /tmp/cm-$id$suf.unit
[ -n "$feat" ] && { cargo build --offline $feat 2>&1 | tail -1; }
echo "== demo with change (expect FAIL)"; RUSTFLAGS="$flags" cargo test --offline $feat --test "$demoname" 2>&1 | grep -E '^test result|error(\[|:)' | head -3 | tee /tmp/cm-$id$suf.with
git diff -- src > /tmp/cm-$id$suf.patch
git apply -R /tmp/cm-$id$suf.patch
echo "== demo without change (expect PASS)"; RUSTFLAGS="$flags" cargo test --offline $feat --test "$demoname" 2>&1 | grep -E '^test result|error(\[|:)' | head -3 | tee /tmp/cm-$id$suf.without
git apply /tmp/cm-$id$suf.patch
ok=1
grep -q '39 passed; 0 failed' /tmp/cm-$id$suf.unit || ok=0
grep -q 'FAILED' /tmp/cm-$id$suf.with || ok=0
grep -q 'test result: ok' /tmp/cm-$id$suf.without || ok=0
echo "CONFIRMED=$ok flags='$flags' demo=$demo"
if [ $ok = 1 ]; then
  mkdir -p "$out"; cp /tmp/cm-$id$suf.patch "$out/patch.diff"; cp "$demo" "$out/"
  echo "$flags" > "$out/.flags"
fi
rm -rf "$CARGO_TARGET_DIR"
