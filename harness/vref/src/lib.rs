//! Reference implementations ("oracles") written from the specifications.
//! This crate must never depend on rdp-rs.
pub mod bytes;
pub mod crypto;
pub mod der;
pub mod fastpath;
pub mod framing;
pub mod gcc;
pub mod mcs;
pub mod ntlm;
pub mod per;
pub mod rle;
pub mod sec;
pub mod share;
