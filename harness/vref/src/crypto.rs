//! MD4 (RFC 1320), MD5 (RFC 1321), HMAC-MD5 (RFC 2104), RC4 — written from the RFCs,
//! sharing no code with the crates rdp-rs uses. Validated by `self_test` against RFC vectors.

pub fn md4(msg: &[u8]) -> [u8; 16] {
    let mut a: u32 = 0x67452301;
    let mut b: u32 = 0xefcdab89;
    let mut c: u32 = 0x98badcfe;
    let mut d: u32 = 0x10325476;
    let mut m = msg.to_vec();
    let bitlen = (msg.len() as u64).wrapping_mul(8);
    m.push(0x80);
    while m.len() % 64 != 56 {
        m.push(0);
    }
    m.extend_from_slice(&bitlen.to_le_bytes());
    for blk in m.chunks(64) {
        let mut x = [0u32; 16];
        for i in 0..16 {
            x[i] = u32::from_le_bytes([blk[4 * i], blk[4 * i + 1], blk[4 * i + 2], blk[4 * i + 3]]);
        }
        let (aa, bb, cc, dd) = (a, b, c, d);
        let f = |x: u32, y: u32, z: u32| (x & y) | (!x & z);
        let g = |x: u32, y: u32, z: u32| (x & y) | (x & z) | (y & z);
        let h = |x: u32, y: u32, z: u32| x ^ y ^ z;
        // round 1
        for &i in &[0usize, 4, 8, 12] {
            a = a.wrapping_add(f(b, c, d)).wrapping_add(x[i]).rotate_left(3);
            d = d.wrapping_add(f(a, b, c)).wrapping_add(x[i + 1]).rotate_left(7);
            c = c.wrapping_add(f(d, a, b)).wrapping_add(x[i + 2]).rotate_left(11);
            b = b.wrapping_add(f(c, d, a)).wrapping_add(x[i + 3]).rotate_left(19);
        }
        // round 2
        for &i in &[0usize, 1, 2, 3] {
            a = a.wrapping_add(g(b, c, d)).wrapping_add(x[i]).wrapping_add(0x5a827999).rotate_left(3);
            d = d.wrapping_add(g(a, b, c)).wrapping_add(x[i + 4]).wrapping_add(0x5a827999).rotate_left(5);
            c = c.wrapping_add(g(d, a, b)).wrapping_add(x[i + 8]).wrapping_add(0x5a827999).rotate_left(9);
            b = b.wrapping_add(g(c, d, a)).wrapping_add(x[i + 12]).wrapping_add(0x5a827999).rotate_left(13);
        }
        // round 3
        for &i in &[0usize, 2, 1, 3] {
            a = a.wrapping_add(h(b, c, d)).wrapping_add(x[i]).wrapping_add(0x6ed9eba1).rotate_left(3);
            d = d.wrapping_add(h(a, b, c)).wrapping_add(x[i + 8]).wrapping_add(0x6ed9eba1).rotate_left(9);
            c = c.wrapping_add(h(d, a, b)).wrapping_add(x[i + 4]).wrapping_add(0x6ed9eba1).rotate_left(11);
            b = b.wrapping_add(h(c, d, a)).wrapping_add(x[i + 12]).wrapping_add(0x6ed9eba1).rotate_left(15);
        }
        a = a.wrapping_add(aa);
        b = b.wrapping_add(bb);
        c = c.wrapping_add(cc);
        d = d.wrapping_add(dd);
    }
    let mut out = [0u8; 16];
    out[0..4].copy_from_slice(&a.to_le_bytes());
    out[4..8].copy_from_slice(&b.to_le_bytes());
    out[8..12].copy_from_slice(&c.to_le_bytes());
    out[12..16].copy_from_slice(&d.to_le_bytes());
    out
}

pub fn md5(msg: &[u8]) -> [u8; 16] {
    const S: [u32; 64] = [
        7, 12, 17, 22, 7, 12, 17, 22, 7, 12, 17, 22, 7, 12, 17, 22, 5, 9, 14, 20, 5, 9, 14, 20, 5, 9, 14, 20, 5, 9, 14, 20, 4,
        11, 16, 23, 4, 11, 16, 23, 4, 11, 16, 23, 4, 11, 16, 23, 6, 10, 15, 21, 6, 10, 15, 21, 6, 10, 15, 21, 6, 10, 15, 21,
    ];
    let mut k = [0u32; 64];
    for i in 0..64 {
        k[i] = ((i as f64 + 1.0).sin().abs() * 4294967296.0) as u32;
    }
    let mut a0: u32 = 0x67452301;
    let mut b0: u32 = 0xefcdab89;
    let mut c0: u32 = 0x98badcfe;
    let mut d0: u32 = 0x10325476;
    let mut m = msg.to_vec();
    let bitlen = (msg.len() as u64).wrapping_mul(8);
    m.push(0x80);
    while m.len() % 64 != 56 {
        m.push(0);
    }
    m.extend_from_slice(&bitlen.to_le_bytes());
    for blk in m.chunks(64) {
        let mut w = [0u32; 16];
        for i in 0..16 {
            w[i] = u32::from_le_bytes([blk[4 * i], blk[4 * i + 1], blk[4 * i + 2], blk[4 * i + 3]]);
        }
        let (mut a, mut b, mut c, mut d) = (a0, b0, c0, d0);
        for i in 0..64 {
            let (f, g) = match i / 16 {
                0 => ((b & c) | (!b & d), i),
                1 => ((d & b) | (!d & c), (5 * i + 1) % 16),
                2 => (b ^ c ^ d, (3 * i + 5) % 16),
                _ => (c ^ (b | !d), (7 * i) % 16),
            };
            let f2 = f.wrapping_add(a).wrapping_add(k[i]).wrapping_add(w[g]);
            a = d;
            d = c;
            c = b;
            b = b.wrapping_add(f2.rotate_left(S[i]));
        }
        a0 = a0.wrapping_add(a);
        b0 = b0.wrapping_add(b);
        c0 = c0.wrapping_add(c);
        d0 = d0.wrapping_add(d);
    }
    let mut out = [0u8; 16];
    out[0..4].copy_from_slice(&a0.to_le_bytes());
    out[4..8].copy_from_slice(&b0.to_le_bytes());
    out[8..12].copy_from_slice(&c0.to_le_bytes());
    out[12..16].copy_from_slice(&d0.to_le_bytes());
    out
}

pub fn hmac_md5(key: &[u8], data: &[u8]) -> [u8; 16] {
    let mut k = [0u8; 64];
    if key.len() > 64 {
        k[..16].copy_from_slice(&md5(key));
    } else {
        k[..key.len()].copy_from_slice(key);
    }
    let mut inner = Vec::with_capacity(64 + data.len());
    inner.extend(k.iter().map(|x| x ^ 0x36));
    inner.extend_from_slice(data);
    let ih = md5(&inner);
    let mut outer = Vec::with_capacity(80);
    outer.extend(k.iter().map(|x| x ^ 0x5c));
    outer.extend_from_slice(&ih);
    md5(&outer)
}

#[derive(Clone)]
pub struct Rc4 {
    s: [u8; 256],
    i: u8,
    j: u8,
}

impl Rc4 {
    pub fn new(key: &[u8]) -> Self {
        let mut s = [0u8; 256];
        for (i, x) in s.iter_mut().enumerate() {
            *x = i as u8;
        }
        let mut j: u8 = 0;
        for i in 0..256usize {
            j = j.wrapping_add(s[i]).wrapping_add(key[i % key.len()]);
            s.swap(i, j as usize);
        }
        Rc4 { s, i: 0, j: 0 }
    }
    pub fn apply(&mut self, data: &[u8]) -> Vec<u8> {
        let mut out = Vec::with_capacity(data.len());
        for &b in data {
            self.i = self.i.wrapping_add(1);
            self.j = self.j.wrapping_add(self.s[self.i as usize]);
            self.s.swap(self.i as usize, self.j as usize);
            let k = self.s[(self.s[self.i as usize].wrapping_add(self.s[self.j as usize])) as usize];
            out.push(b ^ k);
        }
        out
    }
}

pub fn self_test() -> Result<(), String> {
    use crate::bytes::{hex, unhex};
    let chk = |name: &str, got: &[u8], want: &str| -> Result<(), String> {
        if hex(got) != want {
            Err(format!("crypto self-test {}: got {} want {}", name, hex(got), want))
        } else {
            Ok(())
        }
    };
    // RFC 1320 A.5
    chk("md4('')", &md4(b""), "31d6cfe0d16ae931b73c59d7e0c089c0")?;
    chk("md4(abc)", &md4(b"abc"), "a448017aaf21d8525fc10ae87aa6729d")?;
    chk(
        "md4(long)",
        &md4(b"12345678901234567890123456789012345678901234567890123456789012345678901234567890"),
        "e33b4ddc9c38f2199c3e7b164fcc0536",
    )?;
    // RFC 1321 A.5
    chk("md5('')", &md5(b""), "d41d8cd98f00b204e9800998ecf8427e")?;
    chk("md5(abc)", &md5(b"abc"), "900150983cd24fb0d6963f7d28e17f72")?;
    chk(
        "md5(long)",
        &md5(b"12345678901234567890123456789012345678901234567890123456789012345678901234567890"),
        "57edf4a22be3c955ac49da2e2107b67a",
    )?;
    // RFC 2202
    chk("hmac1", &hmac_md5(&[0x0b; 16], b"Hi There"), "9294727a3638bb1c13f48ef8158bfc9d")?;
    chk("hmac2", &hmac_md5(b"Jefe", b"what do ya want for nothing?"), "750c783e6ab0b503eaa86e310a5db738")?;
    chk("hmac3", &hmac_md5(&[0xaa; 16], &[0xdd; 50]), "56be34521d144c88dbb8c733f0e8b3f6")?;
    chk(
        "hmac6",
        &hmac_md5(&[0xaa; 80], b"Test Using Larger Than Block-Size Key - Hash Key First"),
        "6b1ab7fe4bd7bf8f0b62e6ce61b9d0cd",
    )?;
    // RFC 6229 (key 0102030405, first 16 bytes of keystream)
    chk("rc4-40", &Rc4::new(&unhex("0102030405")).apply(&[0u8; 16]), "b2396305f03dc027ccc3524a0a1118a8")?;
    chk(
        "rc4-128",
        &Rc4::new(&unhex("0102030405060708090a0b0c0d0e0f10")).apply(&[0u8; 16]),
        "9ac7cc9a609d1ef7b2932899cde41b97",
    )?;
    Ok(())
}

#[cfg(test)]
mod t {
    #[test]
    fn vectors() {
        super::self_test().unwrap();
    }
}
