//! In-memory transport handed to the code under test. Single-threaded: the peer is pumped
//! synchronously from inside `read`/`write`, so there is no timing anywhere.

use crate::runner::BYTES_IN;
use std::cell::RefCell;
use std::collections::VecDeque;
use std::io::{self, Read, Write};
use std::rc::Rc;
use std::sync::atomic::Ordering::Relaxed;

#[derive(Clone, Debug, PartialEq, Eq)]
pub enum ReadPlan {
    /// hand over whatever is asked
    All,
    /// at most k bytes per read call
    Cap(usize),
    /// successive chunk sizes, unlimited afterwards
    Seq(Vec<usize>),
    /// absolute stream offsets a single read never crosses
    Splits(Vec<usize>),
}

#[derive(Clone, Debug, PartialEq, Eq)]
pub enum WritePlan {
    All,
    Cap(usize),
    /// successive accepted sizes (0 = Ok(0)), unlimited afterwards
    Seq(Vec<usize>),
    /// accept bytes up to absolute position p (capped by `cap` per call), then fail with BrokenPipe
    ErrAt { pos: usize, cap: usize },
    /// accept bytes up to absolute position p, fail ONCE there with the given kind, accept everything afterwards
    /// (a transient condition: a timeout, a non-blocking socket that is full, ...)
    ErrOnceAt { pos: usize, kind: io::ErrorKind },
    /// the k-th write call fails once with ErrorKind::Interrupted, everything else is accepted
    InterruptedAt(usize),
}

#[derive(Clone, Debug, PartialEq, Eq)]
pub enum Ev {
    /// client wrote n bytes (accepted), stream offset before
    CW(usize, usize),
    /// write call returned an error
    CWErr,
    /// peer queued n bytes for the client
    SW(usize),
    /// client read n bytes
    CR(usize),
    /// client read returned EOF
    CREof,
    /// marker inserted by a peer
    Mark(&'static str),
}

pub struct Shared {
    pub to_client: VecDeque<u8>,
    pub total_to_client: usize,
    pub delivered_to_client: usize,
    pub from_client: Vec<u8>,
    pub peer_pos: usize,
    pub trace: Vec<Ev>,
    pub reads: u64,
    pub write_calls: usize,
    pub read_plan: ReadPlan,
    pub read_seq_pos: usize,
    pub write_plan: WritePlan,
    pub write_seq_pos: usize,
    pub spin_limit: u64,
    /// when set, reads fail with this error kind once the queue is empty (instead of EOF)
    /// one read call fails with this error kind when exactly `.0` bytes have been delivered so far (then never again)
    pub read_err_once_at: Option<(usize, io::ErrorKind)>,
    pub err_when_empty: Option<io::ErrorKind>,
}

impl Shared {
    pub fn new() -> Shared {
        Shared {
            to_client: VecDeque::new(),
            total_to_client: 0,
            delivered_to_client: 0,
            from_client: Vec::new(),
            peer_pos: 0,
            trace: Vec::new(),
            reads: 0,
            write_calls: 0,
            read_plan: ReadPlan::All,
            read_seq_pos: 0,
            write_plan: WritePlan::All,
            write_seq_pos: 0,
            spin_limit: 1_000_000,
            read_err_once_at: None,
            err_when_empty: None,
        }
    }
    pub fn push_to_client(&mut self, b: &[u8]) {
        // harness bookkeeping, whoever calls it
        crate::alloc::exempt(|| {
            self.to_client.extend(b.iter().copied());
            self.trace.push(Ev::SW(b.len()));
        });
        self.total_to_client += b.len();
    }
    /// bytes written by the client that the peer has not consumed yet
    pub fn pending_from_client(&self) -> &[u8] {
        &self.from_client[self.peer_pos..]
    }
}

pub trait Peer {
    /// consume client bytes / produce bytes for the client. `want_read` is true when the client is
    /// blocked in a read with nothing queued (the peer may then send unsolicited messages).
    fn pump(&mut self, sh: &mut Shared, want_read: bool);
}

pub struct NoPeer;
impl Peer for NoPeer {
    fn pump(&mut self, _sh: &mut Shared, _want_read: bool) {}
}

#[derive(Clone)]
pub struct MemLink {
    pub sh: Rc<RefCell<Shared>>,
    pub peer: Rc<RefCell<dyn Peer>>,
}

impl MemLink {
    pub fn scripted(input: &[u8]) -> MemLink {
        let mut s = Shared::new();
        s.to_client.extend(input.iter().copied());
        s.total_to_client = input.len();
        MemLink { sh: Rc::new(RefCell::new(s)), peer: Rc::new(RefCell::new(NoPeer)) }
    }
    pub fn with_peer(peer: Rc<RefCell<dyn Peer>>) -> MemLink {
        MemLink { sh: Rc::new(RefCell::new(Shared::new())), peer }
    }
}

impl Read for MemLink {
    fn read(&mut self, buf: &mut [u8]) -> io::Result<usize> {
        let mut sh = self.sh.borrow_mut();
        sh.reads += 1;
        if sh.reads > sh.spin_limit {
            panic!("VERIF-SPIN: more than {} reads in one case", sh.spin_limit);
        }
        if buf.is_empty() {
            return Ok(0);
        }
        if sh.to_client.is_empty() {
            crate::alloc::exempt(|| self.peer.borrow_mut().pump(&mut sh, true));
        }
        if sh.to_client.is_empty() {
            if let Some(k) = sh.err_when_empty {
                crate::alloc::exempt(|| sh.trace.push(Ev::CREof));
                return Err(io::Error::new(k, "injected"));
            }
            crate::alloc::exempt(|| sh.trace.push(Ev::CREof));
            return Ok(0);
        }
        if let Some((pos, kind)) = sh.read_err_once_at {
            if sh.delivered_to_client == pos {
                sh.read_err_once_at = None;
                return Err(io::Error::new(kind, "injected read error"));
            }
        }
        let mut n = buf.len().min(sh.to_client.len());
        match &sh.read_plan {
            ReadPlan::All => {}
            ReadPlan::Cap(k) => n = n.min(*k),
            ReadPlan::Seq(v) => {
                if sh.read_seq_pos < v.len() {
                    n = n.min(v[sh.read_seq_pos].max(1));
                }
            }
            ReadPlan::Splits(v) => {
                let pos = sh.delivered_to_client;
                if let Some(next) = v.iter().filter(|&&s| s > pos).min() {
                    n = n.min(next - pos);
                }
            }
        }
        sh.read_seq_pos += 1;
        for b in buf.iter_mut().take(n) {
            *b = sh.to_client.pop_front().unwrap();
        }
        sh.delivered_to_client += n;
        crate::alloc::exempt(|| sh.trace.push(Ev::CR(n)));
        BYTES_IN.fetch_add(n as u64, Relaxed);
        Ok(n)
    }
}

impl Write for MemLink {
    fn write(&mut self, buf: &[u8]) -> io::Result<usize> {
        let mut sh = self.sh.borrow_mut();
        let call = sh.write_calls;
        sh.write_calls += 1;
        let off = sh.from_client.len();
        let mut n = buf.len();
        match sh.write_plan.clone() {
            WritePlan::All => {}
            WritePlan::Cap(k) => n = n.min(k),
            WritePlan::Seq(v) => {
                if sh.write_seq_pos < v.len() {
                    n = n.min(v[sh.write_seq_pos]);
                }
                sh.write_seq_pos += 1;
            }
            WritePlan::ErrAt { pos, cap } => {
                if off >= pos {
                    crate::alloc::exempt(|| sh.trace.push(Ev::CWErr));
                    return Err(io::Error::new(io::ErrorKind::BrokenPipe, "injected write error"));
                }
                n = n.min(cap).min(pos - off);
            }
            WritePlan::ErrOnceAt { pos, kind } => {
                if sh.write_seq_pos == 0 {
                    if off >= pos {
                        sh.write_seq_pos = 1;
                        crate::alloc::exempt(|| sh.trace.push(Ev::CWErr));
                        return Err(io::Error::new(kind, "injected transient write error"));
                    }
                    n = n.min(pos - off);
                }
            }
            WritePlan::InterruptedAt(k) => {
                if call == k {
                    crate::alloc::exempt(|| sh.trace.push(Ev::CWErr));
                    return Err(io::Error::new(io::ErrorKind::Interrupted, "injected EINTR"));
                }
            }
        }
        crate::alloc::exempt(|| sh.from_client.extend_from_slice(&buf[..n]));
        crate::alloc::exempt(|| sh.trace.push(Ev::CW(n, off)));
        if n > 0 {
            crate::alloc::exempt(|| self.peer.borrow_mut().pump(&mut sh, false));
        }
        Ok(n)
    }
    fn flush(&mut self) -> io::Result<()> {
        Ok(())
    }
}
