#!/usr/bin/env python3
"""For every seeded change under /verif/seeded/<name>/: apply patch.diff to /repo, run the quick check of its
property (plus any extra checks listed on the command line as name:ID,ID), undo, and record the result in meta.json.
usage: mutant_matrix.py [name ...]     (default: all)"""
import json, os, subprocess, sys, re, glob

NEEDS = {}  # filled from existing meta.json if present
def run(cmd, **kw):
    return subprocess.run(cmd, shell=True, capture_output=True, text=True, **kw)

ALT = '--alt' in sys.argv   # run against a scratch copy (/tmp/altrepo) instead of applying to /repo
names = [a for a in sys.argv[1:] if a != '--alt'] or sorted(os.listdir('/verif/seeded'))
# with --alt the checks run from a snapshot of /verif (sources, fixtures, known findings) taken now, so that the harness
# can be edited while the matrix runs; build output stays in /verif/.target-alt
CHECK_ROOT = '/verif'
if ALT:
    CHECK_ROOT = '/tmp/altverif'
    run(f'rm -rf {CHECK_ROOT}; mkdir -p {CHECK_ROOT}')
    assert run(f'rsync -a --exclude .git --exclude ".target*" --exclude .work --exclude .alt --exclude seeded --exclude evidence /verif/ {CHECK_ROOT}/').returncode == 0
    run(f'mkdir -p {CHECK_ROOT}/evidence')
for name in names:
    d = f'/verif/seeded/{name}'
    patch = f'{d}/patch.diff'
    if not os.path.exists(patch):
        continue
    prop = re.match(r'(C\d+)', name).group(1)
    meta_path = f'{d}/meta.json'
    meta = json.load(open(meta_path)) if os.path.exists(meta_path) else {}
    if ALT:
        run('git -C /repo worktree remove --force /tmp/altrepo')
        assert run('git -C /repo worktree add -q --detach /tmp/altrepo HEAD').returncode == 0
        a = run(f'git -C /tmp/altrepo apply {patch}')
        if a.returncode != 0:
            print(name, 'PATCH DOES NOT APPLY', a.stderr[:200]); run('git -C /repo worktree remove --force /tmp/altrepo'); continue
    else:
        assert run('git -C /repo diff --quiet').returncode == 0, "/repo dirty"
        a = run(f'git -C /repo apply {patch}')
        if a.returncode != 0:
            print(name, 'PATCH DOES NOT APPLY', a.stderr[:200]); run('git -C /repo reset -q --hard HEAD'); continue
    checks = meta.get('run_checks', [prop])
    results = {}
    for c in checks:
        r = run(f'cd {CHECK_ROOT} && {"VERIF_TARGET_DIR=/verif/.target-alt VERIF_REPO=/tmp/altrepo " if ALT else ""}./check {c} quick')
        sigs = re.findall(r'^\s+sig: (.*)$', r.stdout, re.M)
        results[c] = {"exit": r.returncode, "violation_signatures": sigs[:6]}
    if ALT:
        run('git -C /repo worktree remove --force /tmp/altrepo')
    else:
        run('git -C /repo reset -q --hard HEAD')
    meta.update({
        "property": prop,
        "patch": "patch.diff",
        "demonstration": sorted(os.path.basename(f) for f in glob.glob(f'{d}/demo_*')),
        "demonstration_flags": open(f'{d}/.flags').read().strip() if os.path.exists(f'{d}/.flags') else "",
        "confirmed_in_scratch_worktree": "tools/confirm_mutant.sh (or confirm_bin_mutant.sh): `cargo test --offline --lib` = 39 passed with the change; the demonstration FAILS with the change and PASSES with the change reversed",
        "checks_run_against_it": results,
        "detected": any(v["exit"] == 1 for v in results.values()),
    })
    json.dump(meta, open(meta_path, 'w'), indent=1)
    print(name, {k: (v['exit'], v['violation_signatures'][:1]) for k, v in results.items()}, flush=True)
if ALT:
    run(f'rm -rf {CHECK_ROOT}')
