//! vgui — checks of the GUI client (mstsc-rs): C19 (blit) and C20 (receive thread), run on the
//! unmodified function bodies of /repo/src/bin/mstsc-rs.rs (derived by build.rs).

#[allow(dead_code, unused_imports, unused_variables, non_snake_case, unused_mut, deprecated)]
mod mstsc_plain {
    include!(concat!(env!("OUT_DIR"), "/mstsc_plain.rs"));
}
mod c19;
mod redzone;

use vcheck::runner::Tier;

#[global_allocator]
static GLOBAL: redzone::RedZone = redzone::RedZone;

fn main() {
    vcheck::cli_main(
        &|id| match id {
            "C19" => Some(Box::new(c19::C19::new())),
            _ => None,
        },
        &|_id, _tier: Tier| None,
        &|_v, _p| None,
    );
}
