//! Reference T.125 MCS: BER Connect-Initial / Connect-Response and the PER domain PDUs RDP uses.

use crate::bytes::*;
use crate::der;
use crate::per;

#[derive(Clone, Debug, PartialEq, Eq)]
pub struct DomainParams(pub [u64; 8]);

#[derive(Clone, Debug, PartialEq, Eq)]
pub struct ConnectInitial {
    pub calling: Vec<u8>,
    pub called: Vec<u8>,
    pub upward: bool,
    pub target: DomainParams,
    pub minimum: DomainParams,
    pub maximum: DomainParams,
    pub user_data: Vec<u8>,
}

fn parse_domain_params(r: &mut R, strict: bool, what: &str) -> PResult<DomainParams> {
    let t = der::expect(r, der::UNIV_SEQ, strict, what)?;
    let mut i = R::new(&t.content);
    let mut v = [0u64; 8];
    for (k, slot) in v.iter_mut().enumerate() {
        *slot = der::read_uint(&mut i, strict, &format!("{}[{}]", what, k))?;
    }
    i.expect_end(what)?;
    Ok(DomainParams(v))
}

/// strict DER parse of MCS Connect-Initial (T.125 §7, Connect-Initial ::= [APPLICATION 101] IMPLICIT SEQUENCE)
pub fn parse_connect_initial(b: &[u8]) -> PResult<ConnectInitial> {
    let mut r = R::new(b);
    let t = der::expect(&mut r, der::app(101), true, "Connect-Initial")?;
    r.expect_end("Connect-Initial")?;
    let mut i = R::new(&t.content);
    let calling = der::read_octets(&mut i, true, "callingDomainSelector")?;
    let called = der::read_octets(&mut i, true, "calledDomainSelector")?;
    let upward = der::read_bool(&mut i, true, "upwardFlag")?;
    let target = parse_domain_params(&mut i, true, "targetParameters")?;
    let minimum = parse_domain_params(&mut i, true, "minimumParameters")?;
    let maximum = parse_domain_params(&mut i, true, "maximumParameters")?;
    let user_data = der::read_octets(&mut i, true, "userData")?;
    i.expect_end("Connect-Initial body")?;
    Ok(ConnectInitial { calling, called, upward, target, minimum, maximum, user_data })
}

pub fn domain_params(p: &[u64; 8]) -> Vec<u8> {
    der::seq(&p.iter().map(|v| der::integer(*v)).collect::<Vec<_>>())
}

/// DER Connect-Response; `wide` > 0 re-encodes the outer and userData lengths in BER long form of that width
pub fn connect_response(result: u64, connect_id: u64, params: &[u64; 8], user_data: &[u8], wide: usize) -> Vec<u8> {
    let ud = if wide > 0 { der::tlv_wide(der::UNIV_OCTET, user_data, wide) } else { der::octets(user_data) };
    let body = [der::enumerated(result), der::integer(connect_id), domain_params(params), ud].concat();
    if wide > 0 {
        der::tlv_wide(der::app(102), &body, wide)
    } else {
        der::tlv(der::app(102), &body)
    }
}

pub const DEFAULT_RESPONSE_PARAMS: [u64; 8] = [34, 3, 0, 1, 0, 1, 0xfff8, 2];

// ------------------------------------------------------------------ domain PDUs (PER)

#[derive(Clone, Debug, PartialEq, Eq)]
pub enum DomainPdu {
    ErectDomain { sub_height: u32, sub_interval: u32 },
    AttachUserRequest,
    ChannelJoinRequest { initiator: u16, channel: u16 },
    SendDataRequest { initiator: u16, channel: u16, priority_seg: u8, data: Vec<u8> },
    DisconnectProviderUltimatum { reason: u8, trailing: Vec<u8> },
}

/// strict parse of a client-to-server domain PDU
pub fn parse_client_domain_pdu(b: &[u8]) -> PResult<DomainPdu> {
    let mut r = R::new(b);
    let h = r.u8()?;
    match h >> 2 {
        1 => {
            if h & 3 != 0 {
                return Err(format!("ErectDomainRequest: header {:#x}", h));
            }
            let sub_height = per::read_integer(&mut r)?;
            let sub_interval = per::read_integer(&mut r)?;
            r.expect_end("ErectDomainRequest")?;
            Ok(DomainPdu::ErectDomain { sub_height, sub_interval })
        }
        10 => {
            if h & 3 != 0 {
                return Err(format!("AttachUserRequest: header {:#x}", h));
            }
            r.expect_end("AttachUserRequest")?;
            Ok(DomainPdu::AttachUserRequest)
        }
        14 => {
            if h & 3 != 0 {
                return Err(format!("ChannelJoinRequest: header {:#x}", h));
            }
            let initiator = per::read_integer16(&mut r, 1001)?;
            let channel = r.u16be()?;
            r.expect_end("ChannelJoinRequest")?;
            Ok(DomainPdu::ChannelJoinRequest { initiator, channel })
        }
        25 => {
            if h & 3 != 0 {
                return Err(format!("SendDataRequest: header {:#x}", h));
            }
            let initiator = per::read_integer16(&mut r, 1001)?;
            let channel = r.u16be()?;
            let priority_seg = r.u8()?;
            let len = per::read_length(&mut r)? as usize;
            if len != r.remaining() {
                return Err(format!("SendDataRequest: userData length {} but {} bytes follow", len, r.remaining()));
            }
            Ok(DomainPdu::SendDataRequest { initiator, channel, priority_seg, data: r.rest().to_vec() })
        }
        8 => {
            let b1 = r.u8()?;
            let reason = ((h & 3) << 1) | (b1 >> 7);
            Ok(DomainPdu::DisconnectProviderUltimatum { reason, trailing: r.rest().to_vec() })
        }
        k => Err(format!("unexpected client domain PDU type {}", k)),
    }
}

pub fn attach_user_confirm(result: u8, user_id: u16) -> Vec<u8> {
    let mut w = W::new();
    w.u8((11 << 2) | 2).u8(result);
    per::write_integer16(&mut w, user_id, 1001);
    w.done()
}

pub fn channel_join_confirm(result: u8, user_id: u16, requested: u16, channel: u16) -> Vec<u8> {
    let mut w = W::new();
    w.u8((15 << 2) | 2).u8(result);
    per::write_integer16(&mut w, user_id, 1001);
    w.u16be(requested).u16be(channel);
    w.done()
}

pub fn send_data_indication(initiator: u16, channel: u16, data: &[u8]) -> Vec<u8> {
    send_data_indication_prio(initiator, channel, data, 0x70)
}

/// the same with the dataPriority / segmentation byte chosen: priority in the two top bits (00 top, 01 high,
/// 10 medium, 11 low), then begin and end flags (0x30 = begin + end)
pub fn send_data_indication_prio(initiator: u16, channel: u16, data: &[u8], prio_seg: u8) -> Vec<u8> {
    let mut w = W::new();
    w.u8(26 << 2);
    per::write_integer16(&mut w, initiator, 1001);
    w.u16be(channel).u8(prio_seg);
    per::write_length(&mut w, data.len() as u16);
    w.bytes(data);
    w.done()
}

pub fn disconnect_provider_ultimatum(reason: u8) -> Vec<u8> {
    vec![(8 << 2) | (reason >> 1), (reason & 1) << 7]
}
