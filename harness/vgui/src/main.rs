//! vgui — checks of the GUI client (mstsc-rs): C19 (blit) and C20 (receive thread), run on the
//! unmodified function bodies of /repo/src/bin/mstsc-rs.rs (derived by build.rs).

#[allow(dead_code, unused_imports, unused_variables, non_snake_case, unused_mut, deprecated)]
mod mstsc_plain {
    include!(concat!(env!("OUT_DIR"), "/mstsc_plain.rs"));
}
#[allow(dead_code, unused_imports, unused_variables, non_snake_case, unused_mut, deprecated)]
mod mstsc_shuttle {
    include!(concat!(env!("OUT_DIR"), "/mstsc_shuttle.rs"));
}
mod c19;
mod c20;
mod fake_fd;
mod redzone;

use serde_json::json;
use vcheck::report;
use vcheck::runner::{self, Prop, Tier};

#[global_allocator]
static GLOBAL: redzone::RedZone = redzone::RedZone;

fn lookup(id: &str) -> Option<Box<dyn Prop>> {
    match id {
        "C19" => Some(Box::new(c19::C19::new())),
        "C20" => Some(Box::new(c20::C20::new())),
        _ => None,
    }
}

/// C20: one worker case per environment script; the parent aggregates the exploration statistics
fn c20_main(tier: Tier) -> i32 {
    let t0 = std::time::Instant::now();
    std::env::set_var("VERIF_C20_STATS", format!("{}/.work/C20-stats-{}", vcheck::root(), std::process::id()));
    let _ = std::fs::remove_dir_all(c20::stats_dir());
    let mut prop = c20::C20::new();
    let rr = match runner::run_parent(&mut prop, tier) {
        Ok(r) => r,
        Err(e) => {
            println!("MACHINERY-ERROR property=C20 {}", e);
            return 2;
        }
    };
    let bound = if tier == Tier::Quick { 1 } else { 2 };
    let findings = report::load_findings();
    let (mut schedules, mut points, mut states, mut transitions, mut maxp) = (0u64, 0u64, 0u64, 0u64, 0u64);
    let mut sigs: std::collections::BTreeMap<String, (u64, serde_json::Value, String, u64)> = Default::default();
    let mut machinery: Option<String> = None;
    let mut per_script = vec![];
    for idx in 0..rr.n_cases {
        let p = c20::stats_dir().join(format!("{}.json", idx));
        let v: serde_json::Value = match std::fs::read_to_string(&p).ok().and_then(|t| serde_json::from_str(&t).ok()) {
            Some(v) => v,
            None => {
                // a script whose worker hung / died is accounted for by the runner as a violation of that case: no statistics then
                if rr.viols.iter().any(|(sig, (first, _, _))| *first == idx && (sig == "hang" || sig.starts_with("killed-by-signal") || sig.starts_with("exit-") || sig == "huge-allocation")) || rr.crashes > 0 {
                    continue;
                }
                machinery = Some(format!("no exploration statistics for script {}", idx));
                continue;
            }
        };
        schedules += v["schedules"].as_u64().unwrap_or(0);
        points += v["points"].as_u64().unwrap_or(0);
        states += v["states"].as_u64().unwrap_or(0);
        transitions += v["transitions"].as_u64().unwrap_or(0);
        maxp = maxp.max(v["max_preemptions"].as_u64().unwrap_or(0));
        if let Some(e) = v["error"].as_str() {
            machinery = Some(format!("script {}: {}", idx, e));
        }
        per_script.push(json!({"script": v["script"], "schedules": v["schedules"], "states": v["states"], "wall_ms": v["wall_ms"]}));
        for x in v["violations"].as_array().cloned().unwrap_or_default() {
            let sig = x["sig"].as_str().unwrap_or("?").to_string();
            let e = sigs.entry(sig).or_insert((idx, json!({"idx": idx, "script_index": v["script_index"], "script": v["script"], "choices": x["choices"], "preemption_bound": v["bound"]}), x["detail"].as_str().unwrap_or("").to_string(), 0));
            e.3 += x["schedules"].as_u64().unwrap_or(1);
        }
    }
    // crashes / hangs attributed by the runner that never wrote statistics
    for (sig, (idx, _c, detail)) in &rr.viols {
        if sig.starts_with("killed-by-signal") || sig == "hang" || sig.starts_with("exit-") || sig == "huge-allocation" || sig.starts_with("panic@") {
            let d = prop.describe(*idx);
            sigs.entry(sig.clone()).or_insert((*idx, json!({"idx": idx, "script_index": d["script_index"], "script": d["script"], "choices": [], "preemption_bound": bound}), detail.clone(), 1));
        }
        if sig == "machinery" {
            machinery = Some(detail.clone());
        }
    }
    let mut unlisted = 0;
    let mut known = 0;
    let _ = std::fs::remove_dir_all(c20::stats_dir());
    let mut viol_json = vec![];
    for (sig, (_idx, body, detail, n)) in &sigs {
        let mut b = body.clone();
        b["detail"] = json!(detail);
        b["schedules_showing_it"] = json!(n);
        let path = report::write_replay("C20", tier, sig, b.clone());
        // determinism: the recorded schedule must show the same violation when replayed in a fresh process
        // (with a deadline: replaying a "hang" hangs again)
        let run_replay = |deadline_s: u64| -> bool {
            match std::env::current_exe() {
                Err(_) => false,
                Ok(exe) => {
                    let out_path = format!("{}.replay-out", path);
                    let spawned = std::fs::File::create(&out_path).ok().and_then(|f| std::process::Command::new(exe).arg("replay").arg(&path).stdin(std::process::Stdio::null()).stdout(f).stderr(std::process::Stdio::null()).spawn().ok());
                    match spawned {
                        None => false,
                        Some(mut child) => {
                            let t0 = std::time::Instant::now();
                            let mut finished = false;
                            while t0.elapsed() < std::time::Duration::from_secs(deadline_s) {
                                if let Ok(Some(_)) = child.try_wait() {
                                    finished = true;
                                    break;
                                }
                                std::thread::sleep(std::time::Duration::from_millis(50));
                            }
                            if !finished {
                                let _ = child.kill();
                                let _ = child.wait();
                            }
                            let text = std::fs::read_to_string(&out_path).unwrap_or_default();
                            let _ = std::fs::remove_file(&out_path);
                            (finished && text.contains(&format!("violation: {}", sig))) || (!finished && sig == "hang")
                        }
                    }
                }
            }
        };
        let mut reproduced = run_replay(90);
        let crash_like0 = sig.starts_with("killed-by-signal") || sig == "hang" || sig.starts_with("exit-") || sig == "deadlock" || sig.starts_with("panic@");
        if !reproduced && !crash_like0 {
            // the schedule alone does not show it in a fresh process: does the exploration of this script, repeated from its
            // first schedule in a fresh process, show it again? (state of the client code that survives from one execution
            // to the next — a static, a thread_local — makes a schedule depend on the schedules explored before it)
            let mut b2 = b.clone();
            b2["whole_exploration"] = json!(true);
            b2["history_note"] = json!("the recorded schedule alone holds in a fresh process; the violation shows when the exploration of this script is repeated from its first schedule: state of the checked code survives from one execution to the next");
            let _ = report::write_replay("C20", tier, sig, b2);
            reproduced = run_replay(600);
        }
        let crash_like = sig.starts_with("killed-by-signal") || sig == "hang" || sig.starts_with("exit-") || sig == "deadlock" || sig.starts_with("panic@");
        viol_json.push(json!({"sig": sig, "replay": path, "schedules": n, "reproduced_on_replay": reproduced}));
        if !reproduced && !crash_like {
            println!("MACHINERY-ERROR property=C20 schedule recorded for '{}' does not reproduce it on replay (nondeterminism); replay={}", sig, path);
            machinery = Some(format!("violation '{}' not reproduced on replay", sig));
            continue;
        }
        if let Some(f) = report::match_finding(&findings, "C20", sig) {
            println!("KNOWN-FINDING: property=C20 {} [{} schedule(s); sig={}; replay={}]", f.what, n, sig, path);
            known += 1;
        } else {
            println!("VIOLATION property=C20 replay={}", path);
            println!("  sig: {}", sig);
            println!("  detail: {}", detail.chars().take(600).collect::<String>());
            println!("  schedules showing it: {}", n);
            unlisted += 1;
        }
    }
    report::write_evidence(&report::Evidence {
        property: "C20".into(),
        tier,
        level: "model_checking".into(),
        coverage: json!({
            "states": states,
            "transitions": transitions,
            "traces_validated_against_impl": schedules,
            "samples": per_script.iter().take(4).collect::<Vec<_>>(),
            "slowest_scripts": ({
                let mut v: Vec<&serde_json::Value> = per_script.iter().collect();
                v.sort_by_key(|x| std::cmp::Reverse(x["wall_ms"].as_u64().unwrap_or(0)));
                v.into_iter().take(120).cloned().collect::<Vec<_>>()
            }),
            "schedules": schedules,
            "scheduling_points": points,
            "scripts": rr.n_cases,
            "preemption_bound_completed": bound,
            "preemption_bound_note": ({
                let all = c20::scripts();
                let core = all.iter().filter(|s| c20::is_core(s)).count();
                if tier == Tier::Quick { format!("bound 1 on {} of the {} core scripts (every script without end; every script whose end comes after two PDUs; the three rarer end kinds stay in quick under the plain packing only, the others are left to the thorough tier), bound 0 on the long scripts", all.iter().filter(|s| c20::is_quick(s)).count(), core) } else { format!("bound 2 on the {} core scripts, bound 1 on the other {} scripts (every end kind at every position 0..3)", core, all.len() - core) }
            }),
            "max_preemptions_used": maxp,
            "evaluations": schedules,
            "distinct_nontrivial": rr.nontrivial,
            "rule": "every schedule (<= bound preemptions) of {receive thread, environment script, GUI actor} for each of the environment scripts = 9 packings of 3 bitmap PDUs into TLS records / TCP segments (one per record, two+one, three in one, a PDU across two records, a record across two segments, with a pause, with update-less PDUs of both length forms riding along, with a second PDU of 3 + 16384 bytes spanning two records, with a re-activation after the first PDU whose server PDUs are packed two and four to a record) x {no end, disconnect ultimatum, close_notify, abrupt close, undecodable PDU of RdpError kind, undecodable PDU of I/O kind, header-only TPKT frame, data on the MCS user channel} at every position 0..3; plus four long runs explored without preemption (40 and 300 PDUs in one record, 700 PDUs two per record, 1500 records queued). states/transitions = distinct abstract configurations (runnable set, running task, queue length, bytes consumed, closed flag, events forwarded, dead-select count, script and GUI positions) and (configuration, chosen task) edges observed at scheduling points, summed over scripts.",
            "exhaustive": true,
            "violations_detail": viol_json,
            "known_findings_matched": known,
            "explanation": "stateless exploration: every schedule is an execution of the real launch_rdp_thread/wait_for_fd bodies over a real RdpClient on real OpenSSL; the DFS scheduler re-executes the program for each schedule and checks that the same prefix of choices shows the same number of enabled tasks (divergence = machinery error)",
        }),
        assumptions: vec![
            "shuttle's scheduling points: every Mutex lock/unlock, atomic access, channel operation, condvar wait/notify, spawn/join, plus every read on the modelled link and every select on the modelled descriptor".into(),
            "Relaxed atomics are treated as sequentially consistent (the flag only carries a stop hint)".into(),
            "TCP segmentation and select(2) are modelled: readable iff bytes are queued or the peer closed".into(),
            "the harness ends the session itself in scripts without an end event (flag cleared + descriptor woken); that teardown is not part of the property".into(),
        ],
        wall_s: t0.elapsed().as_secs_f64(),
        violations: unlisted,
    });
    println!("C20 {}: scripts={} schedules={} points={} states={} transitions={} max-preemptions={} violations={} known={} wall={:.1}s", tier.name(), rr.n_cases, schedules, points, states, transitions, maxp, unlisted, known, t0.elapsed().as_secs_f64());
    if let Some(m) = machinery {
        if unlisted > 0 {
            // every violation above was confirmed by a replay in a fresh process: it stands on its own, although the
            // exploration as a whole could not be completed
            println!("NOTE property=C20 exploration incomplete ({}); the violations above were each reproduced in a fresh process", m);
            return 1;
        }
        println!("MACHINERY-ERROR property=C20 {}", m);
        return 2;
    }
    if unlisted > 0 {
        1
    } else {
        0
    }
}

fn c20_replay(v: &serde_json::Value, path: &str) -> Option<i32> {
    if v["property"] != "C20" {
        return None;
    }
    runner::install_panic_hook();
    if v["script_index"].as_u64() == Some(c20::ASSUMPTION_INDEX) {
        return Some(match c20::socket_assumption().violation.map(|v| (v.sig, v.detail)) {
            Some((sig, d)) => {
                println!("violation: {} :: {}", sig, d);
                println!("VIOLATION property=C20 replay={}", path);
                1
            }
            None => {
                println!("replay: no violation reproduced");
                0
            }
        });
    }
    let idx = v["script_index"].as_u64()? as usize;
    let choices: Vec<usize> = v["choices"].as_array()?.iter().map(|x| x.as_u64().unwrap_or(0) as usize).collect();
    let script = c20::scripts()[idx];
    if v["whole_exploration"].as_bool() == Some(true) {
        let bound = v["preemption_bound"].as_u64().unwrap_or(1) as u32;
        println!("repeating the exploration of script {:?} with preemption bound {}", script, bound);
        let st = runner::with_silenced_stdout(|| c20::explore(script, bound, None));
        if let Some(e) = st.error {
            println!("MACHINERY-ERROR {}", e);
            return Some(2);
        }
        if st.violations.is_empty() {
            println!("replay: no violation reproduced");
            return Some(0);
        }
        for (sig, (_c, d, _n)) in &st.violations {
            println!("violation: {} :: {}", sig, d);
        }
        println!("VIOLATION property=C20 replay={}", path);
        return Some(1);
    }
    println!("replaying script {:?} with schedule {:?}", script, choices);
    let st = runner::with_silenced_stdout(|| c20::explore(script, u32::MAX, Some(choices)));
    if let Some(e) = st.error {
        println!("MACHINERY-ERROR {}", e);
        return Some(2);
    }
    if st.violations.is_empty() {
        println!("replay: no violation reproduced");
        return Some(0);
    }
    for (sig, (_c, d, _n)) in &st.violations {
        println!("violation: {} :: {}", sig, d);
    }
    println!("VIOLATION property=C20 replay={}", path);
    Some(1)
}

fn main() {
    vcheck::cli_main(&lookup, &|id, tier: Tier| if id == "C20" { Some(c20_main(tier)) } else { None }, &c20_replay);
}
