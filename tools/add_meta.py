#!/usr/bin/env python3
"""usage: add_meta.py <name> <property> <checks,comma> <change> <needs> — write /verif/seeded/<name>/meta.json (before mutant_matrix)"""
import json, sys
name, prop, checks, change, needs = sys.argv[1:6]
json.dump({"breaks_property": prop, "change": change, "needs_to_manifest": needs, "run_checks": checks.split(','),
           "origin": "written by an independent sub-agent that was given only the text of the property (plus a note of which ideas had already been used) and a scratch git worktree of /repo; asked for three independent changes"},
          open(f'/verif/seeded/{name}/meta.json', 'w'), indent=1)
