//! C09 — decompressed bitmaps are pixel-exact.
//! Enumerates *encodings* (order sequences / plane segmentations / raw layouts); the expected image is
//! whatever the reference decoder (MS-RDPBCGR 3.1.9 / MS-RDPEGDI 3.1.9) says the encoding means.

use crate::runner::{Outcome, Prop, Tier};
use rdp::core::event::BitmapEvent;
use serde_json::{json, Value};
use vref::bytes::hex;
use vref::rle::{self, Decoded, Form, Kind, Order};

#[derive(Clone, Debug)]
enum Case {
    Rle16 { w: u16, h: u16, orders: Vec<Order> },
    Planar { w: u16, h: u16, bgra: Vec<u8>, plane: usize, line: usize, pick: usize, all: bool },
    PlanarWide { w: u16, h: u16, bgra: Vec<u8>, strategy: usize },
    Raw16 { w: u16, h: u16, px: Vec<u16> },
    Raw32 { w: u16, h: u16, bgra: Vec<u8> },
    Widen(u16),
    /// a structured image encoded by the greedy reference encoder with a given strategy
    Encoded { w: u16, h: u16, pattern: u8, strategy: usize },
    /// placeholder for a case owned by another worker
    Skip,
}

pub fn pattern_image(w: usize, h: usize, pattern: u8) -> Vec<u16> {
    let mut lcg: u32 = 0x1234_5678 ^ (pattern as u32) << 8 ^ (w as u32 * 131 + h as u32);
    let mut next = || {
        lcg = lcg.wrapping_mul(1664525).wrapping_add(1013904223);
        lcg >> 16
    };
    let mut img = vec![0u16; w * h];
    for y in 0..h {
        for x in 0..w {
            let v = match pattern {
                0 => 0,
                1 => 0xFFFF,
                2 => if x % 2 == 0 { 0x1234 } else { 0 },
                3 => if y % 2 == 0 { 0xF81F } else { 0 },
                4 => if (x + y) % 2 == 0 { 0xFFFF } else { 0 },
                5 => ((x + y) as u16).wrapping_mul(0x0841),
                6 => PALETTE[(next() % 3) as usize],
                7 => next() as u16,
                8 => if next() % 11 == 0 { 0x07E0 } else { 0 },
                9 => ((x / 3) as u16).wrapping_mul(0x2105),
                10 => ((x / 3) as u16).wrapping_mul(0x2105) ^ if y % 2 == 1 { 0x5555 } else { 0 },
                11 => if x % 2 == 0 { 0xAAAA } else { 0x5555 },
                12 => if (x / 4 + y / 2) % 2 == 0 { 0x001F } else { 0xF800 },
                _ => if x == y { 0xFFFF } else { 0 },
            };
            img[y * w + x] = v;
        }
    }
    img
}

pub fn strategies() -> Vec<rle::EncStrategy> {
    let all = rle::EncStrategy { bg: true, fg: true, fgbg: true, color_run: true, dithered: true, special: true, form: 0, max_run: u32::MAX };
    vec![
        all,
        rle::EncStrategy { form: 1, ..all },
        rle::EncStrategy { form: 2, ..all },
        rle::EncStrategy { max_run: 7, ..all },
        rle::EncStrategy { max_run: 33, form: 2, ..all },
        rle::EncStrategy { bg: false, fg: false, fgbg: false, dithered: false, special: false, ..all },
        rle::EncStrategy { color_run: false, dithered: false, fgbg: false, ..all },
        rle::EncStrategy { bg: false, fg: false, color_run: false, dithered: false, ..all },
        rle::EncStrategy { bg: true, fg: false, fgbg: false, color_run: false, dithered: true, special: false, form: 1, max_run: 300 },
        rle::EncStrategy { fgbg: false, special: false, max_run: 16, ..all },
    ]
}

pub struct C09 {
    shard: Option<(u64, u64)>,
    cases: Vec<Option<Box<Case>>>,
    ambiguous_skipped: u64,
    tier: Tier,
}

impl C09 {
    pub fn new() -> C09 {
        C09 { shard: None, cases: vec![], ambiguous_skipped: 0, tier: Tier::Quick }
    }
}

/// cases at multiples of this index are materialised in every shard (representatives of the pair block)
const PAIR_STEP: u64 = 9973;

/// case list that keeps only the cases of this worker's shard (others become `Skip`)
struct Sink {
    v: Vec<Option<Box<Case>>>,
    shard: Option<(u64, u64)>,
}
impl Sink {
    fn mine(&self) -> bool {
        match self.shard {
            None => true,
            // every PAIR_STEP-th case is kept in every shard: the pair block draws its representatives from them
            Some((w, nw)) => self.v.len() as u64 % nw == w || (nw != u64::MAX && self.v.len() as u64 % PAIR_STEP == 0),
        }
    }
    fn push(&mut self, c: Case) {
        if self.mine() {
            self.v.push(Some(Box::new(c)))
        } else {
            self.v.push(None)
        }
    }
    fn skip(&mut self) {
        self.v.push(None)
    }
}

const PALETTE: [u16; 3] = [0x0000, 0xFFFF, 0x1234];

/// order alphabet for a shape with `total` pixels: every kind x every spellable form x every run that fits
fn alphabet(total: u32, small: bool) -> Vec<Order> {
    let mut out = vec![];
    let kinds = [Kind::BgRun, Kind::FgRun, Kind::FgBgImage, Kind::ColorRun, Kind::ColorImage, Kind::SetFgRun, Kind::SetFgFgBgImage, Kind::DitheredRun];
    for k in kinds.iter() {
        for f in [Form::Short, Form::Extended, Form::MegaMega] {
            for run in 1..=total {
                if !rle::spellable(k, &f, run) {
                    continue;
                }
                let px_out = if *k == Kind::DitheredRun { run * 2 } else { run };
                if px_out > total {
                    continue;
                }
                // mega-mega spellings only for a few runs when the shape is not tiny (keeps the space finite and small)
                if f == Form::MegaMega && !small && !(run == 1 || run == total || run == 2) {
                    continue;
                }
                match k {
                    Kind::BgRun | Kind::FgRun => out.push(Order::simple(k.clone(), f.clone(), run)),
                    Kind::SetFgRun => {
                        for &c in &[PALETTE[2], PALETTE[0]] {
                            let mut o = Order::simple(k.clone(), f.clone(), run);
                            o.fg = c;
                            out.push(o);
                        }
                    }
                    Kind::ColorRun => {
                        for &c in &PALETTE {
                            let mut o = Order::simple(k.clone(), f.clone(), run);
                            o.a = c;
                            out.push(o);
                        }
                    }
                    Kind::DitheredRun => {
                        for (a, b) in [(PALETTE[1], PALETTE[2]), (PALETTE[2], PALETTE[0])] {
                            let mut o = Order::simple(k.clone(), f.clone(), run);
                            o.a = a;
                            o.b = b;
                            out.push(o);
                        }
                    }
                    Kind::FgBgImage | Kind::SetFgFgBgImage => {
                        let nmask = ((run + 7) / 8) as usize;
                        for m in [0x00u8, 0xFF, 0x55, 0x06] {
                            let mut o = Order::simple(k.clone(), f.clone(), run);
                            o.masks = vec![m; nmask];
                            o.fg = PALETTE[2];
                            out.push(o);
                        }
                    }
                    Kind::ColorImage => {
                        // all palette strings for runs <= 2, two patterns above
                        if run <= 2 {
                            let n = 3usize.pow(run);
                            for code in 0..n {
                                let mut o = Order::simple(k.clone(), f.clone(), run);
                                let mut c = code;
                                for _ in 0..run {
                                    o.pixels.push(PALETTE[c % 3]);
                                    c /= 3;
                                }
                                out.push(o);
                            }
                        } else {
                            for start in 0..2 {
                                let mut o = Order::simple(k.clone(), f.clone(), run);
                                o.pixels = (0..run).map(|i| PALETTE[((i + start) % 3) as usize]).collect();
                                out.push(o);
                            }
                        }
                    }
                    _ => {}
                }
            }
        }
    }
    if total >= 8 {
        out.push(Order::simple(Kind::SpecialFgBg1, Form::Short, 8));
        out.push(Order::simple(Kind::SpecialFgBg2, Form::Short, 8));
    }
    out.push(Order::simple(Kind::White, Form::Short, 1));
    out.push(Order::simple(Kind::Black, Form::Short, 1));
    out
}

fn gen_sequences(w: u16, h: u16, depth: usize, alpha: &[Order], cases: &mut Sink, ambiguous: &mut u64) {
    let total = w as u32 * h as u32;
    fn rec(w: u16, h: u16, total: u32, used: u32, depth: usize, alpha: &[Order], cur: &mut Vec<Order>, cases: &mut Sink, amb: &mut u64) {
        if used == total {
            match rle::decode16(&rle::emit_all(cur), w as usize, h as usize) {
                Decoded::Image(_) => {
                    if cases.mine() {
                        cases.push(Case::Rle16 { w, h, orders: cur.clone() })
                    } else {
                        cases.skip()
                    }
                }
                Decoded::Ambiguous => *amb += 1,
                Decoded::Invalid(_) => {}
            }
            return;
        }
        if depth == 0 {
            return;
        }
        for o in alpha {
            let p = o.pixels_out();
            if used + p > total {
                continue;
            }
            cur.push(o.clone());
            rec(w, h, total, used + p, depth - 1, alpha, cur, cases, amb);
            cur.pop();
        }
    }
    rec(w, h, total, 0, depth, alpha, &mut vec![], cases, ambiguous);
}

fn plane_images(w: usize, h: usize) -> Vec<Vec<u8>> {
    // all plane value vectors over {0,1,0x7F,0x80,0xFF}; the four planes of the image are rotations of it
    let vals = [0u8, 1, 0x7F, 0x80, 0xFF];
    let n = w * h;
    let count = 5usize.pow(n as u32);
    let mut out = vec![];
    for code in 0..count {
        let mut v = vec![];
        let mut c = code;
        for _ in 0..n {
            v.push(vals[c % 5]);
            c /= 5;
        }
        let mut bgra = vec![0u8; n * 4];
        for p in 0..n {
            for ch in 0..4 {
                bgra[p * 4 + ch] = v[(p + ch) % n].wrapping_add(if n == 1 { ch as u8 * 0x40 } else { 0 });
            }
        }
        out.push(bgra);
    }
    out
}

impl Prop for C09 {
    fn id(&self) -> &'static str {
        "C09"
    }
    fn level(&self) -> &'static str {
        "exploration"
    }
    fn set_shard(&mut self, w: u64, nw: u64) {
        self.shard = Some((w, nw));
    }
    fn pair_reps(&self, _tier: Tier) -> Vec<u64> {
        let m = self.cases.len() as u64 / PAIR_STEP;
        if m < 2 {
            return vec![];
        }
        let k = 12u64.min(m);
        let mut v: Vec<u64> = (0..k).map(|i| ((2 * i + 1) * m / (2 * k)) * PAIR_STEP).collect();
        v.dedup();
        v
    }
    fn set_parent_mode(&mut self) {
        // no residue class ever matches: the parent keeps one empty slot per case
        self.shard = Some((u64::MAX - 1, u64::MAX));
    }
    fn prepare(&mut self, tier: Tier) -> Result<(), String> {
        self.tier = tier;
        let mut cases = Sink { v: vec![], shard: self.shard };
        let mut amb = 0u64;
        // interleaved RLE: tiny shapes, every order sequence up to the depth that yields a complete image
        let shapes: Vec<(u16, u16, usize)> = if tier == Tier::Quick {
            vec![(1, 1, 3), (2, 1, 3), (1, 2, 3), (2, 2, 3), (3, 1, 3), (3, 2, 3), (2, 3, 3), (6, 1, 2), (1, 6, 3)]
        } else {
            vec![(1, 1, 4), (2, 1, 4), (1, 2, 4), (2, 2, 4), (3, 1, 4), (3, 2, 3), (2, 3, 3), (6, 1, 3), (1, 6, 3), (4, 2, 2), (2, 4, 2), (5, 1, 3), (1, 5, 3)]
        };
        for (w, h, d) in shapes {
            let a = alphabet(w as u32 * h as u32, true);
            gen_sequences(w, h, d, &a, &mut cases, &mut amb);
            if std::env::var("VERIF_DEBUG_COUNTS").is_ok() {
                eprintln!("C09 shape {}x{} depth {} alphabet {} -> {} cases so far", w, h, d, a.len(), cases.v.len());
            }
        }
        // larger shapes reach the extended ("MEGA") forms, special FGBG orders and long runs: sequences of <= 2 orders
        for (w, h) in [(8u16, 2u16), (16, 3), (40, 1), (20, 2), (8, 5), (33, 1), (4, 12), (288, 1), (17, 17)] {
            let a = alphabet(w as u32 * h as u32, false);
            gen_sequences(w, h, 2, &a, &mut cases, &mut amb);
        }
        // planar 32 bpp: every plane vector over five values; vary the segmentation of one (plane, line) at a time, plus all lines together
        for (w, h) in [(1usize, 1usize), (2, 1), (1, 2), (2, 2), (4, 1), (3, 1), (1, 3)] {
            for bgra in plane_images(w, h) {
                let lines = rle::planar_lines(&bgra, w, h);
                let mut max_all = 1;
                for (pi, plane) in lines.iter().enumerate() {
                    for (li, line) in plane.iter().enumerate() {
                        let n = rle::segmentations(line).len();
                        max_all = max_all.max(n);
                        for pick in 1..n {
                            cases.push(Case::Planar { w: w as u16, h: h as u16, bgra: bgra.clone(), plane: pi, line: li, pick, all: false });
                        }
                    }
                }
                for pick in 0..max_all.min(8) {
                    cases.push(Case::Planar { w: w as u16, h: h as u16, bgra: bgra.clone(), plane: 0, line: 0, pick, all: true });
                }
            }
        }
        // planar: wide lines to reach the 16.. and 32.. run escapes (constant and patterned images)
        for (w, h) in [(20usize, 1usize), (40, 2), (47, 1), (48, 1), (64, 2), (5, 3), (46, 2), (47, 4), (48, 3), (93, 1), (94, 2), (95, 2), (141, 1), (16, 2), (17, 2), (32, 2), (33, 1)] {
            for pat in 0..6u8 {
                let mut bgra = vec![0u8; w * h * 4];
                for p in 0..w * h {
                    for ch in 0..4 {
                        bgra[p * 4 + ch] = match pat {
                            0 => 0x33,
                            1 => (p / 7) as u8 * 3 + ch as u8,
                            2 => if p % w < 3 { p as u8 } else { 0x80 },
                            3 => (p as u8).wrapping_mul(31) ^ ch as u8,
                            // flat images: every scan line of every plane is one maximal run
                            4 => 0,
                            _ => if ch == 3 { 0xFF } else { 0 },
                        };
                    }
                }
                for strategy in 0..8 {
                    cases.push(Case::PlanarWide { w: w as u16, h: h as u16, bgra: bgra.clone(), strategy });
                }
            }
        }
        // raw 16 / 32 bpp
        for (w, h) in [(1usize, 1usize), (2, 1), (1, 2), (2, 2), (3, 1), (3, 2), (2, 3), (4, 2), (5, 3)] {
            let n = w * h;
            let count = if n <= 6 { 3usize.pow(n as u32) } else { 27 };
            for code in 0..count {
                let mut px = vec![];
                let mut c = code;
                for i in 0..n {
                    px.push(if n <= 6 { PALETTE[c % 3] } else { (i as u16).wrapping_mul(0x1357) ^ code as u16 });
                    c /= 3;
                }
                cases.push(Case::Raw16 { w: w as u16, h: h as u16, px });
            }
            for bgra in plane_images(w.min(2), h.min(2)).into_iter().take(if tier == Tier::Quick { 40 } else { 625 }) {
                if w <= 2 && h <= 2 {
                    cases.push(Case::Raw32 { w: w as u16, h: h as u16, bgra });
                }
            }
            let bgra: Vec<u8> = (0..n * 4).map(|i| (i * 37 + 1) as u8).collect();
            cases.push(Case::Raw32 { w: w as u16, h: h as u16, bgra });
        }
        // structured images above the exhaustive bound, every encoder strategy
        for (w, h) in [(4u16, 4u16), (8, 8), (17, 5), (33, 3), (1, 100), (100, 1), (64, 64), (40, 30)] {
            for pattern in 0..14u8 {
                for strategy in 0..strategies().len() {
                    cases.push(Case::Encoded { w, h, pattern, strategy });
                }
            }
        }
        // large images: the pixel count passes 2^15, 2^16 and (one dimension) 2^16 - 1. Built order by order (one
        // MEGA-MEGA order per scan line: colour run / colour image / background run / foreground run / dithered run),
        // the expected pixels come from the reference decoder
        for (w, h) in [(181u16, 181u16), (182, 181), (256, 128), (255, 257), (256, 256), (300, 300), (1024, 64), (65, 1009), (4096, 17), (65535, 1), (1, 65535), (32768, 2), (2, 32768)] {
            for variant in 0..3u16 {
                let mut orders = vec![];
                for y in 0..h {
                    let run = w as u32;
                    let mk = |kind: Kind, a: u16, b: u16, pixels: Vec<u16>| Order { kind, form: Form::MegaMega, run, fg: 0, a, b, masks: vec![], pixels };
                    let k = (y.wrapping_add(variant)) % 5;
                    let o = match k {
                        0 => mk(Kind::ColorRun, 0x1234u16.wrapping_add(y), 0, vec![]),
                        1 => mk(Kind::ColorImage, 0, 0, (0..w).map(|x| x.wrapping_mul(0x0821) ^ y).collect()),
                        2 if y > 0 => mk(Kind::BgRun, 0, 0, vec![]),
                        3 if y > 0 => mk(Kind::FgRun, 0, 0, vec![]),
                        4 if w % 2 == 0 => Order { run: w as u32 / 2, ..mk(Kind::DitheredRun, 0xF800, 0x001F, vec![]) },
                        _ => mk(Kind::ColorRun, 0xFFFF, 0, vec![]),
                    };
                    orders.push(o);
                }
                cases.push(Case::Rle16 { w, h, orders });
            }
        }
        // planar 32 bpp and raw images of the same sizes (flat and patterned)
        for (w, h) in [(128usize, 128usize), (181, 181), (256, 128), (256, 256), (1024, 64), (16384, 1), (1, 16384), (65535, 1)] {
            for pat in [0u8, 3] {
                let mut bgra = vec![0u8; w * h * 4];
                for (i, b) in bgra.iter_mut().enumerate() {
                    *b = if pat == 0 { 0x20 } else { ((i / 4) as u8).wrapping_mul(31) ^ (i % 4) as u8 };
                }
                cases.push(Case::PlanarWide { w: w as u16, h: h as u16, bgra: bgra.clone(), strategy: 0 });
                cases.push(Case::Raw32 { w: w as u16, h: h as u16, bgra });
            }
            let px: Vec<u16> = (0..w * h).map(|i| (i as u16).wrapping_mul(0x1357)).collect();
            cases.push(Case::Raw16 { w: w as u16, h: h as u16, px });
        }
        // all 65536 colour values
        for v in 0..=0xFFFFu32 {
            cases.push(Case::Widen(v as u16));
        }
        self.cases = cases.v;
        self.ambiguous_skipped = amb;
        Ok(())
    }
    fn n_cases(&self) -> u64 {
        self.cases.len() as u64
    }
    fn describe(&self, idx: u64) -> Value {
        let skip = Case::Skip;
        match self.cases[idx as usize].as_deref().unwrap_or(&skip) {
            Case::Rle16 { w, h, orders } => json!({"idx": idx, "kind": "rle16", "w": w, "h": h, "orders": orders, "stream_hex": hex(&rle::emit_all(orders))}),
            Case::Planar { w, h, bgra, plane, line, pick, all } => json!({"idx": idx, "kind": "planar32", "w": w, "h": h, "bgra_hex": hex(&bgra[..bgra.len().min(64)]), "plane": plane, "line": line, "segmentation_pick": pick, "all_lines": all}),
            Case::PlanarWide { w, h, bgra, strategy } => json!({"idx": idx, "kind": "planar32-wide", "w": w, "h": h, "bgra_hex": hex(&bgra[..bgra.len().min(64)]), "strategy": strategy}),
            Case::Raw16 { w, h, px } => json!({"idx": idx, "kind": "raw16", "w": w, "h": h, "pixels": px}),
            Case::Raw32 { w, h, bgra } => json!({"idx": idx, "kind": "raw32", "w": w, "h": h, "bgra_hex": hex(&bgra[..bgra.len().min(64)])}),
            Case::Widen(v) => json!({"idx": idx, "kind": "widen565", "value": v}),
            Case::Encoded { w, h, pattern, strategy } => json!({"idx": idx, "kind": "rle16-encoded", "w": w, "h": h, "pattern": pattern, "strategy": strategies()[*strategy]}),
            Case::Skip => json!({"idx": idx, "kind": "not-materialised"}),
        }
    }
    fn rule(&self) -> String {
        "cases are encodings. [rle16] every sequence of <=3 interleaved-RLE orders (<=4 for shapes up to 4 pixels in thorough) over {all 12 order kinds} x {short, extended, mega-mega forms} x {every run length that fits} x palette {0,0xFFFF,0x1234} that the reference decoder maps onto a complete image of the shape (shapes up to 6 px; larger shapes with <=2 orders to reach extended forms / special orders); [planar32] every plane vector over {0,1,7F,80,FF} for shapes up to 2x2/4x1 x every segmentation of every scan line (one line varied at a time, plus all together), and wide lines (widths 16..141 around the 16/32/47-pixel run escapes and their multiples; constant, flat-zero, opaque-black and patterned images x 8 segmentation strategies) for the long-run escapes; [rle16-encoded] 14 structured image patterns x 8 sizes up to 64x64 x 10 deterministic strategies of a greedy reference encoder (order kinds allowed, preferred spelling, run-length cap); large images whose pixel count passes 2^15 / 2^16 or whose side is 65535, in all four formats; [raw16]/[raw32] bottom-up uncompressed layouts; [widen565] all 65536 colours. Non-trivial: >=2 orders or a non-default segmentation or >=2 rows. Every case is decoded under its full destination rectangle and again under 2..6 other rectangles (a single cell, narrower than the buffer, inverted, 65535-wide, one row): the pixels must not depend on the rectangle; then the same bytes are decoded under the transposed shape (same pixel count, same rectangle) and judged wherever the reference maps them onto a complete image of that shape, then the stream cut at 1/2, 3/4 and before its last byte is decoded (whatever that returns), and the case itself is decoded after all that. Compressed cases of up to 2^16 pixels are also decoded through the public rle_16_decompress / rle_32_decompress into a buffer pre-filled with 0xAA: same pixels.".into()
    }
    fn assumptions(&self) -> Vec<String> {
        vec![
            format!("{} enumerated order sequences in which a background/foreground/FGBG order straddles the end of the first scan line were excluded: MS-RDPBCGR's prose and pseudo-code disagree there", self.ambiguous_skipped),
            "uncompressed 16 bpp rows are padded to a multiple of four bytes (MS-RDPBCGR 2.2.9.1.1.3.1.2.2)".into(),
            "the reference decoder is a transcription of the MS-RDPBCGR 3.1.9 pseudo-code; the reference planar encoder is validated against a reference planar decoder at start-up".into(),
        ]
    }
    fn coverage_extra(&self) -> Value {
        let mut counts = std::collections::BTreeMap::new();
        let skip = Case::Skip;
        for c in &self.cases {
            let k = match c.as_deref().unwrap_or(&skip) {
                Case::Rle16 { .. } => "rle16",
                Case::Planar { .. } | Case::PlanarWide { .. } => "planar32",
                Case::Raw16 { .. } => "raw16",
                Case::Raw32 { .. } => "raw32",
                Case::Widen(_) => "widen565",
                Case::Encoded { .. } => "rle16-encoded",
                Case::Skip => "skip",
            };
            *counts.entry(k).or_insert(0u64) += 1;
        }
        json!({"blocks": counts, "ambiguous_straddling_sequences_excluded": self.ambiguous_skipped})
    }
    fn mem_rule(&self, _p: usize, _m: usize, _b: u64) -> Option<String> {
        None
    }
    fn run_case(&mut self, idx: u64) -> Outcome {
        let c = match &self.cases[idx as usize] {
            Some(c) => (**c).clone(),
            None => panic!("VERIF: case of another shard executed"),
        };
        let (w, h, bpp, compress, data, want, nontrivial, kind): (u16, u16, u16, bool, Vec<u8>, Vec<u8>, bool, String) = match c {
            Case::Rle16 { w, h, orders } => {
                let data = rle::emit_all(&orders);
                let img = match rle::decode16(&data, w as usize, h as usize) {
                    Decoded::Image(i) => i,
                    _ => return Outcome::pass("not-conformant", false),
                };
                let kinds: std::collections::BTreeSet<String> = orders.iter().map(|o| format!("{:?}", o.kind)).collect();
                (w, h, 16, true, data, rle::image16_to_bgra(&img), orders.len() >= 2, format!("rle16-{}", kinds.into_iter().collect::<Vec<_>>().join("+")))
            }
            Case::Planar { w, h, bgra, plane, line, pick, all } => {
                let data = rle::planar_encode(&bgra, w as usize, h as usize, |pi, li, segs| if all { pick % segs.len() } else if pi == plane && li == line { pick % segs.len() } else { 0 });
                (w, h, 32, true, data, bgra, pick > 0 || h > 1, "planar32".into())
            }
            Case::PlanarWide { w, h, bgra, strategy } => {
                let data = rle::planar_encode_with(&bgra, w as usize, h as usize, |_, _, line| rle::strategy_segs(line, strategy));
                (w, h, 32, true, data, bgra, true, "planar32".into())
            }
            Case::Raw16 { w, h, px } => (w, h, 16, false, rle::raw16(&px, w as usize, h as usize), rle::image16_to_bgra(&px), h > 1, format!("raw16-w{}", w % 2)),
            Case::Raw32 { w, h, bgra } => (w, h, 32, false, rle::raw32(&bgra, w as usize, h as usize), bgra, h > 1, "raw32".into()),
            Case::Widen(v) => (1, 1, 16, false, rle::raw16(&[v], 1, 1), rle::widen565(v).to_vec(), true, "widen565".into()),
            Case::Encoded { w, h, pattern, strategy } => {
                let img = pattern_image(w as usize, h as usize, pattern);
                let orders = rle::encode16(&img, w as usize, h as usize, &strategies()[strategy]);
                let data = rle::emit_all(&orders);
                match rle::decode16(&data, w as usize, h as usize) {
                    Decoded::Image(i) if i == img => {}
                    other => return Outcome::fail("machinery", "machinery", format!("the reference encoder and decoder disagree on pattern {} {}x{} strategy {}: {:?}", pattern, w, h, strategy, matches!(other, Decoded::Image(_)))),
                }
                let kinds: std::collections::BTreeSet<String> = orders.iter().map(|o| format!("{:?}", o.kind)).collect();
                (w, h, 16, true, data, rle::image16_to_bgra(&img), true, format!("rle16-encoded-{}", kinds.into_iter().collect::<Vec<_>>().join("+")))
            }
            Case::Skip => panic!("VERIF: case of another shard executed"),
        };
        // the decoded image is width x height whatever the destination rectangle says (it may be narrower than the
        // buffer, MS-RDPBCGR 2.2.9.1.1.3.1.2.2): the same data under several rectangles must decode to the same pixels
        let mut rects: Vec<(u16, u16, u16, u16)> = vec![(0, 0, w.wrapping_sub(1), h.wrapping_sub(1))];
        if (w as usize) * (h as usize) <= 4096 {
            rects.extend([(0, 0, 0, 0), (5, 7, 5 + (w / 2).saturating_sub(1), 7 + h.saturating_sub(1)), (w, h, 0, 0), (0, 0, 65535, 65535), (3, 0, 3 + w.saturating_sub(2), 0)]);
        } else {
            rects.push((1, 1, w / 2, h / 2));
        }
        for (ri, (dl, dt, dr, db)) in rects.iter().enumerate().skip(1) {
            let ev = BitmapEvent { dest_left: *dl, dest_top: *dt, dest_right: *dr, dest_bottom: *db, width: w, height: h, bpp, is_compress: compress, data: data.clone() };
            match ev.decompress() {
                Ok(v) if v == want => {}
                other => {
                    let short = kind.split('-').next().unwrap_or("").to_string();
                    return Outcome::fail("mismatch", format!("{}-depends-on-the-destination-rectangle", short), format!("{}: {}x{} with destination rectangle #{} ({},{})-({},{}): {}", kind, w, h, ri, dl, dt, dr, db, match other { Ok(v) => format!("{} bytes, differing from the reference", v.len()), Err(e) => format!("{:?}", e) }));
                }
            }
        }
        // the same bytes under the transposed shape (same pixel count, same destination rectangle), right after the decodes
        // above: they are decoded on their own terms (the first scan line is as long as the shape says), whatever was
        // decoded before; judged where the reference maps them onto a complete image of that shape
        if w != h && w > 0 && h > 0 && (w as usize) * (h as usize) <= 4096 {
            let (w2, h2) = (h, w);
            let want2: Option<Vec<u8>> = if compress && bpp == 16 {
                match rle::decode16(&data, w2 as usize, h2 as usize) {
                    Decoded::Image(i) => Some(rle::image16_to_bgra(&i)),
                    _ => None,
                }
            } else if compress {
                rle::planar_decode(&data, w2 as usize, h2 as usize).ok()
            } else if bpp == 32 {
                Some(data.chunks(w2 as usize * 4).rev().flat_map(|r| r.iter().copied()).collect())
            } else {
                None
            };
            if let Some(want2) = want2 {
                let ev = BitmapEvent { dest_left: 0, dest_top: 0, dest_right: w.wrapping_sub(1), dest_bottom: h.wrapping_sub(1), width: w2, height: h2, bpp, is_compress: compress, data: data.clone() };
                match ev.decompress() {
                    Ok(v) if v == want2 => {}
                    other => {
                        let short = kind.split('-').next().unwrap_or("").to_string();
                        return Outcome::fail("mismatch", format!("{}-wrong-pixels-under-the-transposed-shape", short), format!("{}: the bytes of a {}x{} image decoded as {}x{} right after (same destination rectangle): {}", kind, w, h, w2, h2, match other { Ok(v) => format!("{} bytes, differing from the reference at byte {}", v.len(), v.iter().zip(want2.iter()).position(|(a, b)| a != b).unwrap_or(v.len().min(want2.len()))), Err(e) => format!("{:?}", e) }));
                    }
                }
            }
        }
        // and after decodes that fail half-way: the same stream cut in the middle, at three quarters and before its last
        // byte (whatever they return), then the case itself: nothing of a refused stream may show in the next image
        if compress && (w as usize) * (h as usize) <= 4096 && data.len() >= 2 {
            for cut in [data.len() / 2, data.len() * 3 / 4, data.len() - 1] {
                let ev = BitmapEvent { dest_left: 0, dest_top: 0, dest_right: w.wrapping_sub(1), dest_bottom: h.wrapping_sub(1), width: w, height: h, bpp, is_compress: true, data: data[..cut].to_vec() };
                let _ = ev.decompress();
            }
        }
        let data2 = if compress { data.clone() } else { vec![] };
        let ev = BitmapEvent { dest_left: 0, dest_top: 0, dest_right: w.wrapping_sub(1), dest_bottom: h.wrapping_sub(1), width: w, height: h, bpp, is_compress: compress, data };
        match ev.decompress() {
            Err(e) => Outcome::fail("error", format!("conformant-encoding-rejected-{}", kind.split('-').next().unwrap_or("")), format!("decompress returned {:?} for a conformant {} encoding", e, kind)),
            Ok(v) => {
                if v != want {
                    let first = v.iter().zip(want.iter()).position(|(a, b)| a != b).unwrap_or(v.len().min(want.len()));
                    let short = kind.split('-').next().unwrap_or("").to_string();
                    let sig = match short.as_str() {
                        "raw32" => "raw32-not-top-down".to_string(),
                        "raw16" => format!("{}-wrong-pixels", kind),
                        _ => format!("{}-wrong-pixels", short),
                    };
                    return Outcome::fail("mismatch", sig, format!("{}: {}x{} output differs from the reference at byte {} (got len {}, want len {}; got {:02x?} want {:02x?})", kind, w, h, first, v.len(), want.len(), &v[first.min(v.len())..(first + 8).min(v.len())], &want[first.min(want.len())..(first + 8).min(want.len())]));
                }
                // the decoders are public: a caller may hand them a buffer that still holds another image (a conformant
                // stream defines every pixel, so the result does not depend on what was there)
                if compress && w > 0 && h > 0 && (w as usize) * (h as usize) <= 1 << 16 {
                    let dirty = if bpp == 32 {
                        let mut out = vec![0xAAu8; w as usize * h as usize * 4];
                        rdp::codec::rle::rle_32_decompress(&data2, w as u32, h as u32, &mut out).map(|_| out)
                    } else {
                        let mut out = vec![0xAAAAu16; w as usize * h as usize * 2];
                        rdp::codec::rle::rle_16_decompress(&data2, w as usize, h as usize, &mut out).map(|_| rdp::codec::rle::rgb565torgb32(&out, w as usize, h as usize))
                    };
                    match dirty {
                        Ok(v) if v == want => {}
                        Ok(v) => {
                            let first = v.iter().zip(want.iter()).position(|(a, b)| a != b).unwrap_or(0);
                            return Outcome::fail("mismatch", format!("{}-depends-on-the-previous-content-of-the-output-buffer", kind.split('-').next().unwrap_or("")), format!("{}: {}x{} decoded into a buffer pre-filled with 0xAA differs from the reference at byte {}", kind, w, h, first));
                        }
                        Err(e) => return Outcome::fail("mismatch", format!("{}-depends-on-the-previous-content-of-the-output-buffer", kind.split('-').next().unwrap_or("")), format!("{}: direct decode into a pre-filled buffer failed: {:?}", kind, e)),
                    }
                }
                Outcome::pass(kind, nontrivial)
            }
        }
    }
}
