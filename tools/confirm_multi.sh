#!/bin/bash
# usage: confirm_multi.sh <ID> <suffix> — confirm the three changes /tmp/<ID><suffix>-change-{1,2,3}.patch of a sub-agent
# (demos in /tmp/wt-<ID><suffix>/tests/demo_<id>_k.rs) in a fresh scratch worktree each; store as /verif/seeded/<ID><suffix>k/
set -u
id="$1"; suf="$2"; low=$(echo $id | tr A-Z a-z)
export CARGO_NET_OFFLINE=true
for k in 1 2 3; do
  patch=/tmp/$id$suf-change-$k.patch; demo=/tmp/wt-$id$suf/tests/demo_${low}_$k.rs
  [ -s "$patch" ] && [ -f "$demo" ] || { echo "$id$suf$k: missing patch or demo"; continue; }
  wt=/tmp/cwt-$id$suf$k; out=/verif/seeded/$id$suf$k
  export CARGO_TARGET_DIR=/tmp/mut-target-$id$suf$k
  git -C /repo worktree remove --force $wt 2>/dev/null
  git -C /repo worktree add -q --detach $wt HEAD || { echo "$id$suf$k: worktree failed"; continue; }
  ( cd $wt && mkdir -p tests && cp "$demo" tests/ && git apply "$patch" ) || { echo "$id$suf$k: patch does not apply"; git -C /repo worktree remove --force $wt; continue; }
  cd $wt
  flags=""; grep -q 'verif_\|rnd::verif' "$demo" && flags="--cfg rdp_rs_verif"
  dn=demo_${low}_$k
  cargo test --offline --lib 2>&1 | grep -E '^test result' > /tmp/cm-$id$suf$k.unit
  RUSTFLAGS="$flags" timeout 900 cargo test --offline --test $dn 2>&1 | grep -E "^test result" | head -3 > /tmp/cm-$id$suf$k.with
  git apply -R "$patch"
  RUSTFLAGS="$flags" timeout 900 cargo test --offline --test $dn 2>&1 | grep -E "^test result" | head -3 > /tmp/cm-$id$suf$k.without
  ok=1
  grep -q '39 passed; 0 failed' /tmp/cm-$id$suf$k.unit || ok=0
  grep -q 'FAILED' /tmp/cm-$id$suf$k.with || ok=0
  grep -q 'test result: ok' /tmp/cm-$id$suf$k.without || ok=0
  echo "$id$suf$k CONFIRMED=$ok flags='$flags'"
  if [ $ok = 1 ]; then
    mkdir -p "$out"; cp "$patch" "$out/patch.diff"; cp "$demo" "$out/"; echo "$flags" > "$out/.flags"
  fi
  cd /; git -C /repo worktree remove --force $wt; rm -rf "$CARGO_TARGET_DIR" /tmp/cm-$id$suf$k.*
done
