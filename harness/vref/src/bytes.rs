//! Minimal byte reader / writer used by every reference codec.
//! Deliberately boring: explicit offsets, explicit errors, no traits.

pub type PResult<T> = Result<T, String>;

#[derive(Default, Clone, Debug)]
pub struct W(pub Vec<u8>);

impl W {
    pub fn new() -> Self {
        W(Vec::new())
    }
    pub fn u8(&mut self, v: u8) -> &mut Self {
        self.0.push(v);
        self
    }
    pub fn u16le(&mut self, v: u16) -> &mut Self {
        self.0.extend_from_slice(&v.to_le_bytes());
        self
    }
    pub fn u16be(&mut self, v: u16) -> &mut Self {
        self.0.extend_from_slice(&v.to_be_bytes());
        self
    }
    pub fn u32le(&mut self, v: u32) -> &mut Self {
        self.0.extend_from_slice(&v.to_le_bytes());
        self
    }
    pub fn u32be(&mut self, v: u32) -> &mut Self {
        self.0.extend_from_slice(&v.to_be_bytes());
        self
    }
    pub fn u64le(&mut self, v: u64) -> &mut Self {
        self.0.extend_from_slice(&v.to_le_bytes());
        self
    }
    pub fn bytes(&mut self, v: &[u8]) -> &mut Self {
        self.0.extend_from_slice(v);
        self
    }
    pub fn zeros(&mut self, n: usize) -> &mut Self {
        self.0.extend(std::iter::repeat(0u8).take(n));
        self
    }
    pub fn len(&self) -> usize {
        self.0.len()
    }
    pub fn is_empty(&self) -> bool {
        self.0.is_empty()
    }
    pub fn done(self) -> Vec<u8> {
        self.0
    }
}

#[derive(Clone, Debug)]
pub struct R<'a> {
    pub b: &'a [u8],
    pub p: usize,
}

impl<'a> R<'a> {
    pub fn new(b: &'a [u8]) -> Self {
        R { b, p: 0 }
    }
    pub fn remaining(&self) -> usize {
        self.b.len() - self.p
    }
    pub fn at_end(&self) -> bool {
        self.p == self.b.len()
    }
    pub fn take(&mut self, n: usize) -> PResult<&'a [u8]> {
        if self.remaining() < n {
            return Err(format!("short read: need {} at offset {} of {}", n, self.p, self.b.len()));
        }
        let s = &self.b[self.p..self.p + n];
        self.p += n;
        Ok(s)
    }
    pub fn rest(&mut self) -> &'a [u8] {
        let s = &self.b[self.p..];
        self.p = self.b.len();
        s
    }
    pub fn peek_rest(&self) -> &'a [u8] {
        &self.b[self.p..]
    }
    pub fn u8(&mut self) -> PResult<u8> {
        Ok(self.take(1)?[0])
    }
    pub fn u16le(&mut self) -> PResult<u16> {
        let s = self.take(2)?;
        Ok(u16::from_le_bytes([s[0], s[1]]))
    }
    pub fn u16be(&mut self) -> PResult<u16> {
        let s = self.take(2)?;
        Ok(u16::from_be_bytes([s[0], s[1]]))
    }
    pub fn u32le(&mut self) -> PResult<u32> {
        let s = self.take(4)?;
        Ok(u32::from_le_bytes([s[0], s[1], s[2], s[3]]))
    }
    pub fn u32be(&mut self) -> PResult<u32> {
        let s = self.take(4)?;
        Ok(u32::from_be_bytes([s[0], s[1], s[2], s[3]]))
    }
    pub fn expect_end(&self, what: &str) -> PResult<()> {
        if self.at_end() {
            Ok(())
        } else {
            Err(format!("{}: {} trailing bytes at offset {}", what, self.remaining(), self.p))
        }
    }
}

pub fn hex(b: &[u8]) -> String {
    let mut s = String::with_capacity(b.len() * 2);
    for x in b {
        s.push_str(&format!("{:02x}", x));
    }
    s
}

pub fn unhex(s: &str) -> Vec<u8> {
    let s: Vec<u8> = s.bytes().filter(|c| c.is_ascii_hexdigit()).collect();
    s.chunks(2)
        .map(|c| u8::from_str_radix(std::str::from_utf8(c).unwrap(), 16).unwrap())
        .collect()
}

pub fn utf16le(s: &str) -> Vec<u8> {
    let mut v = Vec::new();
    for u in s.encode_utf16() {
        v.extend_from_slice(&u.to_le_bytes());
    }
    v
}

/// find `needle` in `hay`
pub fn find(hay: &[u8], needle: &[u8]) -> Option<usize> {
    if needle.is_empty() || hay.len() < needle.len() {
        return None;
    }
    (0..=hay.len() - needle.len()).find(|&i| &hay[i..i + needle.len()] == needle)
}
