#!/usr/bin/env python3
"""Print DESIGN §12.7 table rows for the seeded changes whose name ends with <suffix><k> (from their meta.json)."""
import json, sys, glob, re
suf = sys.argv[1]
# optional second argument: a JSON file {name: "what had to change"} appended to the rows as "— **missed**: ..."
notes = json.load(open(sys.argv[2])) if len(sys.argv) > 2 else {}
for d in sorted(glob.glob(f'/verif/seeded/C??{suf}?')):
    name = d.split('/')[-1]
    m = json.load(open(d + '/meta.json'))
    det = []
    for chk, r in m.get('checks_run_against_it', {}).items():
        if r.get('exit') == 1:
            sig = (r.get('violation_signatures') or [''])[0]
            sig = re.sub(r'/root/\.cargo/registry/src/[^/]+/', '', sig)
            det.append(f"{chk} `{sig[:70]}`")
    note = f" — **missed**: {notes[name]}" if name in notes else ""
    print(f"| {name} {m['change']} | {m.get('needs_to_manifest','')} | {'; '.join(det) if det else '**not detected**'}{note} |")
