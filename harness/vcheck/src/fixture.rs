//! Builders for a real client stack connected to the reference peer over the in-memory link.
//! `raw_*`: post-negotiation stack over Stream::Raw (hooks H3/H4) — cheap, for the large sweeps.

use crate::memlink::{MemLink, Shared};
use crate::peer::{Deviation, RawPeer, RefServer, ServerParams};
use rdp::core::client::RdpClient;
use rdp::core::gcc::KeyboardLayout;
use rdp::core::{global, mcs, sec, tpkt, x224};
use rdp::model::link::{Link, Stream};
use serde::{Deserialize, Serialize};
use std::cell::RefCell;
use std::rc::Rc;

#[derive(Clone, Debug, Serialize, Deserialize, PartialEq)]
pub struct ClientCfg {
    pub name: String,
    pub width: u16,
    pub height: u16,
    /// 0 = US, 1 = French, 2 = Arabic
    pub layout: u8,
    pub domain: String,
    pub user: String,
    pub password: String,
    pub auto_logon: bool,
}

impl Default for ClientCfg {
    fn default() -> Self {
        ClientCfg { name: "rdp-rs".into(), width: 800, height: 600, layout: 0, domain: "dom".into(), user: "user".into(), password: "S3cr3t-pässwörd".into(), auto_logon: false }
    }
}

pub fn layout_of(l: u8) -> KeyboardLayout {
    match l {
        1 => KeyboardLayout::French,
        2 => KeyboardLayout::Arabic,
        _ => KeyboardLayout::US,
    }
}

pub fn layout_code(l: u8) -> u32 {
    match l {
        1 => 0x040c,
        2 => 0x0401,
        _ => 0x0409,
    }
}

pub struct RawConn {
    pub client: Option<RdpClient<MemLink>>,
    pub peer: Rc<RefCell<RawPeer>>,
    pub sh: Rc<RefCell<Shared>>,
    /// stage at which connecting failed, with the error text
    pub error: Option<(String, String)>,
}

/// connect the real mcs/sec/global layers (selected protocol: SSL) against the reference server
pub fn raw_connect(cfg: &ClientCfg, p: ServerParams, devs: Vec<Deviation>) -> RawConn {
    raw_connect_as(cfg, p, devs, x224::Protocols::ProtocolSSL)
}

/// the same with the security protocol the x224 layer reports as selected (standard RDP security: the upper layers
/// then run as they would after a server that selected PROTOCOL_RDP)
pub fn raw_connect_as(cfg: &ClientCfg, p: ServerParams, devs: Vec<Deviation>, selected: x224::Protocols) -> RawConn {
    // the client's "random" values are the same in every run and in a replay
    struct Unpattern;
    impl Drop for Unpattern {
        fn drop(&mut self) {
            rdp::model::rnd::verif::set_pattern(None);
        }
    }
    let _unpattern = Unpattern;
    rdp::model::rnd::verif::set_pattern(Some((0..61u32).map(|i| (i.wrapping_mul(0x9E37_79B1) >> 23) as u8 ^ 0x5C).collect()));
    let peer = Rc::new(RefCell::new(RawPeer { srv: RefServer::at_mcs(p, devs) }));
    let link = MemLink::with_peer(peer.clone());
    let sh = link.sh.clone();
    let t = tpkt::Client::new(Link::new(Stream::Raw(link)));
    let x = x224::Client::verif_new_raw(t, selected);
    let mut m = mcs::Client::new(x);
    if let Err(e) = m.connect(cfg.name.clone(), cfg.width, cfg.height, layout_of(cfg.layout)) {
        return RawConn { client: None, peer, sh, error: Some(("mcs".into(), format!("{:?}", e))) };
    }
    if let Err(e) = sec::connect(&mut m, &cfg.domain, &cfg.user, &cfg.password, cfg.auto_logon) {
        return RawConn { client: None, peer, sh, error: Some(("sec".into(), format!("{:?}", e))) };
    }
    let g = global::Client::new(m.get_user_id(), m.get_global_channel_id(), cfg.width, cfg.height, layout_of(cfg.layout), &cfg.name);
    RawConn { client: Some(RdpClient::verif_from_parts(m, g)), peer, sh, error: None }
}

/// read until the client reaches the Data state (at most `max_reads` reads); returns Err(text) on a read error
pub fn drive_activation(c: &mut RdpClient<MemLink>, max_reads: usize) -> Result<usize, String> {
    let mut n = 0;
    while c.verif_global().verif_state_id() != 5 {
        if n >= max_reads {
            return Err(format!("not active after {} reads (state {})", n, c.verif_global().verif_state_id()));
        }
        c.read(|_| {}).map_err(|e| format!("read #{}: {:?}", n, e))?;
        n += 1;
    }
    Ok(n)
}

/// fully activated raw connection or panic with the reason (used where the honest prefix must work)
pub fn raw_active(cfg: &ClientCfg, p: ServerParams) -> Result<RawConn, String> {
    let mut c = raw_connect(cfg, p, vec![]);
    if let Some((stage, e)) = &c.error {
        return Err(format!("honest connect failed at {}: {}", stage, e));
    }
    drive_activation(c.client.as_mut().unwrap(), 16)?;
    Ok(c)
}
