//! C18 — encoders and decoders are mutually inverse and agree with reference codecs.
//!  [model] every message shape of <= 4 nodes (<= 5 thorough) over the library's message model
//!  [per]   PER primitives over their whole (or boundary) domains
//!  [asn1]  the ASN.1 value shapes used by MCS and CredSSP against an independent DER codec
//!  [gcc]   conference create request / every response the reference encoder can produce

use crate::runner::{Outcome, Prop, Tier};
use rdp::core::gcc as lgcc;
use rdp::core::per as lper;
use rdp::model::data::{Array, Check, Component, DataType, DynOption, Message, MessageOption, Trame, U16, U32};
use rdp::nla::asn1::{self as lasn1, ASN1Type, ExplicitTag, ImplicitTag, OctetString, Sequence, SequenceOf, ASN1};
use rdp::nla::cssp as lcssp;
use rdp::{component, sequence, sequence_of, trame};
use serde::Serialize;
use serde_json::{json, Value};
use std::io::Cursor;
use vref::bytes::{hex, R, W};
use vref::{der, gcc as rgcc, per as rper};

// ------------------------------------------------------------------ message model shapes

#[derive(Clone, Debug, Serialize, PartialEq)]
enum Field {
    U8,
    /// n one-byte fields in a row (1 node): widens the record so that later fields sit at positions >= 32 / >= 64
    Pad(usize),
    U16LE,
    U16BE,
    U32LE,
    U32BE,
    Bytes(usize),
    CheckU8,
    CheckU16LE,
    /// trame![U16LE, u8]  (3 nodes)
    TrameU16U8,
    /// trame![Option<U16LE> (present / absent), u8] (3 nodes): an absent optional element followed by data
    TrameOptMid(bool),
    /// nested component {a: u8, b: U32BE} (3 nodes)
    Nested,
    /// length field (U16LE) + byte block of that length (2 nodes)
    SizedBytes(usize),
    /// length field (u8) + array of U16LE elements occupying that many bytes (2 nodes)
    SizedArray(usize),
    /// length field (U16LE) announcing `.0` bytes + byte block of `.1` bytes (2 nodes): the announced size excludes a
    /// terminator or differs otherwise (cbDomain / Domain): write() and length() go by the field, not by the announcement;
    /// written and measured only
    SizedMismatch(usize, usize),
    /// flag byte + U16BE field present iff flag != 0 (2 nodes)
    SkipPair(bool),
    /// flag byte, an unrelated u8, then the U16BE field present iff flag != 0 (3 nodes): the target is not adjacent
    SkipGap(bool),
    /// flagA, flagB, a (U16BE, present iff flagA != 0), b (u8, present iff flagB != 0) (4 nodes): two skips pending at once
    SkipTwo(bool, bool),
    /// a: U16BE, then a flag byte whose SkipField names the EARLIER field a (no effect: a is already on the wire) (2 nodes)
    SkipBack(bool),
    /// flagA (skip b), b = a flag byte that would skip c, c: U16BE (3 nodes): when b is skipped its own option must not apply
    SkipChain(bool, bool),
    /// size byte (=1) sizing b, b = a flag byte (read from its own 1-byte window) that skips c: U16BE iff 0 (3 nodes):
    /// the options of a size-dependent field must be honoured like those of any other field
    SizedSkip(bool),
    /// size byte (=1) sizing b, b = a length byte sizing the byte block c (3 nodes): nested length prefixes
    NestedSize(usize),
    /// flag byte that skips c iff 0, size byte announcing the size of c, c = byte block (3 nodes): when c is skipped the
    /// announced size (1) is never used
    SizeOfSkipped(bool),
    /// an EMPTY byte block whose option skips the next field (a U16BE), then that field, then a u8 (3 nodes): a field that
    /// weighs nothing still has its say
    EmptySkipper,
    /// trailing optional U16LE, present or absent (last only)
    OptU16(bool),
    /// trailing byte block reading to the end (last only)
    Rest(usize),
    /// trailing array of {u8, U16LE} records (last only)
    ArrayLast(usize),
}

impl Field {
    fn nodes(&self) -> usize {
        match self {
            Field::SkipTwo(..) => 4,
            Field::TrameU16U8 | Field::TrameOptMid(_) | Field::Nested | Field::SkipGap(_) | Field::SkipChain(..) | Field::SizedSkip(_) | Field::NestedSize(_) | Field::SizeOfSkipped(_) | Field::EmptySkipper => 3,
            Field::SizedBytes(_) | Field::SizedArray(_) | Field::SizedMismatch(..) | Field::SkipPair(_) | Field::SkipBack(_) => 2,
            _ => 1,
        }
    }
    fn last_only(&self) -> bool {
        matches!(self, Field::OptU16(_) | Field::Rest(_) | Field::ArrayLast(_))
    }
}

fn field_menu() -> Vec<Field> {
    vec![
        Field::U8,
        Field::Pad(31),
        Field::Pad(64),
        Field::U16LE,
        Field::U16BE,
        Field::U32LE,
        Field::U32BE,
        Field::Bytes(1),
        Field::Bytes(3),
        Field::CheckU8,
        Field::CheckU16LE,
        Field::TrameU16U8,
        Field::TrameOptMid(true),
        Field::TrameOptMid(false),
        Field::Nested,
        Field::SizedBytes(0),
        Field::SizedBytes(1),
        Field::SizedBytes(3),
        Field::SizedMismatch(4, 6),
        Field::SizedMismatch(6, 4),
        Field::SizedMismatch(0, 2),
        Field::SizedArray(0),
        Field::SizedArray(1),
        Field::SizedArray(2),
        Field::SkipPair(true),
        Field::SkipPair(false),
        Field::SkipGap(true),
        Field::SkipGap(false),
        Field::SkipTwo(true, true),
        Field::SkipTwo(true, false),
        Field::SkipTwo(false, true),
        Field::SkipTwo(false, false),
        Field::SkipBack(true),
        Field::SkipBack(false),
        Field::SkipChain(true, true),
        Field::SkipChain(true, false),
        Field::SkipChain(false, true),
        Field::SkipChain(false, false),
        Field::SizedSkip(true),
        Field::SizedSkip(false),
        Field::NestedSize(0),
        Field::NestedSize(3),
        Field::SizeOfSkipped(true),
        Field::SizeOfSkipped(false),
        Field::EmptySkipper,
        Field::OptU16(true),
        Field::OptU16(false),
        Field::Rest(0),
        Field::Rest(2),
        Field::Rest(65535),
        Field::Rest(65536),
        Field::Rest(70001),
        Field::ArrayLast(0),
        Field::ArrayLast(2),
    ]
}

const V8: [u8; 5] = [0, 1, 0x7F, 0x80, 0xFF];
const V16: [u16; 5] = [0, 1, 0x7FFF, 0x8000, 0xFFFF];
const V32: [u32; 5] = [0, 1, 0x8000_0000, 0xFFFF_FFFF, 0x0102_0304];

/// flat list of observed leaf values (for comparison)
#[derive(Clone, Debug, PartialEq)]
enum Leaf {
    B(u8),
    H(u16),
    W(u32),
    S(Vec<u8>),
    None,
}

struct Built {
    msg: Component,
    empty: Component,
    bytes: Vec<u8>,
    leaves: Vec<Leaf>,
}

/// structured messages for other checks (C14 frames them): every one-field shape of the menu plus a few two-field
/// ones, as (description, message, reference bytes)
pub fn structured_messages() -> Vec<(String, Component, Vec<u8>)> {
    let menu = field_menu();
    let mut shapes: Vec<Vec<Field>> = menu.iter().map(|f| vec![f.clone()]).collect();
    for f in menu.iter().filter(|f| !f.last_only()) {
        shapes.push(vec![Field::U16LE, f.clone(), Field::Rest(2)]);
    }
    // wide records: a skippable / size-dependent field behind 31 and behind 64 one-byte fields
    for pad in [Field::Pad(31), Field::Pad(64)] {
        for f in [Field::SkipPair(false), Field::SkipPair(true), Field::SkipGap(false), Field::SizedBytes(3), Field::SkipTwo(false, true), Field::SizeOfSkipped(false), Field::EmptySkipper] {
            shapes.push(vec![pad.clone(), f, Field::Rest(2)]);
        }
    }
    shapes.into_iter().map(|sh| {
        let b = build(&sh, 1);
        (format!("{:?}", sh), b.msg, b.bytes)
    }).collect()
}

fn build(shape: &[Field], variant: usize) -> Built {
    let mut msg = Component::new();
    let mut empty = Component::new();
    let mut w = W::new();
    let mut leaves = vec![];
    let mut k = variant;
    let mut nx8 = || {
        k += 1;
        V8[k % 5]
    };
    let mut k2 = variant;
    let mut nx16 = || {
        k2 += 1;
        V16[k2 % 5]
    };
    let mut k3 = variant;
    let mut nx32 = || {
        k3 += 1;
        V32[k3 % 5]
    };
    for (i, f) in shape.iter().enumerate() {
        let name = format!("f{}", i);
        match f {
            Field::U8 => {
                let v = nx8();
                msg.insert(name.clone(), Box::new(v));
                empty.insert(name, Box::new(0u8));
                w.u8(v);
                leaves.push(Leaf::B(v));
            }
            Field::Pad(n) => {
                for j in 0..*n {
                    let v = nx8();
                    msg.insert(format!("{}p{}", name, j), Box::new(v));
                    empty.insert(format!("{}p{}", name, j), Box::new(0u8));
                    w.u8(v);
                    leaves.push(Leaf::B(v));
                }
            }
            Field::U16LE => {
                let v = nx16();
                msg.insert(name.clone(), Box::new(U16::LE(v)));
                empty.insert(name, Box::new(U16::LE(0)));
                w.u16le(v);
                leaves.push(Leaf::H(v));
            }
            Field::U16BE => {
                let v = nx16();
                msg.insert(name.clone(), Box::new(U16::BE(v)));
                empty.insert(name, Box::new(U16::BE(0)));
                w.u16be(v);
                leaves.push(Leaf::H(v));
            }
            Field::U32LE => {
                let v = nx32();
                msg.insert(name.clone(), Box::new(U32::LE(v)));
                empty.insert(name, Box::new(U32::LE(0)));
                w.u32le(v);
                leaves.push(Leaf::W(v));
            }
            Field::U32BE => {
                let v = nx32();
                msg.insert(name.clone(), Box::new(U32::BE(v)));
                empty.insert(name, Box::new(U32::BE(0)));
                w.u32be(v);
                leaves.push(Leaf::W(v));
            }
            Field::Bytes(n) => {
                let v: Vec<u8> = (0..*n).map(|_| nx8()).collect();
                msg.insert(name.clone(), Box::new(v.clone()));
                empty.insert(name, Box::new(vec![0u8; *n]));
                w.bytes(&v);
                leaves.push(Leaf::S(v));
            }
            Field::CheckU8 => {
                let v = nx8();
                msg.insert(name.clone(), Box::new(Check::new(v)));
                empty.insert(name, Box::new(Check::new(v)));
                w.u8(v);
                leaves.push(Leaf::B(v));
            }
            Field::CheckU16LE => {
                let v = nx16();
                msg.insert(name.clone(), Box::new(Check::new(U16::LE(v))));
                empty.insert(name, Box::new(Check::new(U16::LE(v))));
                w.u16le(v);
                leaves.push(Leaf::H(v));
            }
            Field::TrameU16U8 => {
                let a = nx16();
                let b = nx8();
                msg.insert(name.clone(), Box::new(trame![U16::LE(a), b]));
                empty.insert(name, Box::new(trame![U16::LE(0), 0u8]));
                w.u16le(a).u8(b);
                leaves.push(Leaf::H(a));
                leaves.push(Leaf::B(b));
            }
            Field::TrameOptMid(present) => {
                let a = nx16();
                let b = nx8();
                if *present {
                    msg.insert(name.clone(), Box::new(trame![Some(U16::LE(a)), b]));
                    empty.insert(name, Box::new(trame![Some(U16::LE(0)), 0u8]));
                    w.u16le(a).u8(b);
                    leaves.push(Leaf::H(a));
                } else {
                    msg.insert(name.clone(), Box::new(trame![None::<U16>, b]));
                    empty.insert(name, Box::new(trame![None::<U16>, 0u8]));
                    w.u8(b);
                    leaves.push(Leaf::None);
                }
                leaves.push(Leaf::B(b));
            }
            Field::Nested => {
                let a = nx8();
                let b = nx32();
                msg.insert(name.clone(), Box::new(component!["a" => a, "b" => U32::BE(b)]));
                empty.insert(name, Box::new(component!["a" => 0u8, "b" => U32::BE(0)]));
                w.u8(a).u32be(b);
                leaves.push(Leaf::B(a));
                leaves.push(Leaf::W(b));
            }
            Field::SizedBytes(n) => {
                let v: Vec<u8> = (0..*n).map(|_| nx8()).collect();
                let target = format!("f{}b", i);
                let t1 = target.clone();
                let t2 = target.clone();
                msg.insert(name.clone(), Box::new(DynOption::new(U16::LE(*n as u16), move |x| MessageOption::Size(t1.clone(), x.inner() as usize))));
                msg.insert(target.clone(), Box::new(v.clone()));
                empty.insert(name, Box::new(DynOption::new(U16::LE(0), move |x| MessageOption::Size(t2.clone(), x.inner() as usize))));
                empty.insert(target, Box::new(Vec::<u8>::new()));
                w.u16le(*n as u16).bytes(&v);
                leaves.push(Leaf::H(*n as u16));
                leaves.push(Leaf::S(v));
            }
            Field::SizedMismatch(announced, real) => {
                let v: Vec<u8> = (0..*real).map(|_| nx8()).collect();
                let target = format!("f{}b", i);
                let t1 = target.clone();
                let t2 = target.clone();
                msg.insert(name.clone(), Box::new(DynOption::new(U16::LE(*announced as u16), move |x| MessageOption::Size(t1.clone(), x.inner() as usize))));
                msg.insert(target.clone(), Box::new(v.clone()));
                empty.insert(name, Box::new(DynOption::new(U16::LE(0), move |x| MessageOption::Size(t2.clone(), x.inner() as usize))));
                empty.insert(target, Box::new(Vec::<u8>::new()));
                w.u16le(*announced as u16).bytes(&v);
                leaves.push(Leaf::H(*announced as u16));
                leaves.push(Leaf::S(v));
            }
            Field::SizedArray(n) => {
                let vals: Vec<u16> = (0..*n).map(|_| nx16()).collect();
                let target = format!("f{}b", i);
                let t1 = target.clone();
                let t2 = target.clone();
                let mut tr = Trame::new();
                for v in &vals {
                    tr.push(Box::new(U16::LE(*v)));
                }
                msg.insert(name.clone(), Box::new(DynOption::new((*n * 2) as u8, move |x| MessageOption::Size(t1.clone(), *x as usize))));
                msg.insert(target.clone(), Box::new(Array::<U16>::from_trame(tr)));
                empty.insert(name, Box::new(DynOption::new(0u8, move |x| MessageOption::Size(t2.clone(), *x as usize))));
                empty.insert(target, Box::new(Array::new(|| U16::LE(0))));
                w.u8((*n * 2) as u8);
                leaves.push(Leaf::B((*n * 2) as u8));
                for v in &vals {
                    w.u16le(*v);
                    leaves.push(Leaf::H(*v));
                }
            }
            Field::SkipPair(present) => {
                let flag: u8 = if *present { 1 } else { 0 };
                let v = nx16();
                let target = format!("f{}b", i);
                let t1 = target.clone();
                let t2 = target.clone();
                let filt = |t: String| move |x: &u8| if *x == 0 { MessageOption::SkipField(t.clone()) } else { MessageOption::None };
                msg.insert(name.clone(), Box::new(DynOption::new(flag, filt(t1))));
                msg.insert(target.clone(), Box::new(U16::BE(v)));
                empty.insert(name, Box::new(DynOption::new(0u8, filt(t2))));
                empty.insert(target, Box::new(U16::BE(0)));
                w.u8(flag);
                leaves.push(Leaf::B(flag));
                if *present {
                    w.u16be(v);
                    leaves.push(Leaf::H(v));
                }
            }
            Field::EmptySkipper => {
                let target = format!("f{}b", i);
                let tail = format!("f{}c", i);
                let v = nx8();
                let skip = |t: String| move |_: &Vec<u8>| MessageOption::SkipField(t.clone());
                msg.insert(name.clone(), Box::new(DynOption::new(Vec::<u8>::new(), skip(target.clone()))));
                msg.insert(target.clone(), Box::new(U16::BE(0x1234)));
                msg.insert(tail.clone(), Box::new(v));
                // (written and measured only: an empty byte block in front of other fields cannot be read back — it would take
                // the rest of the input)
                empty.insert(name, Box::new(DynOption::new(Vec::<u8>::new(), skip(target.clone()))));
                empty.insert(target, Box::new(U16::BE(0)));
                empty.insert(tail, Box::new(0u8));
                w.u8(v);
                leaves.push(Leaf::S(vec![]));
                leaves.push(Leaf::B(v));
            }
            Field::SizeOfSkipped(present) => {
                let flag: u8 = if *present { 1 } else { 0 };
                let v: Vec<u8> = (0..3).map(|_| nx8()).collect();
                let size: u8 = if *present { 3 } else { 1 };
                let sz = format!("f{}b", i);
                let target = format!("f{}c", i);
                let filt = |t: String| move |x: &u8| if *x == 0 { MessageOption::SkipField(t.clone()) } else { MessageOption::None };
                let sized = |t: String| move |x: &u8| MessageOption::Size(t.clone(), *x as usize);
                msg.insert(name.clone(), Box::new(DynOption::new(flag, filt(target.clone()))));
                msg.insert(sz.clone(), Box::new(DynOption::new(size, sized(target.clone()))));
                msg.insert(target.clone(), Box::new(v.clone()));
                empty.insert(name, Box::new(DynOption::new(0u8, filt(target.clone()))));
                empty.insert(sz, Box::new(DynOption::new(0u8, sized(target.clone()))));
                empty.insert(target, Box::new(Vec::<u8>::new()));
                w.u8(flag).u8(size);
                leaves.push(Leaf::B(flag));
                leaves.push(Leaf::B(size));
                if *present {
                    w.bytes(&v);
                    leaves.push(Leaf::S(v));
                }
            }
            Field::SkipGap(present) => {
                let flag: u8 = if *present { 1 } else { 0 };
                let g = nx8();
                let v = nx16();
                let gap = format!("f{}b", i);
                let target = format!("f{}c", i);
                let filt = |t: String| move |x: &u8| if *x == 0 { MessageOption::SkipField(t.clone()) } else { MessageOption::None };
                msg.insert(name.clone(), Box::new(DynOption::new(flag, filt(target.clone()))));
                msg.insert(gap.clone(), Box::new(g));
                msg.insert(target.clone(), Box::new(U16::BE(v)));
                empty.insert(name, Box::new(DynOption::new(0u8, filt(target.clone()))));
                empty.insert(gap, Box::new(0u8));
                empty.insert(target, Box::new(U16::BE(0)));
                w.u8(flag).u8(g);
                leaves.push(Leaf::B(flag));
                leaves.push(Leaf::B(g));
                if *present {
                    w.u16be(v);
                    leaves.push(Leaf::H(v));
                }
            }
            Field::SkipTwo(pa, pb) => {
                let (fa, fb): (u8, u8) = (if *pa { 1 } else { 0 }, if *pb { 1 } else { 0 });
                let va = nx16();
                let vb = nx8();
                let nb = format!("f{}b", i);
                let ta = format!("f{}c", i);
                let tb = format!("f{}d", i);
                let filt = |t: String| move |x: &u8| if *x == 0 { MessageOption::SkipField(t.clone()) } else { MessageOption::None };
                msg.insert(name.clone(), Box::new(DynOption::new(fa, filt(ta.clone()))));
                msg.insert(nb.clone(), Box::new(DynOption::new(fb, filt(tb.clone()))));
                msg.insert(ta.clone(), Box::new(U16::BE(va)));
                msg.insert(tb.clone(), Box::new(vb));
                empty.insert(name, Box::new(DynOption::new(0u8, filt(ta.clone()))));
                empty.insert(nb, Box::new(DynOption::new(0u8, filt(tb.clone()))));
                empty.insert(ta, Box::new(U16::BE(0)));
                empty.insert(tb, Box::new(0u8));
                w.u8(fa).u8(fb);
                leaves.push(Leaf::B(fa));
                leaves.push(Leaf::B(fb));
                if *pa {
                    w.u16be(va);
                    leaves.push(Leaf::H(va));
                }
                if *pb {
                    w.u8(vb);
                    leaves.push(Leaf::B(vb));
                }
            }
            Field::SkipBack(active) => {
                // the flag comes after the field it names: every traversal (write, length, read) has already passed it
                let flag: u8 = if *active { 0 } else { 1 };
                let v = nx16();
                let first = format!("f{}a", i);
                let filt = |t: String| move |x: &u8| if *x == 0 { MessageOption::SkipField(t.clone()) } else { MessageOption::None };
                msg.insert(first.clone(), Box::new(U16::BE(v)));
                msg.insert(name.clone(), Box::new(DynOption::new(flag, filt(first.clone()))));
                empty.insert(first.clone(), Box::new(U16::BE(0)));
                empty.insert(name, Box::new(DynOption::new(0u8, filt(first))));
                w.u16be(v).u8(flag);
                leaves.push(Leaf::H(v));
                leaves.push(Leaf::B(flag));
            }
            Field::SkipChain(pb, pc_flag) => {
                // flagA == 0 skips b; b (when present) == 0 skips c. A skipped b says nothing about c.
                let fa: u8 = if *pb { 1 } else { 0 };
                let fb: u8 = if *pc_flag { 1 } else { 0 };
                let vc = nx16();
                let nb = format!("f{}b", i);
                let nc = format!("f{}c", i);
                let filt = |t: String| move |x: &u8| if *x == 0 { MessageOption::SkipField(t.clone()) } else { MessageOption::None };
                msg.insert(name.clone(), Box::new(DynOption::new(fa, filt(nb.clone()))));
                msg.insert(nb.clone(), Box::new(DynOption::new(fb, filt(nc.clone()))));
                msg.insert(nc.clone(), Box::new(U16::BE(vc)));
                empty.insert(name, Box::new(DynOption::new(0u8, filt(nb.clone()))));
                // the empty message starts with b = 1 (no skip): when b is not on the wire it must stay inert
                empty.insert(nb, Box::new(DynOption::new(1u8, filt(nc.clone()))));
                empty.insert(nc, Box::new(U16::BE(0)));
                w.u8(fa);
                leaves.push(Leaf::B(fa));
                let c_present = if *pb {
                    w.u8(fb);
                    leaves.push(Leaf::B(fb));
                    *pc_flag
                } else {
                    true
                };
                if c_present {
                    w.u16be(vc);
                    leaves.push(Leaf::H(vc));
                }
            }
            Field::SizedSkip(present) => {
                let flag: u8 = if *present { 1 } else { 0 };
                let vc = nx16();
                let nb = format!("f{}b", i);
                let nc = format!("f{}c", i);
                let size = |t: String| move |x: &u8| MessageOption::Size(t.clone(), *x as usize);
                let filt = |t: String| move |x: &u8| if *x == 0 { MessageOption::SkipField(t.clone()) } else { MessageOption::None };
                msg.insert(name.clone(), Box::new(DynOption::new(1u8, size(nb.clone()))));
                msg.insert(nb.clone(), Box::new(DynOption::new(flag, filt(nc.clone()))));
                msg.insert(nc.clone(), Box::new(U16::BE(vc)));
                empty.insert(name, Box::new(DynOption::new(0u8, size(nb.clone()))));
                empty.insert(nb, Box::new(DynOption::new(1u8, filt(nc.clone()))));
                empty.insert(nc, Box::new(U16::BE(0)));
                w.u8(1).u8(flag);
                leaves.push(Leaf::B(1));
                leaves.push(Leaf::B(flag));
                if *present {
                    w.u16be(vc);
                    leaves.push(Leaf::H(vc));
                }
            }
            Field::NestedSize(n) => {
                let v: Vec<u8> = (0..*n).map(|_| nx8()).collect();
                let nb = format!("f{}b", i);
                let nc = format!("f{}c", i);
                let size = |t: String| move |x: &u8| MessageOption::Size(t.clone(), *x as usize);
                msg.insert(name.clone(), Box::new(DynOption::new(1u8, size(nb.clone()))));
                msg.insert(nb.clone(), Box::new(DynOption::new(*n as u8, size(nc.clone()))));
                msg.insert(nc.clone(), Box::new(v.clone()));
                empty.insert(name, Box::new(DynOption::new(0u8, size(nb.clone()))));
                empty.insert(nb, Box::new(DynOption::new(0u8, size(nc.clone()))));
                empty.insert(nc, Box::new(Vec::<u8>::new()));
                w.u8(1).u8(*n as u8).bytes(&v);
                leaves.push(Leaf::B(1));
                leaves.push(Leaf::B(*n as u8));
                leaves.push(Leaf::S(v));
            }
            Field::OptU16(present) => {
                let v = nx16();
                if *present {
                    msg.insert(name.clone(), Box::new(Some(U16::LE(v))));
                    w.u16le(v);
                    leaves.push(Leaf::H(v));
                } else {
                    msg.insert(name.clone(), Box::new(None::<U16>));
                    leaves.push(Leaf::None);
                }
                empty.insert(name, Box::new(Some(U16::LE(0))));
            }
            Field::Rest(n) => {
                let v: Vec<u8> = (0..*n).map(|_| nx8()).collect();
                msg.insert(name.clone(), Box::new(v.clone()));
                empty.insert(name, Box::new(Vec::<u8>::new()));
                w.bytes(&v);
                leaves.push(Leaf::S(v));
            }
            Field::ArrayLast(n) => {
                let mut tr = Trame::new();
                for _ in 0..*n {
                    let a = nx8();
                    let b = nx16();
                    tr.push(Box::new(component!["x" => a, "y" => U16::LE(b)]));
                    w.u8(a).u16le(b);
                    leaves.push(Leaf::B(a));
                    leaves.push(Leaf::H(b));
                }
                msg.insert(name.clone(), Box::new(Array::<Component>::from_trame(tr)));
                empty.insert(name, Box::new(Array::new(|| component!["x" => 0u8, "y" => U16::LE(0)])));
            }
        }
    }
    Built { msg, empty, bytes: w.done(), leaves }
}

/// flatten what a message holds, honouring the skip rules exactly like a reader of the wire would
fn flatten(m: &dyn Message, out: &mut Vec<Leaf>) {
    match m.visit() {
        DataType::U8(v) => out.push(Leaf::B(v)),
        DataType::U16(v) => out.push(Leaf::H(v)),
        DataType::U32(v) => out.push(Leaf::W(v)),
        DataType::Slice(s) => out.push(Leaf::S(s.to_vec())),
        DataType::None => out.push(Leaf::None),
        DataType::Trame(t) => {
            for e in t.iter() {
                flatten(e.as_ref(), out);
            }
        }
        DataType::Component(c) => {
            let mut skip = std::collections::HashSet::new();
            for (name, v) in c.iter() {
                if skip.contains(name) {
                    continue;
                }
                if let MessageOption::SkipField(f) = v.options() {
                    skip.insert(f);
                }
                flatten(v.as_ref(), out);
            }
        }
    }
}

// ------------------------------------------------------------------ the property

#[derive(Clone, Debug, Serialize)]
enum Case {
    Model { shape: Vec<Field>, variant: usize },
    PerLength(u16),
    /// chunk of 65536 consecutive u32 values starting at base
    PerIntegerChunk(u32),
    PerInteger(u32),
    PerInt16 { value: u16, min: u16 },
    /// all pairs (value, min) with this min and value >= min
    PerInt16Row(u16),
    PerOid([u8; 6]),
    PerOctets { len: usize, min: usize },
    PerNumeric(Vec<u8>, usize),
    Asn1Int(u32),
    Asn1Enum(i64),
    Asn1Octets(usize),
    Asn1Shapes(usize),
    Cssp(usize, usize),
    GccRequest(usize),
    GccResponse(GccResp),
    GccVersion(u32),
    /// CS_CORE block built from a ClientData (version index, width, height, layout index, name index, selected protocol)
    GccCore(usize, u16, u16, usize, usize, u32),
}

#[derive(Clone, Debug, Serialize)]
struct GccResp {
    version: u32,
    core_opt: u8,
    channels: usize,
    order: usize,
    /// 0 none, 1 unknown block with an 8-byte body before the second block, 2 with an empty body (length field 4)
    /// there, 3 with an empty body after the last block
    unknown_block: u8,
    node_id: u16,
    tag_width: u16,
}

pub struct C18 {
    cases: Vec<Case>,
}

impl C18 {
    pub fn new() -> C18 {
        C18 { cases: vec![] }
    }
}

fn shapes(max_nodes: usize) -> Vec<Vec<Field>> {
    let menu = field_menu();
    let mut out = vec![];
    fn rec(menu: &[Field], left: usize, cur: &mut Vec<Field>, out: &mut Vec<Vec<Field>>) {
        if !cur.is_empty() {
            out.push(cur.clone());
        }
        if cur.last().map(|f| f.last_only()).unwrap_or(false) {
            return;
        }
        for f in menu {
            if f.nodes() <= left {
                cur.push(f.clone());
                rec(menu, left - f.nodes(), cur, out);
                cur.pop();
            }
        }
    }
    rec(&menu, max_nodes, &mut vec![], &mut out);
    out
}

const B16: [u16; 12] = [0, 1, 2, 1000, 1001, 1002, 1003, 0x7FFF, 0x8000, 0xFBFF, 0xFFFE, 0xFFFF];

fn fail(sig: &str, detail: String) -> Outcome {
    Outcome::fail("mismatch", sig, detail)
}

fn lib_version_code(v: &lgcc::Version) -> u32 {
    if *v == lgcc::Version::RdpVersion {
        0x00080001
    } else if *v == lgcc::Version::RdpVersion5plus {
        0x00080004
    } else {
        0
    }
}

impl Prop for C18 {
    fn id(&self) -> &'static str {
        "C18"
    }
    fn level(&self) -> &'static str {
        "exploration"
    }
    fn prepare(&mut self, tier: Tier) -> Result<(), String> {
        let mut cs = vec![];
        for s in shapes(if tier == Tier::Quick { 4 } else { 5 }) {
            for variant in 0..if tier == Tier::Quick { 2 } else { 5 } {
                cs.push(Case::Model { shape: s.clone(), variant });
            }
        }
        for n in 0..=0x7FFFu16 {
            cs.push(Case::PerLength(n));
        }
        // PER integers: all of u16 (one chunk), u32 boundaries; every u32 in thorough
        if tier == Tier::Thorough {
            for c in 0..65536u32 {
                cs.push(Case::PerIntegerChunk(c << 16));
            }
        } else {
            cs.push(Case::PerIntegerChunk(0));
            cs.push(Case::PerIntegerChunk(0xFFFF_0000));
            cs.push(Case::PerIntegerChunk(0x7FFF_0000));
            cs.push(Case::PerIntegerChunk(0x0001_0000));
        }
        for v in [0u32, 1, 0xFE, 0xFF, 0x100, 0xFFFE, 0xFFFF, 0x10000, 0x7FFF_FFFF, 0x8000_0000, 0xFFFF_FFFE, 0xFFFF_FFFF] {
            cs.push(Case::PerInteger(v));
        }
        for &min in &B16 {
            for &value in &B16 {
                if value >= min {
                    cs.push(Case::PerInt16 { value, min });
                }
            }
        }
        if tier == Tier::Thorough {
            for min in 0..=0xFFFFu32 {
                cs.push(Case::PerInt16Row(min as u16));
            }
        } else {
            for min in [0u16, 1, 1001, 0x8000, 0xFFFF] {
                cs.push(Case::PerInt16Row(min));
            }
        }
        let ov = [0u8, 1, 15, 16, 127, 128, 255];
        for a in ov.iter().filter(|v| **v <= 15) {
            for b in ov.iter().filter(|v| **v <= 15) {
                for c in &ov {
                    for d in &ov {
                        for e in &ov {
                            for f in &ov {
                                cs.push(Case::PerOid([*a, *b, *c, *d, *e, *f]));
                            }
                        }
                    }
                }
            }
        }
        for min in [0usize, 1, 4] {
            for extra in [0usize, 1, 2, 126, 127, 128, 129, 255, 256, 257, 300, 511, 512, 513, 768, 1000, 1024, 1025, 0x3FFF, 0x4000, 0x7FFE, 0x7FFF] {
                cs.push(Case::PerOctets { len: min + extra, min });
            }
        }
        for digits in [&b"1"[..], b"0", b"9", b"12", b"123", b"1234", b"98765", b"00", b"1029384756"] {
            cs.push(Case::PerNumeric(digits.to_vec(), 1));
        }
        // every minimum 0..3 x every length min..min+5 (incl. the empty string with minimum 0)
        for min in 0..=3usize {
            for len in min..=min + 5 {
                cs.push(Case::PerNumeric((0..len).map(|i| b'0' + ((i * 7 + 3) % 10) as u8).collect(), min));
            }
        }
        for v in [0u32, 1, 0x7F, 0x80, 0xFF, 0x100, 0x7FFF, 0x8000, 0xFFFF, 0x10000, 0x7FFFFF, 0x800000, 0xFFFFFF, 0x1000000, 0x7FFF_FFFF, 0x8000_0000, 0xFFFF_FFFF, 34, 0xfc17, 0xfff8] {
            cs.push(Case::Asn1Int(v));
        }
        for v in [0i64, 1, 2, 14, 15, 127, 128, 255] {
            cs.push(Case::Asn1Enum(v));
        }
        for n in [0usize, 1, 2, 126, 127, 128, 129, 255, 256, 257, 65535, 65536, 70000] {
            cs.push(Case::Asn1Octets(n));
        }
        for k in 0..12 {
            cs.push(Case::Asn1Shapes(k));
        }
        for a in [0usize, 1, 40, 127, 128, 255, 256, 1000, 65535, 65536] {
            for b in [0usize, 16, 127, 128, 294, 542] {
                cs.push(Case::Cssp(a, b));
            }
        }
        for n in [128usize, 129, 200, 236, 237, 255, 256, 1000, 0x3FF0, 0x3FF1, 0x3FF2, 0x4000, 0x7FF0] {
            cs.push(Case::GccRequest(n));
        }
        // the client core data block for every combination of its parameters (the block carries each of them as given)
        for vi in 0..2usize {
            for (w, h) in [(800u16, 600u16), (0, 0), (65535, 1)] {
                for li in 0..3usize {
                    for ni in 0..4usize {
                        for proto in [0u32, 1, 2, 8, 0xFFFF_FFFF] {
                            cs.push(Case::GccCore(vi, w, h, li, ni, proto));
                        }
                    }
                }
            }
        }
        for version in [0x00080001u32, 0x00080004, 0x00080005, 0x00080011, 0, 0xFFFFFFFF] {
            cs.push(Case::GccVersion(version));
            for core_opt in 0..3u8 {
                for channels in 0..=31usize {
                    for order in 0..6usize {
                        for unknown_block in 0..4u8 {
                            for (node_id, tag_width) in [(1001u16, 1u16), (31219, 1), (65535, 2), (1002, 4)] {
                                if tier == Tier::Quick && !(channels <= 4 || channels == 31 || channels == 15) {
                                    continue;
                                }
                                cs.push(Case::GccResponse(GccResp { version, core_opt, channels, order, unknown_block, node_id, tag_width }));
                            }
                        }
                    }
                }
            }
        }
        self.cases = cs;
        Ok(())
    }
    fn n_cases(&self) -> u64 {
        self.cases.len() as u64
    }
    fn describe(&self, idx: u64) -> Value {
        json!({"idx": idx, "case": self.cases[idx as usize]})
    }
    fn rule(&self) -> String {
        "cases: [model] every message shape of <=4 nodes (<=5 thorough) over {u8, U16/U32 LE/BE, fixed byte block, Check, Trame, Trame with an absent / present optional element in front of data, nested Component, 31 / 64 one-byte fields in a row (later fields at positions >= 32 / >= 64 of the record), size-dependent byte block and array (DynOption Size), skippable field (DynOption SkipField: adjacent target, distant target, two skips pending at once, a skip naming an earlier field, a skipped field that itself carries a skip), a size-dependent field that itself carries a skip or a size for the next field, a size announced for a field that is skipped, an empty field whose option skips the next one (written and measured only), trailing Option present/absent, trailing rest-of-input block, trailing array} x 2 (5) value variants from {0,1,7F,80,FF,...}: length()==bytes written==reference bytes, read into an empty same-shape message (whose length() was asked first) reproduces every leaf and consumes exactly; a length field announcing another size than its block is written and measured by the block; after the round trip a plain record whose fields bear the same names is read (nothing noted for the earlier message applies to it), and the same bytes are read once more into the now filled message, which must still report the length it writes; [per] every length 0..0x7FFF, integers (all of u16, u32 boundaries; all 2^32 in thorough), integer16 (value,minimum) boundary pairs and whole rows, every nibble-valid 6-arc OID over {0,1,15,16,127,128,255}, octet strings at every length boundary, numeric strings; [asn1] INTEGER/ENUMERATED/OCTET STRING boundaries and the tagged shapes of MCS/CredSSP against an independent DER codec; [gcc] the client core data block for 2 versions x 3 screen sizes x 3 layouts x 4 names x 5 selected protocols against the reference parser (each parameter is carried as given), conference create request for block sizes across the PER length boundaries, every response of the reference encoder over versions x optional SC_CORE fields x 0..31 channels x 6 block orders x unknown block (none / 8-byte body / empty body between the blocks / empty body at the end) x node ids. Non-trivial: every case except single-leaf model shapes.".into()
    }
    fn assumptions(&self) -> Vec<String> {
        vec![
            "PER integers agree value-wise (the library writes 0xFF and 0xFFFF with a wider length than necessary, which T.125 peers accept)".into(),
            "write_octet_stream / write_numeric_string are exercised on their domain len >= minimum".into(),
            "conference create request user data is >= 128 bytes (real CS_CORE alone is 216)".into(),
        ]
    }
    fn mem_rule(&self, _p: usize, maxreq: usize, _b: u64) -> Option<String> {
        if maxreq > (8 << 20) {
            Some(format!("allocation of {} bytes", maxreq))
        } else {
            None
        }
    }
    fn run_case(&mut self, idx: u64) -> Outcome {
        match self.cases[idx as usize].clone() {
            Case::Model { shape, variant } => {
                let b = build(&shape, variant);
                let mut out = Cursor::new(Vec::new());
                if let Err(e) = b.msg.write(&mut out) {
                    return fail("model-write-error", format!("{:?}", e));
                }
                let bytes = out.into_inner();
                if bytes != b.bytes {
                    return fail("model-bytes-differ-from-reference", format!("lib {} ref {}", hex(&bytes), hex(&b.bytes)));
                }
                if b.msg.length() != bytes.len() as u64 {
                    return fail("model-length-differs-from-bytes-written", format!("length() {} bytes {}", b.msg.length(), bytes.len()));
                }
                if shape.iter().any(|f| matches!(f, Field::SizedMismatch(..) | Field::EmptySkipper)) {
                    return Outcome::pass("model-write-only", true);
                }
                let mut empty = b.empty;
                // (asking an untouched message for its length must not fix anything for the read that follows)
                let _ = empty.length();
                let mut cur = Cursor::new(bytes.clone());
                if let Err(e) = empty.read(&mut cur) {
                    return fail("model-read-error", format!("{:?} reading {}", e, hex(&bytes)));
                }
                if cur.position() != bytes.len() as u64 {
                    return fail("model-read-consumed-wrong-count", format!("consumed {} of {}", cur.position(), bytes.len()));
                }
                let mut got = vec![];
                flatten(&empty, &mut got);
                if got != b.leaves {
                    return fail("model-roundtrip-differs", format!("read back {:?} expected {:?}", got, b.leaves));
                }
                if empty.length() != bytes.len() as u64 {
                    return fail("model-length-after-read", format!("length() {} after reading {} bytes", empty.length(), bytes.len()));
                }
                // a plain record whose fields carry the names used above, read right afterwards on the same thread: nothing
                // the reader noted for the message before (announced sizes, fields to skip) applies to it
                {
                    let names: Vec<String> = match empty.visit() {
                        DataType::Component(c) => c.iter().map(|(n, _)| n.clone()).collect(),
                        _ => vec![],
                    };
                    let mut probe = Component::new();
                    let mut wire = vec![];
                    for (k, n) in names.iter().enumerate() {
                        probe.insert(n.clone(), Box::new(U16::BE(0)));
                        wire.extend([(k as u8).wrapping_mul(29).wrapping_add(3), k as u8 ^ 0x5a]);
                    }
                    let mut cur = Cursor::new(wire.clone());
                    match probe.read(&mut cur) {
                        Ok(()) if cur.position() == wire.len() as u64 && rdp::model::data::to_vec(&probe) == wire => {}
                        other => return fail("model-plain-record-read-after-this-message-differs", format!("a record of {} 16-bit fields named like the fields of the message, read after it: {:?}, consumed {} of {}", names.len(), other.err(), cur.position(), wire.len())),
                    }
                }
                // the same bytes read once more into the same (no longer empty) message: whatever that yields, the message
                // still reports the length it writes
                {
                    let mut cur = Cursor::new(bytes.clone());
                    let _ = empty.read(&mut cur);
                    let mut out = Cursor::new(Vec::new());
                    if empty.write(&mut out).is_ok() && empty.length() != out.get_ref().len() as u64 {
                        return fail("model-length-differs-from-bytes-written-after-a-second-read", format!("length() {} bytes {}", empty.length(), out.get_ref().len()));
                    }
                }
                Outcome::pass("model", shape.iter().map(|f| f.nodes()).sum::<usize>() > 1)
            }
            Case::PerLength(n) => {
                let lib = rdp::model::data::to_vec(&lper::write_length(n).unwrap());
                let mut w = W::new();
                rper::write_length(&mut w, n);
                if lib != w.0 {
                    return fail("per-length-bytes", format!("{} lib {} ref {}", n, hex(&lib), hex(&w.0)));
                }
                let back = lper::read_length(&mut Cursor::new(w.0.clone()));
                if back.as_ref().ok() != Some(&n) {
                    return fail("per-length-roundtrip", format!("{} -> {:?}", n, back));
                }
                Outcome::pass("per-length", true)
            }
            Case::PerIntegerChunk(base) => {
                for i in 0..65536u32 {
                    let v = base.wrapping_add(i);
                    if let Some(o) = per_integer(v) {
                        return o;
                    }
                }
                Outcome::pass("per-integer-chunk", true)
            }
            Case::PerInteger(v) => per_integer(v).unwrap_or_else(|| Outcome::pass("per-integer", true)),
            Case::PerInt16 { value, min } => per_int16(value, min).unwrap_or_else(|| Outcome::pass("per-int16", true)),
            Case::PerInt16Row(min) => {
                for value in min..=0xFFFF {
                    if let Some(o) = per_int16(value, min) {
                        return o;
                    }
                }
                Outcome::pass("per-int16-row", true)
            }
            Case::PerOid(oid) => {
                let mut c = Cursor::new(Vec::new());
                if let Err(e) = lper::write_object_identifier(&oid, &mut c) {
                    return fail("per-oid-write-error", format!("{:?}", e));
                }
                let lib = c.into_inner();
                let mut w = W::new();
                rper::write_oid6(&mut w, &oid);
                if lib != w.0 {
                    return fail("per-oid-bytes", format!("{:?} lib {} ref {}", oid, hex(&lib), hex(&w.0)));
                }
                let mut r = R::new(&lib);
                if rper::read_oid6(&mut r).ok() != Some(oid) {
                    return fail("per-oid-ref-decode", format!("{:?}", oid));
                }
                match lper::read_object_identifier(&oid, &mut Cursor::new(lib.clone())) {
                    Ok(true) => {}
                    other => return fail("per-oid-does-not-decode-what-it-encodes", format!("read_object_identifier({:?}, write({:?})) = {:?}", oid, oid, other.map_err(|e| format!("{:?}", e)))),
                }
                // a value differing in exactly one arc must not match
                for k in 0..6 {
                    let mut other = oid;
                    other[k] = if k < 2 { (oid[k] + 1) % 16 } else { oid[k].wrapping_add(1) };
                    // followed by a sentinel: a non-matching identifier is still consumed whole, and no further
                    let mut stream = lib.clone();
                    stream.extend_from_slice(&[0xEE, 0xEE]);
                    let mut cur = Cursor::new(stream);
                    match lper::read_object_identifier(&other, &mut cur) {
                        Ok(false) => {}
                        r => return fail("per-oid-accepts-a-different-identifier", format!("wire {:?} matched against {:?} (arc {}): {:?}", oid, other, k, r.map_err(|e| format!("{:?}", e)))),
                    }
                    if cur.position() != lib.len() as u64 {
                        return fail("per-oid-mismatch-consumes-wrong-count", format!("wire {:?} read against {:?} (arc {} differs): consumed {} of {} bytes", oid, other, k, cur.position(), lib.len()));
                    }
                }
                Outcome::pass("per-oid", true)
            }
            Case::PerOctets { len, min } => {
                // not periodic in 256: the block number is mixed in
                let v: Vec<u8> = (0..len).map(|i| (i * 3 + 1 + (i >> 8) * 7) as u8).collect();
                let mut c = Cursor::new(Vec::new());
                if let Err(e) = lper::write_octet_stream(&v, min, &mut c) {
                    return fail("per-octets-write-error", format!("{:?}", e));
                }
                let lib = c.into_inner();
                let mut w = W::new();
                rper::write_octets(&mut w, &v, min);
                if lib != w.0 {
                    return fail("per-octets-bytes", format!("len {} min {}: lib {}.. ref {}..", len, min, hex(&lib[..lib.len().min(6)]), hex(&w.0[..w.0.len().min(6)])));
                }
                let mut cur = Cursor::new(lib.clone());
                if let Err(e) = lper::read_octet_stream(&v, min, &mut cur) {
                    return fail("per-octets-roundtrip", format!("len {} min {}: {:?}", len, min, e));
                }
                if cur.position() != lib.len() as u64 {
                    return fail("per-octets-consumed", format!("{} of {}", cur.position(), lib.len()));
                }
                // the reader is a comparator: one differing content octet, wherever it is, must be refused
                let head = lib.len() - len;
                for pos in [0usize, 1, 127, 128, 254, 255, 256, 257, 300, 511, 512, 513, 767, 768, 1023, 1024, len / 2, len.wrapping_sub(2), len.wrapping_sub(1)] {
                    if pos >= len {
                        continue;
                    }
                    let mut wire = lib.clone();
                    wire[head + pos] ^= 0x40;
                    if lper::read_octet_stream(&v, min, &mut Cursor::new(wire)).is_ok() {
                        return fail("per-octets-mismatch-accepted", format!("len {} min {}: content octet {} differs from the expected string and the read succeeds", len, min, pos));
                    }
                }
                Outcome::pass("per-octets", true)
            }
            Case::PerNumeric(d, min) => {
                let mut c = Cursor::new(Vec::new());
                if let Err(e) = lper::write_numeric_string(&d, min, &mut c) {
                    return fail("per-numeric-write-error", format!("{:?}", e));
                }
                let lib = c.into_inner();
                let mut w = W::new();
                rper::write_numeric_string(&mut w, &d, min);
                if lib != w.0 {
                    return fail("per-numeric-string-bytes-differ-from-reference", format!("{:?}: lib {} ref {}", String::from_utf8_lossy(&d), hex(&lib), hex(&w.0)));
                }
                let mut sentinel = w.0.clone();
                sentinel.extend_from_slice(&[0xEE, 0xEE, 0xEE]);
                let mut cur = Cursor::new(sentinel);
                match lper::read_numeric_string(min, &mut cur) {
                    Ok(_) if cur.position() == w.0.len() as u64 => {}
                    Ok(_) => return fail("per-numeric-string-read-consumes-wrong-count", format!("{:?}: consumed {} of {}", String::from_utf8_lossy(&d), cur.position(), w.0.len())),
                    Err(e) => return fail("per-numeric-string-read-error", format!("{:?}", e)),
                }
                Outcome::pass("per-numeric", true)
            }
            Case::Asn1Int(v) => {
                let lib = lasn1::to_der(&(v as lasn1::Integer));
                let want = der::integer(v as u64);
                if lib != want {
                    return fail("asn1-integer-bytes", format!("{} lib {} ref {}", v, hex(&lib), hex(&want)));
                }
                let mut x: lasn1::Integer = 0;
                if lasn1::from_der(&mut x, &want).is_err() || x != v {
                    return fail("asn1-integer-roundtrip", format!("{} -> {}", v, x));
                }
                Outcome::pass("asn1-int", true)
            }
            Case::Asn1Enum(v) => {
                let lib = lasn1::to_der(&(v as lasn1::Enumerate));
                let want = der::enumerated(v as u64);
                if lib != want {
                    return fail("asn1-enum-bytes", format!("{} lib {} ref {}", v, hex(&lib), hex(&want)));
                }
                let mut x: lasn1::Enumerate = 99;
                if lasn1::from_ber(&mut x, &want).is_err() || x != v {
                    return fail("asn1-enum-roundtrip", format!("{} -> {}", v, x));
                }
                Outcome::pass("asn1-enum", true)
            }
            Case::Asn1Octets(n) => {
              // three contents: a pattern, all zero, 00 FF FF .. (the first content octet follows the length octets)
              for fill in 0..3u8 {
                let v: Vec<u8> = (0..n).map(|i| match fill { 0 => (i * 5 + 2) as u8, 1 => 0, _ => if i == 0 { 0 } else { 0xFF } }).collect();
                let lib = lasn1::to_der(&(v.clone() as OctetString));
                let want = der::octets(&v);
                if lib != want {
                    return fail("asn1-octets-bytes", format!("{} bytes: lib {}.. ref {}..", n, hex(&lib[..lib.len().min(6)]), hex(&want[..want.len().min(6)])));
                }
                let mut x: OctetString = vec![];
                if lasn1::from_der(&mut x, &want).is_err() || x != v {
                    return fail("asn1-octets-roundtrip", format!("{} bytes", n));
                }
                // BER long-form (non-minimal) length must be accepted by from_ber
                let wide = der::tlv_wide(der::UNIV_OCTET, &v, 3);
                let mut y: OctetString = vec![];
                if lasn1::from_ber(&mut y, &wide).is_err() || y != v {
                    return fail("asn1-octets-ber-long-length", format!("{} bytes", n));
                }
              }
                Outcome::pass("asn1-octets", true)
            }
            Case::Asn1Shapes(k) => asn1_shape(k),
            Case::Cssp(a, b) => {
              for fill in 0..2u8 {
                let tok: Vec<u8> = (0..a).map(|i| if fill == 1 && i < 2 { 0 } else { (i * 7 + 3) as u8 }).collect();
                let pk: Vec<u8> = (0..b).map(|i| if fill == 1 && i < 2 { 0 } else { (i * 11 + 5) as u8 }).collect();
                let want1 = der::seq(&[der::explicit(0, &der::integer(2)), der::explicit(1, &der::seq(&[der::seq(&[der::explicit(0, &der::octets(&tok))])]))]);
                let lib1 = lcssp::create_ts_request(tok.clone());
                if lib1 != want1 {
                    return fail("cssp-ts-request-bytes", format!("token {} bytes", a));
                }
                match lcssp::read_ts_server_challenge(&want1) {
                    Ok(t) if t == tok => {}
                    other => return fail("cssp-ts-request-roundtrip", format!("token {} bytes: {:?}", a, other.map(|t| t.len()).map_err(|e| format!("{:?}", e)))),
                }
                let want2 = der::seq(&[
                    der::explicit(0, &der::integer(2)),
                    der::explicit(1, &der::seq(&[der::seq(&[der::explicit(0, &der::octets(&tok))])])),
                    der::explicit(3, &der::octets(&pk)),
                ]);
                if lcssp::create_ts_authenticate(tok.clone(), pk.clone()) != want2 {
                    return fail("cssp-ts-authenticate-bytes", format!("token {} pubKeyAuth {}", a, b));
                }
                let want3 = der::seq(&[der::explicit(0, &der::integer(2)), der::explicit(3, &der::octets(&pk))]);
                match lcssp::read_ts_validate(&want3) {
                    Ok(p) if p == pk => {}
                    other => return fail("cssp-ts-validate-roundtrip", format!("{:?}", other.map(|t| t.len()).map_err(|e| format!("{:?}", e)))),
                }
              }
                Outcome::pass("cssp", true)
            }
            Case::GccRequest(n) => {
                let ud: Vec<u8> = (0..n).map(|i| (i * 3) as u8).collect();
                let lib = match lgcc::write_conference_create_request(&ud) {
                    Ok(v) => v,
                    Err(e) => return fail("gcc-request-write-error", format!("{:?}", e)),
                };
                match rgcc::parse_conference_create_request(&lib) {
                    Ok(back) if back == ud => Outcome::pass("gcc-request", true),
                    Ok(_) => fail("gcc-request-userdata-differs", format!("{} bytes", n)),
                    Err(e) => fail("gcc-request-rejected-by-reference", format!("{} bytes of user data: {}", n, e)),
                }
            }
            Case::GccCore(vi, w, h, li, ni, proto) => {
                let name = ["rdp-rs", "", "fifteen-letters", "日本"][ni].to_string();
                let (version, vcode) = [(lgcc::Version::RdpVersion, 0x00080001u32), (lgcc::Version::RdpVersion5plus, 0x00080004)][vi].clone();
                let layout = crate::fixture::layout_of(li as u8);
                let block = lgcc::client_core_data(Some(lgcc::ClientData { width: w, height: h, layout, server_selected_protocol: proto, rdp_version: version, name: name.clone() }));
                let body = rdp::model::data::to_vec(&block);
                if block.length() != body.len() as u64 {
                    return fail("gcc-core-length-differs-from-bytes-written", format!("length() {} bytes {}", block.length(), body.len()));
                }
                let mut w2 = W::new();
                w2.u16le(0xC001).u16le(body.len() as u16 + 4).bytes(&body);
                match rgcc::parse_client_blocks(&w2.0) {
                    Err(e) => fail("gcc-core-rejected-by-reference", e),
                    Ok(b) => {
                        let c = b.core;
                        let want_name: String = name.encode_utf16().take(15).map(|u| char::from_u32(u as u32).unwrap_or('?')).collect();
                        if c.version != vcode || c.width != w || c.height != h || c.kbd_layout != crate::fixture::layout_code(li as u8) || c.server_selected_protocol != Some(proto) || c.client_name.encode_utf16().collect::<Vec<_>>() != want_name.encode_utf16().collect::<Vec<_>>() {
                            return fail("gcc-core-field-differs-from-the-parameter", format!("asked version {:#x} {}x{} layout {} name {:?} protocol {:#x}; block says version {:#x} {}x{} layout {:#x} name {:?} protocol {:?}", vcode, w, h, li, name, proto, c.version, c.width, c.height, c.kbd_layout, c.client_name, c.server_selected_protocol));
                        }
                        Outcome::pass("gcc-core", true)
                    }
                }
            }
            Case::GccVersion(v) => {
                // encode/decode of the version enumeration must be inverse
                let dec = lgcc::Version::from(v);
                let code = lib_version_code(&dec);
                let want = if v == 0x00080001 || v == 0x00080004 { v } else { 0 };
                if code != want {
                    return fail("gcc-version-mapping-not-inverse", format!("Version::from({:#x}) encodes back as {:#x}", v, code));
                }
                Outcome::pass("gcc-version", true)
            }
            Case::GccResponse(g) => {
                let channels: Vec<u16> = (0..g.channels).map(|i| 1004 + i as u16).collect();
                let core = rgcc::ScBlock::Core {
                    version: g.version,
                    requested: if g.core_opt >= 1 { Some(3) } else { None },
                    early_flags: if g.core_opt >= 2 { Some(1) } else { None },
                };
                let sec = rgcc::ScBlock::Security { method: 0, level: 0 };
                let net = rgcc::ScBlock::Net { io_channel: 1003, channels: channels.clone() };
                let perms = [[0, 1, 2], [0, 2, 1], [1, 0, 2], [1, 2, 0], [2, 0, 1], [2, 1, 0]];
                let three = [core, sec, net];
                let mut blocks = vec![];
                for (pos, i) in perms[g.order].iter().enumerate() {
                    if (g.unknown_block == 1 || g.unknown_block == 2) && pos == 1 {
                        blocks.extend(rgcc::sc_block_bytes(&rgcc::ScBlock::Unknown { ty: 0x0C04, body: if g.unknown_block == 1 { vec![1, 2, 3, 4, 5, 6, 7, 8] } else { vec![] } }));
                    }
                    blocks.extend(rgcc::sc_block_bytes(&three[*i]));
                }
                if g.unknown_block == 3 {
                    blocks.extend(rgcc::sc_block_bytes(&rgcc::ScBlock::Unknown { ty: 0x0C0A, body: vec![] }));
                }
                let tag = match g.tag_width {
                    1 => 1,
                    2 => 0x1234,
                    _ => 0x12345678,
                };
                let wire = rgcc::conference_create_response(&blocks, g.node_id, tag);
                match lgcc::read_conference_create_response(&mut Cursor::new(wire)) {
                    Err(e) => fail("gcc-response-rejected", format!("{:?}: {:?}", g, e)),
                    Ok(sd) => {
                        if sd.channel_ids != channels {
                            return fail("gcc-response-channels-differ", format!("{:?} got {:?}", g, sd.channel_ids));
                        }
                        let want = if g.version == 0x00080001 || g.version == 0x00080004 { g.version } else { 0 };
                        if lib_version_code(&sd.rdp_version) != want {
                            return fail("gcc-response-version-differs", format!("server version {:#x} decoded as {:#x}", g.version, lib_version_code(&sd.rdp_version)));
                        }
                        Outcome::pass("gcc-response", true)
                    }
                }
            }
        }
    }
}

fn per_integer(v: u32) -> Option<Outcome> {
    let mut c = Cursor::new(Vec::new());
    if let Err(e) = lper::write_integer(v, &mut c) {
        return Some(fail("per-integer-write-error", format!("{:?}", e)));
    }
    let lib = c.into_inner();
    let mut r = R::new(&lib);
    if rper::read_integer(&mut r).ok() != Some(v) || !r.at_end() {
        return Some(fail("per-integer-ref-decode", format!("{} encoded as {}", v, hex(&lib))));
    }
    match lper::read_integer(&mut Cursor::new(lib.clone())) {
        Ok(x) if x == v => {}
        other => return Some(fail("per-integer-roundtrip", format!("{} -> {:?}", v, other.map_err(|e| format!("{:?}", e))))),
    }
    let mut w = W::new();
    rper::write_integer(&mut w, v);
    match lper::read_integer(&mut Cursor::new(w.0.clone())) {
        Ok(x) if x == v => {}
        other => return Some(fail("per-integer-decode-of-reference", format!("{} ({}) -> {:?}", v, hex(&w.0), other.map_err(|e| format!("{:?}", e))))),
    }
    None
}

fn per_int16(value: u16, min: u16) -> Option<Outcome> {
    let mut c = Cursor::new(Vec::new());
    if let Err(e) = lper::write_integer_16(value, min, &mut c) {
        return Some(fail("per-int16-write-error", format!("{:?}", e)));
    }
    let lib = c.into_inner();
    let mut w = W::new();
    rper::write_integer16(&mut w, value, min);
    if lib != w.0 {
        return Some(fail("per-int16-bytes", format!("({}, {}) lib {} ref {}", value, min, hex(&lib), hex(&w.0))));
    }
    match lper::read_integer_16(min, &mut Cursor::new(lib)) {
        Ok(x) if x == value => None,
        other => Some(fail("per-int16-roundtrip", format!("({}, {}) -> {:?}", value, min, other.map_err(|e| format!("{:?}", e))))),
    }
}

fn asn1_shape(k: usize) -> Outcome {
    // tagged / nested shapes used by MCS and CredSSP
    let oct = |n: usize| -> Vec<u8> { (0..n).map(|i| (i + 1) as u8).collect() };
    let (lib, want): (Vec<u8>, Vec<u8>) = match k {
        0 => (lasn1::to_der(&ExplicitTag::new(yasna_tag_ctx(0), 2 as lasn1::Integer)), der::explicit(0, &der::integer(2))),
        1 => (lasn1::to_der(&ExplicitTag::new(yasna_tag_ctx(3), oct(300) as OctetString)), der::explicit(3, &der::octets(&oct(300)))),
        2 => (lasn1::to_der(&sequence!["a" => 1 as lasn1::Integer, "b" => oct(3) as OctetString]), der::seq(&[der::integer(1), der::octets(&oct(3))])),
        3 => (lasn1::to_der(&sequence!["a" => true, "b" => false]), der::seq(&[der::boolean(true), der::boolean(false)])),
        4 => (
            lasn1::to_der(&ImplicitTag::new(yasna_tag_app(101), sequence!["x" => oct(1) as OctetString, "y" => 7 as lasn1::Integer])),
            der::tlv(der::app(101), &[der::octets(&oct(1)), der::integer(7)].concat()),
        ),
        5 => (
            lasn1::to_der(&ImplicitTag::new(yasna_tag_app(102), sequence!["r" => 0 as lasn1::Enumerate, "u" => oct(200) as OctetString])),
            der::tlv(der::app(102), &[der::enumerated(0), der::octets(&oct(200))].concat()),
        ),
        6 => (lasn1::to_der(&sequence_of![sequence!["t" => ExplicitTag::new(yasna_tag_ctx(0), oct(5) as OctetString)]]), der::seq(&[der::seq(&[der::explicit(0, &der::octets(&oct(5)))])])),
        7 => (lasn1::to_der(&sequence!["p" => sequence!["q" => 0xffff as lasn1::Integer, "r" => 0xfc17 as lasn1::Integer]]), der::seq(&[der::seq(&[der::integer(0xffff), der::integer(0xfc17)])])),
        8 => (lasn1::to_der(&ExplicitTag::new(yasna_tag_ctx(1), ExplicitTag::new(yasna_tag_ctx(2), 1 as lasn1::Integer))), der::explicit(1, &der::explicit(2, &der::integer(1)))),
        9 => (lasn1::to_der(&(Vec::<u8>::new() as OctetString)), der::octets(&[])),
        10 => (lasn1::to_der(&sequence_of![]), der::seq(&[])),
        _ => (lasn1::to_der(&sequence!["z" => ExplicitTag::new(yasna_tag_ctx(2), oct(128) as OctetString)]), der::seq(&[der::explicit(2, &der::octets(&oct(128)))])),
    };
    if lib != want {
        return fail("asn1-shape-bytes", format!("shape {}: lib {} ref {}", k, hex(&lib[..lib.len().min(24)]), hex(&want[..want.len().min(24)])));
    }
    // decode side for the shapes the client reads (connect-response like, TSRequest like)
    if k == 5 {
        let mut m = ImplicitTag::new(yasna_tag_app(102), sequence!["r" => 9 as lasn1::Enumerate, "u" => Vec::<u8>::new() as OctetString]);
        let wide = der::tlv_wide(der::app(102), &[der::enumerated(0), der::tlv_wide(der::UNIV_OCTET, &oct(200), 2)].concat(), 2);
        for enc in [&want, &wide] {
            if lasn1::from_ber(&mut m, enc).is_err() {
                return fail("asn1-shape-decode", "connect-response-like shape rejected".into());
            }
            match (m.inner["r"].visit(), m.inner["u"].visit()) {
                (ASN1Type::Enumerate(0), ASN1Type::OctetString(u)) if *u == oct(200) => {}
                _ => return fail("asn1-shape-decode-values", "connect-response-like shape decoded to other values".into()),
            }
        }
    }
    if k == 6 {
        let mut m = SequenceOf::reader(|| Box::new(sequence!["t" => ExplicitTag::new(yasna_tag_ctx(0), OctetString::new())]));
        if lasn1::from_der(&mut m, &want).is_err() || m.inner.len() != 1 {
            return fail("asn1-shape-decode", "sequence-of shape".into());
        }
    }
    if k == 10 {
        // the empty collection decodes as well, bare and inside a TSRequest-like wrapper
        let mut m = SequenceOf::reader(|| Box::new(sequence!["t" => ExplicitTag::new(yasna_tag_ctx(0), OctetString::new())]));
        if lasn1::from_der(&mut m, &want).is_err() || !m.inner.is_empty() {
            return fail("asn1-shape-decode", "empty SEQUENCE OF (30 00) rejected".into());
        }
        let mut m2 = SequenceOf::reader(|| Box::new(sequence!["t" => ExplicitTag::new(yasna_tag_ctx(0), OctetString::new())]));
        if lasn1::from_ber(&mut m2, &want).is_err() {
            return fail("asn1-shape-decode", "empty SEQUENCE OF (30 00) rejected by the BER reader".into());
        }
        let wrapped = der::seq(&[der::explicit(0, &der::integer(2)), der::explicit(1, &der::seq(&[]))]);
        let mut ts = sequence!["version" => ExplicitTag::new(yasna_tag_ctx(0), 0 as lasn1::Integer), "negoTokens" => ExplicitTag::new(yasna_tag_ctx(1), SequenceOf::reader(|| Box::new(sequence!["t" => ExplicitTag::new(yasna_tag_ctx(0), OctetString::new())])))];
        if let Err(e) = lasn1::from_der(&mut ts, &wrapped) {
            return fail("asn1-shape-decode", format!("TSRequest-like value with an empty negoTokens list rejected: {:?}", e));
        }
    }
    Outcome::pass("asn1-shape", true)
}

fn yasna_tag_ctx(n: u64) -> yasna::Tag {
    yasna::Tag::context(n)
}
fn yasna_tag_app(n: u64) -> yasna::Tag {
    yasna::Tag::application(n)
}

#[allow(dead_code)]
fn _unused(_: &dyn ASN1, _: Sequence) {}
