//! C13 — inbound deframing is exact under arbitrary fragmentation.
//! Drives the real `tpkt::Client::read` (and `x224::Client::read`) over a scripted stream whose
//! read schedule (caps, split points, compositions) is enumerated exhaustively within the bounds.

use crate::memlink::{MemLink, ReadPlan};
use crate::runner::{Outcome, Prop, Tier};
use rdp::core::tpkt;
use rdp::core::x224;
use rdp::model::link::{Link, Stream};
use serde::Serialize;
use serde_json::{json, Value};
use vref::framing::{self, Deframe, Frame};

#[derive(Clone, Debug, Serialize)]
pub enum FrameSpec {
    /// TPKT with this length field; payload = max(len-4, 0) position-coded bytes
    Tpkt(u16),
    /// fast-path short form: first byte, length byte (< 0x80)
    FpShort(u8, u8),
    /// fast-path long form: first byte, 15-bit length
    FpLong(u8, u16),
    /// TPKT carrying an X.224 data TPDU with n user bytes
    TpktX224(u16),
    /// raw bytes
    Raw(Vec<u8>),
    /// not a frame stream: a full real conversation over TLS (NLA on/off) whose transport delivers at most
    /// `cap` bytes per read (Plan::Cap) — end-to-end fragmentation through OpenSSL, CredSSP and every layer
    Conversation(bool),
    /// a whole conversation over TLS (NLA on/off) whose server cuts every message into TLS records of at most `plan`
    /// plaintext bytes; the transport below TLS delivers at most .1 bytes per read (0 = everything)
    ConversationRecords(bool, usize),
}

#[derive(Clone, Debug, Serialize)]
pub enum Plan {
    All,
    Cap(usize),
    Splits(Vec<usize>),
    /// composition of the stream length encoded as a bit mask of cut positions (bit i set = cut after byte i+1)
    Composition(u32),
    /// a split at this offset, and the read call that would deliver the byte after it fails once with
    /// ErrorKind::Interrupted (a signal arrived): by the contract of std::io::Read the call is simply made again
    InterruptedAt(usize),
}

#[derive(Clone, Debug, Serialize)]
pub struct Case {
    pub frames: Vec<FrameSpec>,
    pub plan: Plan,
    pub via_x224: bool,
}

fn coded(n: usize, salt: u8) -> Vec<u8> {
    // position-coded so that any misalignment shows; never starts with 0x03 to keep sentinels unambiguous
    (0..n).map(|i| ((i as u32 * 7 + 0x11 + salt as u32) & 0xff) as u8).collect()
}

pub fn frame_bytes(f: &FrameSpec, salt: u8) -> Vec<u8> {
    match f {
        FrameSpec::Tpkt(l) => framing::tpkt_raw(*l, &coded((*l as usize).saturating_sub(4), salt)),
        FrameSpec::FpShort(first, l) => {
            let mut v = vec![*first, *l];
            v.extend(coded((*l as usize).saturating_sub(2), salt));
            v
        }
        FrameSpec::FpLong(first, l) => {
            let mut v = vec![*first, 0x80 | (*l >> 8) as u8, *l as u8];
            v.extend(coded((*l as usize).saturating_sub(3), salt));
            v
        }
        FrameSpec::TpktX224(n) => framing::tpkt(&framing::x224_dt(&coded(*n as usize, salt))),
        FrameSpec::Raw(b) => b.clone(),
        FrameSpec::Conversation(_) | FrameSpec::ConversationRecords(..) => vec![0],
    }
}

pub fn stream_of(c: &Case) -> Vec<u8> {
    let mut s = vec![];
    for (i, f) in c.frames.iter().enumerate() {
        s.extend(frame_bytes(f, (i * 37) as u8));
    }
    s
}

fn plan_of(p: &Plan, len: usize) -> ReadPlan {
    match p {
        Plan::All => ReadPlan::All,
        Plan::Cap(k) => ReadPlan::Cap(*k),
        Plan::Splits(v) => ReadPlan::Splits(v.clone()),
        Plan::InterruptedAt(o) => ReadPlan::Splits(vec![*o]),
        Plan::Composition(mask) => {
            let mut v = vec![];
            for i in 0..len.saturating_sub(1) {
                if mask & (1 << i) != 0 {
                    v.push(i + 1);
                }
            }
            ReadPlan::Splits(v)
        }
    }
}

#[derive(Default)]
pub struct C13 {
    cases: Vec<Case>,
    tier: Option<Tier>,
}

impl C13 {
    pub fn new() -> C13 {
        C13::default()
    }
}

const SENT_FP: FrameSpec = FrameSpec::FpShort(0x40, 5);
const SENT_TPKT: FrameSpec = FrameSpec::Tpkt(9);

fn header_len(f: &FrameSpec) -> usize {
    match f {
        FrameSpec::Tpkt(_) | FrameSpec::TpktX224(_) => 4,
        FrameSpec::FpShort(..) => 2,
        FrameSpec::FpLong(..) => 3,
        FrameSpec::Raw(_) | FrameSpec::Conversation(_) | FrameSpec::ConversationRecords(..) => 0,
    }
}

impl Prop for C13 {
    fn id(&self) -> &'static str {
        "C13"
    }
    fn level(&self) -> &'static str {
        "exploration"
    }
    fn prepare(&mut self, tier: Tier) -> Result<(), String> {
        self.tier = Some(tier);
        let mut cs = vec![];
        // A: every TPKT length field, followed by a fast-path sentinel and a TPKT sentinel
        for l in 0..=0xffffu32 {
            cs.push(Case { frames: vec![FrameSpec::Tpkt(l as u16), SENT_FP, SENT_TPKT], plan: Plan::All, via_x224: false });
        }
        // B: every short-form fast-path length x every first byte (0x03 is the TPKT version byte)
        for first in 0..=0xffu32 {
            if first == 3 {
                continue;
            }
            for l in 0..0x80u32 {
                cs.push(Case { frames: vec![FrameSpec::FpShort(first as u8, l as u8), SENT_TPKT, SENT_FP], plan: Plan::All, via_x224: false });
            }
        }
        // C: every long-form length (incl. long form of small values) for the four security-flag patterns
        let firsts: &[u8] = if tier == Tier::Quick { &[0x00, 0xC0] } else { &[0x00, 0x40, 0x80, 0xC0, 0x3C, 0xFC] };
        for &first in firsts {
            for l in 0..0x8000u32 {
                cs.push(Case { frames: vec![FrameSpec::FpLong(first, l as u16), SENT_TPKT, SENT_FP], plan: Plan::All, via_x224: false });
            }
        }
        // D: read schedules on representative three-frame streams
        let heads = vec![
            FrameSpec::Tpkt(4),
            FrameSpec::Tpkt(5),
            FrameSpec::Tpkt(7),
            FrameSpec::Tpkt(11),
            FrameSpec::Tpkt(260),
            FrameSpec::Tpkt(3),
            FrameSpec::FpShort(0x00, 2),
            FrameSpec::FpShort(0x80, 3),
            FrameSpec::FpShort(0x00, 6),
            FrameSpec::FpShort(0x00, 1),
            FrameSpec::FpLong(0x00, 3),
            FrameSpec::FpLong(0x40, 4),
            FrameSpec::FpLong(0x00, 6),
            FrameSpec::FpLong(0x00, 300),
            FrameSpec::FpLong(0x00, 2),
        ];
        let seconds = vec![FrameSpec::Tpkt(4), FrameSpec::Tpkt(6), FrameSpec::FpShort(0, 2), FrameSpec::FpShort(0x40, 4), FrameSpec::FpLong(0, 3), FrameSpec::FpLong(0, 5)];
        for h in &heads {
            for s in &seconds {
                let third = if matches!(s, FrameSpec::Tpkt(_)) { SENT_FP } else { SENT_TPKT };
                let frames = vec![h.clone(), s.clone(), third];
                let base = Case { frames: frames.clone(), plan: Plan::All, via_x224: false };
                let len = stream_of(&base).len();
                for k in [1usize, 2, 3, 4, 5, 7, 1500] {
                    cs.push(Case { frames: frames.clone(), plan: Plan::Cap(k), via_x224: false });
                }
                // every single split offset
                for o in 1..len {
                    cs.push(Case { frames: frames.clone(), plan: Plan::Splits(vec![o]), via_x224: false });
                }
                // all pairs of split points inside the first two headers (+1 byte)
                let h1 = header_len(h);
                let f1 = frame_bytes(h, 0).len();
                let h2 = header_len(s);
                let mut pts: Vec<usize> = (1..=h1 + 1).collect();
                pts.extend((f1..=f1 + h2 + 1).filter(|p| *p < len));
                pts.sort();
                pts.dedup();
                for i in 0..pts.len() {
                    for j in i + 1..pts.len() {
                        cs.push(Case { frames: frames.clone(), plan: Plan::Splits(vec![pts[i], pts[j]]), via_x224: false });
                    }
                }
                // all compositions for short streams
                let bound = if tier == Tier::Quick { 12 } else { 19 };
                if len <= bound {
                    for mask in 0..(1u32 << (len - 1)) {
                        cs.push(Case { frames: frames.clone(), plan: Plan::Composition(mask), via_x224: false });
                    }
                }
            }
        }
        // D2: large frames dribbled in (one byte, a few bytes per delivery): thousands of partial reads per frame
        for big in [FrameSpec::Tpkt(4100), FrameSpec::Tpkt(4101), FrameSpec::Tpkt(8200), FrameSpec::Tpkt(20004), FrameSpec::Tpkt(65535), FrameSpec::FpLong(0, 4100), FrameSpec::FpLong(0, 4099), FrameSpec::FpLong(0x80, 0x7fff)] {
            for k in [1usize, 2, 3, 7] {
                cs.push(Case { frames: vec![big.clone(), SENT_FP, SENT_TPKT], plan: Plan::Cap(k), via_x224: false });
            }
        }
        // D3: an interrupted read call at every offset of a few three-frame streams
        for frames in [vec![FrameSpec::Tpkt(10), SENT_FP, SENT_TPKT], vec![FrameSpec::FpShort(0x80, 9), SENT_TPKT, SENT_FP], vec![FrameSpec::FpLong(0x40, 300), FrameSpec::Tpkt(4), FrameSpec::FpShort(0, 2)]] {
            let len = stream_of(&Case { frames: frames.clone(), plan: Plan::All, via_x224: false }).len();
            for o in 0..len {
                cs.push(Case { frames: frames.clone(), plan: Plan::InterruptedAt(o), via_x224: false });
            }
        }
        // D4: payloads of exactly 4096, 8192, 16384, 32768 bytes and their neighbours, whole and in pieces
        for payload in [4095usize, 4096, 4097, 8192, 16383, 16384, 16385, 32768, 49152, 65531] {
            for big in [FrameSpec::Tpkt((payload + 4) as u16), FrameSpec::FpLong(0, (payload + 3).min(0x7fff) as u16)] {
                for plan in [Plan::All, Plan::Cap(1460), Plan::Cap(4096), Plan::Cap(16384)] {
                    cs.push(Case { frames: vec![big.clone(), SENT_FP, SENT_TPKT], plan, via_x224: false });
                }
            }
        }
        // D5: long streams on one reader: 300 and 70 000 frames of the three kinds in rotation (anything that counts or
        // accumulates per frame shows), whole and 7 bytes at a time; through tpkt and through x224
        for n in [300usize, 70_000] {
            for via_x224 in [false, true] {
                let frames: Vec<FrameSpec> = (0..n).map(|i| match i % 3 {
                    0 => if via_x224 { FrameSpec::TpktX224((i % 11) as u16) } else { FrameSpec::Tpkt((4 + i % 11) as u16) },
                    1 => FrameSpec::FpShort(if i % 2 == 0 { 0x00 } else { 0x80 }, (2 + i % 9) as u8),
                    _ => FrameSpec::FpLong(0x40, (3 + i % 200) as u16),
                }).collect();
                cs.push(Case { frames: frames.clone(), plan: Plan::All, via_x224 });
                if n == 300 {
                    cs.push(Case { frames, plan: Plan::Cap(7), via_x224 });
                }
            }
        }
        // D6: several frames above 32 KiB on one reader, in every order of size (a receive buffer kept between reads
        // and grown on demand shows only when a larger frame follows a large one)
        {
            let sizes = [32764usize, 32769, 40000, 50000, 65531];
            for a in sizes {
                for b in sizes {
                    for via_x224 in [false, true] {
                        let mk = |p: usize| if via_x224 { FrameSpec::TpktX224((p - 3) as u16) } else { FrameSpec::Tpkt((p + 4) as u16) };
                        cs.push(Case { frames: vec![mk(a), mk(b), if via_x224 { FrameSpec::TpktX224(2) } else { SENT_FP }], plan: Plan::All, via_x224 });
                    }
                }
            }
            for plan in [Plan::All, Plan::Cap(16384)] {
                cs.push(Case { frames: sizes.iter().map(|p| FrameSpec::Tpkt((*p + 4) as u16)).chain([SENT_FP, SENT_TPKT]).collect(), plan: plan.clone(), via_x224: false });
                cs.push(Case { frames: sizes.iter().rev().map(|p| FrameSpec::Tpkt((*p + 4) as u16)).chain([SENT_FP, SENT_TPKT]).collect(), plan, via_x224: false });
            }
        }
        // D7: the stream ends inside the body of a frame (1, 2, 100 bytes or half of the body missing), small and large
        // bodies, whole and in pieces: an error, never a shorter payload
        for payload in [1usize, 5, 200, 4095, 4096, 4097, 8192, 20000, 32767, 65531] {
            for big in [FrameSpec::Tpkt((payload + 4) as u16), FrameSpec::FpLong(0x80, (payload + 3).min(0x7fff) as u16)] {
                let whole = frame_bytes(&big, 0);
                for missing in [1usize, 2, 100, payload / 2] {
                    if missing == 0 || missing >= whole.len() - 3 {
                        continue;
                    }
                    for plan in [Plan::All, Plan::Cap(1460), Plan::Cap(1)] {
                        if matches!(plan, Plan::Cap(1)) && payload > 5000 {
                            continue;
                        }
                        cs.push(Case { frames: vec![SENT_FP, FrameSpec::Raw(whole[..whole.len() - missing].to_vec())], plan, via_x224: false });
                    }
                }
            }
        }
        // E2: through x224::Client::read, fast-path frames with and without payload between slow-path frames
        for fp in [FrameSpec::FpShort(0x00, 2), FrameSpec::FpShort(0x80, 2), FrameSpec::FpLong(0x40, 3), FrameSpec::FpShort(0x00, 3), FrameSpec::FpLong(0x00, 4)] {
            for plan in [Plan::All, Plan::Cap(1)] {
                cs.push(Case { frames: vec![FrameSpec::TpktX224(1), fp.clone(), FrameSpec::TpktX224(2)], plan: plan.clone(), via_x224: true });
                cs.push(Case { frames: vec![fp.clone(), FrameSpec::TpktX224(3), fp.clone()], plan: plan.clone(), via_x224: true });
                cs.push(Case { frames: vec![fp.clone(), fp.clone(), FrameSpec::FpShort(0xC0, 6)], plan: plan.clone(), via_x224: true });
            }
        }
        // E: through x224::Client::read (strips the 3-byte data TPDU header)
        for n in [0u16, 1, 5, 200] {
            for plan in [Plan::All, Plan::Cap(1), Plan::Cap(3)] {
                cs.push(Case { frames: vec![FrameSpec::TpktX224(n), FrameSpec::FpShort(0x80, 4), FrameSpec::TpktX224(2)], plan: plan.clone(), via_x224: true });
            }
        }
        for bad in [vec![3u8, 0, 0, 6, 2, 0xf0], vec![3, 0, 0, 7, 2, 0xf0, 0x00], vec![3, 0, 0, 4]] {
            cs.push(Case { frames: vec![FrameSpec::Raw(bad), FrameSpec::TpktX224(1)], plan: Plan::All, via_x224: true });
        }
        // F: whole conversations under fragmented delivery
        for nla in [true, false] {
            for k in [1usize, 2, 3, 5, 7, 16, 1000] {
                cs.push(Case { frames: vec![FrameSpec::Conversation(nla)], plan: Plan::Cap(k), via_x224: false });
            }
        }
        // F2: whole conversations whose TLS records end inside frame headers and bodies (a read of the decrypted
        // stream returns at most the rest of one record)
        for nla in [true, false] {
            for k in [1usize, 2, 3, 4, 5, 7, 11, 16, 100] {
                for tcap in [0usize, 1, 7] {
                    cs.push(Case { frames: vec![FrameSpec::ConversationRecords(nla, tcap)], plan: Plan::Cap(k), via_x224: false });
                }
            }
        }
        self.cases = cs;
        Ok(())
    }
    fn n_cases(&self) -> u64 {
        self.cases.len() as u64
    }
    fn describe(&self, idx: u64) -> Value {
        let c = &self.cases[idx as usize];
        json!({"idx": idx, "case": c, "stream_len": stream_of(c).len()})
    }
    fn rule(&self) -> String {
        "cases = (three-frame stream, read schedule); streams enumerate every TPKT length field 0..65535, every short fast-path length x every first byte, every 15-bit long-form length; schedules enumerate caps {1,2,3,4,5,7,1500}, every single split offset, all pairs of splits inside the first two headers, and all 2^(n-1) compositions of short streams; frames of 4100..65535 bytes delivered 1, 2, 3 or 7 bytes at a time; payloads of exactly 4096 / 8192 / 16384 / 32768 / 49152 bytes and their neighbours whole and in 1460 / 4096 / 16384-byte pieces; one read call failing with ErrorKind::Interrupted at every offset of three streams (the frames must come out all the same); streams of 300 and 70 000 frames on one reader; two to five frames of 32 KiB .. 65535 bytes in every order of size on one reader; streams that end 1 / 2 / 100 bytes or half a body before the end of a frame of 1..65531 bytes (an error, never a shorter payload); a slow-path frame whose X.224 header is refused is followed by valid frames that must still be returned; streams read through x224::Client::read with fast-path frames with and without payload before, between and after slow-path frames. Additionally 14 full real conversations over TLS (NLA on/off, with a reactivation, inputs and shutdown) are run with the transport delivering at most k bytes per read for k in {1,2,3,5,7,16,1000}, and 54 more in which the server cuts every message into TLS records of at most {1,2,3,4,5,7,11,16,100} plaintext bytes (a read of the decrypted stream returns at most the rest of one record) over a transport delivering everything / 1 / 7 bytes per read. Non-trivial: first frame has an empty payload, or declares a length below its own header, or at least one split point falls inside a frame header.".into()
    }
    fn assumptions(&self) -> Vec<String> {
        vec![
            "first bytes whose action bits are neither 0 (fast-path) nor the exact TPKT version 0x03 are undefined by MS-RDPBCGR: executed for totality only, kind/flags not compared".into(),
            "after a rejected frame the amount of input consumed is unspecified and not compared".into(),
            "the transport is modelled by an in-memory Read whose chunking is chosen by the harness; Read never returns more than asked".into(),
        ]
    }
    fn coverage_extra(&self) -> Value {
        json!({"bounds": {"tpkt_length_fields": 65536, "fp_short": "127 lengths x 255 first bytes", "fp_long": "32768 lengths x sec-flag patterns", "composition_bound_bytes": if self.tier == Some(Tier::Quick) {12} else {19}}})
    }
    fn run_case(&mut self, idx: u64) -> Outcome {
        let c = crate::alloc::exempt(|| self.cases[idx as usize].clone());
        if let FrameSpec::Conversation(nla) = c.frames[0] {
            let cap = match c.plan {
                Plan::Cap(k) => k,
                _ => 1,
            };
            let cfg = crate::tls::ConnCfg { use_nla: nla, ..Default::default() };
            let p = crate::peer::ServerParams { selected: if nla { 2 } else { 1 }, reactivations: 1, ..Default::default() };
            return match crate::wire::converse_fragmented(&cfg, &p, crate::tls::Cert::A, true, ReadPlan::Cap(cap), crate::memlink::WritePlan::All) {
                Err(e) => Outcome::fail("setup", "machinery", e),
                Ok(t) => match crate::wire::check_c03(&t) {
                    Some(f) => Outcome::fail("mismatch", format!("conversation-fails-under-fragmented-delivery: {}", f.sig), format!("read cap {}: {}", cap, f.detail)),
                    None => Outcome::pass("conversation-under-fragmentation", true),
                },
            };
        }
        if let FrameSpec::ConversationRecords(nla, tcap) = c.frames[0] {
            let rcap = match c.plan {
                Plan::Cap(k) => k,
                _ => 1,
            };
            let cfg = crate::tls::ConnCfg { use_nla: nla, ..Default::default() };
            let p = crate::peer::ServerParams { selected: if nla { 2 } else { 1 }, reactivations: 1, tls_record_cap: rcap, ..Default::default() };
            let rp = if tcap == 0 { ReadPlan::All } else { ReadPlan::Cap(tcap) };
            return match crate::wire::converse_fragmented(&cfg, &p, crate::tls::Cert::A, true, rp, crate::memlink::WritePlan::All) {
                Err(e) => Outcome::fail("setup", "machinery", e),
                Ok(t) => match crate::wire::check_c03(&t) {
                    Some(f) => Outcome::fail("mismatch", format!("conversation-fails-when-tls-records-split-frames: {}", f.sig), format!("TLS records of at most {} bytes, transport cap {}: {}", rcap, tcap, f.detail)),
                    None => Outcome::pass("conversation-with-split-tls-records", true),
                },
            };
        }
        let stream = crate::alloc::exempt(|| stream_of(&c));
        let link = crate::alloc::exempt(|| MemLink::scripted(&stream));
        link.sh.borrow_mut().read_plan = plan_of(&c.plan, stream.len());
        if let Plan::InterruptedAt(o) = c.plan {
            link.sh.borrow_mut().read_err_once_at = Some((o, std::io::ErrorKind::Interrupted));
        }
        let sh = link.sh.clone();
        // reference expectation (harness bookkeeping: not counted as the client's memory)
        let (expect, terminal) = crate::alloc::exempt(|| {
            let mut expect = vec![];
            let mut pos = 0;
            let mut terminal; // what must happen after the expected frames
            loop {
                match framing::deframe(&stream[pos..]) {
                    Deframe::Frame(f, n) => {
                        expect.push((f, pos + n));
                        pos += n;
                        terminal = "eof";
                        if pos == stream.len() {
                            break;
                        }
                    }
                    Deframe::Reject => {
                        terminal = "reject";
                        break;
                    }
                    Deframe::Incomplete => {
                        terminal = "incomplete";
                        break;
                    }
                }
            }
            (expect, terminal)
        });
        let undefined_first = !framing::first_byte_defined(stream[0]);
        let mut nontrivial = false;
        match &c.frames[0] {
            FrameSpec::Tpkt(l) => nontrivial |= *l <= 4,
            FrameSpec::FpShort(_, l) => nontrivial |= *l <= 2,
            FrameSpec::FpLong(_, l) => nontrivial |= *l <= 3 || *l < 0x80,
            _ => {}
        }
        // does a split fall inside a header?
        crate::alloc::exempt(|| {
            let hdr_ranges: Vec<(usize, usize)> = {
                let mut v = vec![];
                let mut p = 0;
                for (i, f) in c.frames.iter().enumerate() {
                    let b = frame_bytes(f, (i * 37) as u8).len();
                    v.push((p, p + header_len(f)));
                    p += b;
                }
                v
            };
            let cuts: Vec<usize> = match plan_of(&c.plan, stream.len()) {
                ReadPlan::Splits(v) => v,
                ReadPlan::Cap(k) if k < 4 => vec![1],
                _ => vec![],
            };
            nontrivial |= cuts.iter().any(|c| hdr_ranges.iter().any(|(a, b)| c > a && c < b));
        });

        enum Cl {
            T(tpkt::Client<MemLink>),
            X(x224::Client<MemLink>),
        }
        let t = tpkt::Client::new(Link::new(Stream::Raw(link)));
        let mut cl = if c.via_x224 { Cl::X(x224::Client::verif_new_raw(t, x224::Protocols::ProtocolSSL)) } else { Cl::T(t) };
        let mut read = |cl: &mut Cl| match cl {
            Cl::T(t) => t.read(),
            Cl::X(x) => x.read(),
        };
        for (i, (f, end)) in expect.iter().enumerate() {
            let r = read(&mut cl);
            let got = match r {
                Ok(tpkt::Payload::Raw(cur)) => {
                    let p = cur.position() as usize;
                    Some((true, 0u8, cur.into_inner()[p..].to_vec()))
                }
                Ok(tpkt::Payload::FastPath(fl, cur)) => {
                    let p = cur.position() as usize;
                    Some((false, fl, cur.into_inner()[p..].to_vec()))
                }
                Err(_) => None,
            };
            if undefined_first && i == 0 {
                return Outcome::pass("undefined-first-byte", false);
            }
            let (want_raw, want_flags, mut want_payload) = match f {
                Frame::Tpkt(p) => (true, 0u8, p.clone()),
                Frame::FastPath { sec_flags, payload, .. } => (false, *sec_flags, payload.clone()),
            };
            let mut want_err = false;
            if c.via_x224 && want_raw {
                match framing::parse_x224_dt(&want_payload) {
                    Ok(d) => want_payload = d.to_vec(),
                    Err(_) => want_err = true,
                }
            }
            match got {
                // the TPKT frame was consumed whole: the frames behind it must still come out right
                None if want_err => {
                    nontrivial = true;
                    continue;
                }
                None => {
                    return Outcome::fail(
                        "mismatch",
                        format!("frame{}-error-instead-of-payload", i),
                        format!("read #{} returned an error; reference expects a {} frame of {} payload bytes", i, if want_raw { "TPKT" } else { "fast-path" }, want_payload.len()),
                    )
                }
                Some(_) if want_err => return Outcome::fail("mismatch", "bad-x224-header-accepted", "X.224 data header malformed but payload returned"),
                Some((raw, fl, payload)) => {
                    if raw != want_raw {
                        return Outcome::fail("mismatch", format!("frame{}-wrong-kind", i), "TPKT/fast-path kind differs from the reference");
                    }
                    if !raw && fl != want_flags {
                        return Outcome::fail("mismatch", format!("frame{}-wrong-secflags", i), format!("sec flags {} expected {}", fl, want_flags));
                    }
                    if payload != want_payload {
                        let sig = if want_payload.is_empty() { "empty-payload-frame-swallows-following-bytes".to_string() } else { format!("frame{}-wrong-payload", i) };
                        return Outcome::fail(
                            "mismatch",
                            sig,
                            format!("read #{}: payload of {} bytes, reference {} bytes (first bytes got {:02x?} want {:02x?})", i, payload.len(), want_payload.len(), &payload[..payload.len().min(8)], &want_payload[..want_payload.len().min(8)]),
                        );
                    }
                    let left = sh.borrow().to_client.len();
                    if left != stream.len() - end {
                        return Outcome::fail("mismatch", format!("frame{}-overconsumed", i), format!("after read #{}, {} bytes remain in the transport, reference {}", i, left, stream.len() - end));
                    }
                }
            }
        }
        // terminal behaviour
        let r = read(&mut cl);
        if undefined_first && expect.is_empty() {
            return Outcome::pass("undefined-first-byte", false);
        }
        match (terminal, r.is_ok()) {
            ("reject", true) => Outcome::fail("mismatch", "short-declared-length-accepted", "frame whose declared length is below its own header was accepted"),
            ("incomplete", true) => Outcome::fail("mismatch", "truncated-frame-accepted", "stream ends inside the frame but a payload was returned"),
            ("eof", true) => Outcome::fail("mismatch", "frame-after-end", "a frame was returned after the end of the stream"),
            (t, false) => Outcome::pass(format!("ok-{}-frames-then-{}", expect.len(), t), nontrivial),
            _ => unreachable!(),
        }
    }
}
