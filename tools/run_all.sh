#!/bin/bash
# run every registered check of a tier on the current tree; print one line per property
tier="${1:-quick}"
ROOT="$(cd "$(dirname "$(readlink -f "$0")")/.." && pwd)"
cd "$ROOT"
fail=0
for id in $(python3 -c "import json;print(' '.join(c['property_id'] for c in json.load(open('MANIFEST.json'))['checks']))"); do
  start=$(date +%s)
  out=$(./check $id $tier 2>&1); code=$?
  end=$(date +%s)
  echo "$id exit=$code $((end-start))s :: $(echo "$out" | grep -E "^$id $tier" | tail -1 | cut -c1-160)"
  [ $code -ne 0 ] && { fail=1; echo "$out" | grep -E 'VIOLATION|MACHINERY|sig:' | head -5; }
done
exit $fail
