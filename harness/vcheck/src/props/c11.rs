//! C11 — user input is transmitted exactly once, in order, with exact values.

use crate::fixture::{raw_active, ClientCfg};
use crate::peer::ServerParams;
use crate::runner::{Outcome, Prop, Tier};
use rdp::core::event::{BitmapEvent, KeyboardEvent, PointerButton, PointerEvent, RdpEvent};
use serde::Serialize;
use serde_json::{json, Value};
use vref::fastpath::{self, Rect, Update};
use vref::share::{self, InputEvent};
use vref::{framing, mcs};

#[derive(Clone, Debug, Serialize, PartialEq)]
pub enum Ev {
    Ptr { x: u16, y: u16, button: u8, down: bool },
    Key { code: u16, down: bool },
    /// an event kind that cannot be sent
    Bitmap,
    /// the same through the lenient entry point (try_write): still refused
    BitmapLenient,
    /// the server sends something in between: 0 fast-path bitmap, 1 set-error-info, 2 unknown data PDU,
    /// 3 a demand-active (not preceded by a deactivate-all: ignored in the active state), 4 a confirm-active
    Server(u8),
    /// the transport refuses the next write once, before accepting any byte (kind index: WouldBlock, TimedOut, Other)
    FailNextWrite(u8),
    /// the transport accepts the first `.1` bytes of the next frame, then refuses once (kind as above): the write either
    /// fails (the wire then holds that prefix, the sequence ends there) or succeeds with exactly one whole PDU
    FailInsideNextWrite(u8, usize),
}

#[derive(Clone, Debug, Serialize)]
pub struct Case {
    pub events: Vec<Ev>,
    pub user_id: u16,
    pub share_id: u32,
    pub block: &'static str,
    /// every event goes through try_write instead of write
    pub lenient: bool,
    /// capability list the server announced: 0 Windows capture, 1 minimal, 2 input capability without the scancode
    /// flag, 3 no input capability, 4 with unknown sets
    pub caps: u8,
    /// the transport accepts at most this many bytes per write call (0: everything)
    pub write_cap: usize,
    /// before the events the server deactivates and re-activates the session: 1 with another share id, 2 with the same,
    /// 3 with another share id while its finalization PDUs still name the previous one; 4: no re-activation, but the
    /// finalization PDUs of the only activation carry share id 0 (the share id comes from the demand-active alone)
    pub reactivated: u8,
}

pub struct C11 {
    cases: Vec<Case>,
}

impl C11 {
    pub fn new() -> C11 {
        C11 { cases: vec![] }
    }
}

fn button(b: u8) -> PointerButton {
    match b {
        1 => PointerButton::Left,
        2 => PointerButton::Right,
        3 => PointerButton::Middle,
        _ => PointerButton::None,
    }
}

fn sdi(data: &[u8]) -> Vec<u8> {
    framing::tpkt(&framing::x224_dt(&mcs::send_data_indication(1002, 1003, data)))
}

impl Prop for C11 {
    fn id(&self) -> &'static str {
        "C11"
    }
    fn level(&self) -> &'static str {
        "exploration"
    }
    fn prepare(&mut self, tier: Tier) -> Result<(), String> {
        let mut cs = vec![];
        let (uid, sid) = (1007u16, 0x000103EAu32);
        // A: every x, every y, every scancode (batches of 64 events on one connection: order is checked too)
        for base in (0..65536u32).step_by(64) {
            cs.push(Case { events: (0..64).map(|i| Ev::Ptr { x: (base + i) as u16, y: 5, button: 1, down: true }).collect(), user_id: uid, share_id: sid, block: "all-x", lenient: false, caps: 0, write_cap: 0, reactivated: 0 });
            cs.push(Case { events: (0..64).map(|i| Ev::Ptr { x: 7, y: (base + i) as u16, button: 0, down: false }).collect(), user_id: uid, share_id: sid, block: "all-y", lenient: false, caps: 0, write_cap: 0, reactivated: 0 });
            cs.push(Case { events: (0..64).map(|i| Ev::Key { code: (base + i) as u16, down: i % 2 == 0 }).collect(), user_id: uid, share_id: sid, block: "all-scancodes", lenient: false, caps: 0, write_cap: 0, reactivated: 0 });
            cs.push(Case { events: (0..64).map(|i| Ev::Key { code: (base + i) as u16, down: i % 2 == 1 }).collect(), user_id: uid, share_id: sid, block: "all-scancodes", lenient: false, caps: 0, write_cap: 0, reactivated: 0 });
        }
        // B: buttons x press state x boundary coordinates
        let b = [0u16, 1, 0x7FFF, 0x8000, 0xFFFF];
        for btn in 0..4u8 {
            for down in [false, true] {
                for x in b {
                    for y in b {
                        cs.push(Case { events: vec![Ev::Ptr { x, y, button: btn, down }], user_id: uid, share_id: sid, block: "buttons", lenient: false, caps: 0, write_cap: 0, reactivated: 0 });
                    }
                }
            }
        }
        // C: every sequence of <= 3 (<= 4) events, one server PDU interleaved at every position
        let alpha = vec![
            Ev::Ptr { x: 10, y: 20, button: 0, down: false },
            Ev::Ptr { x: 10, y: 20, button: 1, down: true },
            Ev::Ptr { x: 11, y: 21, button: 1, down: false },
            Ev::Ptr { x: 0xFFFF, y: 0, button: 2, down: true },
            Ev::Ptr { x: 3, y: 4, button: 3, down: true },
            Ev::Key { code: 0x1E, down: true },
            Ev::Key { code: 0x1E, down: false },
            Ev::Key { code: 0xE048, down: true },
            Ev::Bitmap,
        ];
        let depth = if tier == Tier::Quick { 3 } else { 5 };
        fn rec(alpha: &[Ev], depth: usize, cur: &mut Vec<Ev>, out: &mut Vec<Vec<Ev>>) {
            if !cur.is_empty() {
                out.push(cur.clone());
            }
            if depth == 0 {
                return;
            }
            for e in alpha {
                cur.push(e.clone());
                rec(alpha, depth - 1, cur, out);
                cur.pop();
            }
        }
        let mut seqs = vec![];
        rec(&alpha, depth, &mut vec![], &mut seqs);
        for s in &seqs {
            cs.push(Case { events: s.clone(), user_id: uid, share_id: sid, block: "sequences", lenient: false, caps: 0, write_cap: 0, reactivated: 0 });
            for pos in 0..=s.len() {
                for k in 0..10u8 {
                    let mut e = s.clone();
                    e.insert(pos, Ev::Server(k));
                    cs.push(Case { events: e, user_id: uid, share_id: sid, block: "sequences-with-server-traffic", lenient: false, caps: 0, write_cap: 0, reactivated: 0 });
                }
            }
        }
        // D: identifiers assigned by the server
        for user_id in [1001u16, 1002, 1004, 1007, 0x8000, 65534, 65535] {
            for share_id in [0u32, 1, 0x000103EA, 0xFFFFFFFF] {
                cs.push(Case { events: vec![Ev::Ptr { x: 1, y: 2, button: 1, down: true }, Ev::Key { code: 3, down: false }], user_id, share_id, block: "identifiers", lenient: false, caps: 0, write_cap: 0, reactivated: 0 });
            }
        }
        // E: the lenient entry point, the server's capability list and a short-writing transport do not change anything
        let probe = vec![Ev::Ptr { x: 10, y: 20, button: 1, down: true }, Ev::Key { code: 0x1E, down: true }, Ev::Bitmap, Ev::BitmapLenient, Ev::Key { code: 0xE048, down: false }, Ev::Ptr { x: 10, y: 20, button: 0, down: false }, Ev::Ptr { x: 10, y: 20, button: 0, down: false }];
        for lenient in [false, true] {
            for caps in 0..6u8 {
                for write_cap in [0usize, 1, 2, 7, 20, 47, 48] {
                    cs.push(Case { events: probe.clone(), user_id: uid, share_id: sid, block: "entry-point-x-capabilities-x-transport", lenient, caps, write_cap, reactivated: 0 });
                }
            }
        }
        // F: the transport refuses one write (before its first byte) at every position of every sequence of <= 2 events:
        // a refused event is not on the wire, neither then nor later; the others go out exactly once
        for s in seqs.iter().filter(|s| s.len() <= 2 && !s.contains(&Ev::Bitmap)) {
            for pos in 0..s.len() {
                for kind in 0..4u8 {
                    let mut e = s.clone();
                    e.insert(pos, Ev::FailNextWrite(kind));
                    // and something after it, so that a frame kept back would show up
                    e.push(Ev::Ptr { x: 77, y: 88, button: 2, down: true });
                    cs.push(Case { events: e, user_id: uid, share_id: sid, block: "refused-write", lenient: false, caps: 0, write_cap: 0, reactivated: 0 });
                }
            }
        }
        // F2: the transport takes a part of the frame (1, 4, 7, 20, 40 bytes) and then refuses once, on the last event of
        // every sequence of <= 2 sendable events: Ok means exactly one whole PDU, Err means nothing but that prefix
        for s in seqs.iter().filter(|s| s.len() <= 2 && !s.contains(&Ev::Bitmap)) {
            for kind in 0..4u8 {
                for off in [1usize, 4, 7, 20, 40] {
                    let mut e = s.clone();
                    let last = e.pop().unwrap();
                    e.push(Ev::FailInsideNextWrite(kind, off));
                    e.push(last);
                    cs.push(Case { events: e, user_id: uid, share_id: sid, block: "write-refused-inside-the-frame", lenient: false, caps: 0, write_cap: 0, reactivated: 0 });
                }
            }
        }
        for s in seqs.iter().filter(|s| s.len() <= 2) {
            cs.push(Case { events: s.clone(), user_id: uid, share_id: sid, block: "sequences-lenient", lenient: true, caps: 0, write_cap: 0, reactivated: 0 });
            cs.push(Case { events: s.clone(), user_id: uid, share_id: sid, block: "sequences-no-scancode-flag", lenient: false, caps: 2, write_cap: 3, reactivated: 0 });
        }
        // H: long sessions on one client: 300 and 70 000 events (16-bit counters wrap, anything that accumulates shows),
        // pointer and key events alternating, a server PDU of each kind every 97 events
        for n in [300usize, 70_000] {
            let mut e = vec![];
            for i in 0..n {
                if i % 97 == 96 {
                    e.push(Ev::Server((i / 97 % 10) as u8));
                }
                e.push(match i % 4 {
                    0 => Ev::Ptr { x: i as u16, y: (i / 3) as u16, button: 0, down: false },
                    1 => Ev::Key { code: (i % 128) as u16, down: true },
                    2 => Ev::Key { code: (i % 128) as u16 - 1, down: false },
                    _ => Ev::Ptr { x: (i * 7) as u16, y: 1, button: (1 + i / 4 % 3) as u8, down: i % 8 == 3 },
                });
            }
            cs.push(Case { events: e, user_id: uid, share_id: sid, block: "long-session", lenient: false, caps: 0, write_cap: 0, reactivated: 0 });
        }
        // G: the same after the server has deactivated and re-activated the session (fresh or reused share id): the
        // input PDUs name the share of the activation they are sent in
        for s in seqs.iter().filter(|s| s.len() <= 2) {
            for reactivated in [1u8, 2, 3, 4, 5] {
                for share_id in [sid, 0, 0xFFFF_FFFF] {
                    cs.push(Case { events: s.clone(), user_id: uid, share_id, block: "after-reactivation", lenient: false, caps: 0, write_cap: 0, reactivated });
                }
            }
        }
        self.cases = cs;
        Ok(())
    }
    fn n_cases(&self) -> u64 {
        self.cases.len() as u64
    }
    fn describe(&self, idx: u64) -> Value {
        let c = &self.cases[idx as usize];
        json!({"idx": idx, "block": c.block, "user_id": c.user_id, "share_id": c.share_id, "n_events": c.events.len(), "events": c.events.iter().take(8).collect::<Vec<_>>()})
    }
    fn rule(&self) -> String {
        "cases = event sequences submitted through RdpClient::write on a really activated client (raw stack), decoded by the reference peer. [all-x/all-y/all-scancodes] every value 0..65535 of x, y and scancode (batches of 64 events, order checked); [buttons] 4 buttons x 2 press states x 5x5 boundary coordinates; [sequences] every sequence of <=3 (<=5 in thorough) events over a 9-letter alphabet incl. an unsendable kind, alone and with one server PDU (fast-path bitmap, set-error-info, unknown data PDU, a demand-active or a confirm-active arriving in the active state, an indication on the user channel or on another static channel, a deactivate-all travelling on a channel that was never joined, data PDUs naming share id 0 / another share id) interleaved at every position; [refused-write] one write refused by the transport (WouldBlock / TimedOut / Other / Interrupted, before its first byte) at every position of every sequence of <=2 events; [write-refused-inside-the-frame] the transport takes 1..40 bytes of the frame of the last event and then refuses once (the same four kinds; after Interrupted the standard library calls again): Ok only with exactly one whole PDU on the wire, Err only with that prefix; [long-session] 300 and 70 000 events on one client with a server PDU every 97 events; [identifiers] server-assigned user ids x share ids; [entry-point-x-capabilities-x-transport] a probe sequence (incl. the unsendable kind through write and try_write, a repeated pointer move) through write / try_write x 5 server capability lists (Windows, minimal, input capability without the scancode flag, no input capability, unknown sets) x a transport accepting 1..48 bytes per write; every sequence of <=2 events through try_write, and with the no-scancode-flag list on a 3-byte transport; [after-reactivation] every sequence of <=2 events after a deactivate-all and a second activation with another / the same share id (3 base share ids), also with server finalization PDUs that name the previous share or share 0: the PDUs name the share of the last demand-active; and after a re-activation during which a write and a try_write were attempted after every read (refused / ignored, nothing sent then or later). Non-trivial: >= 2 events or non-default identifiers.".into()
    }
    fn assumptions(&self) -> Vec<String> {
        vec![
            "PointerButton::None with down=true has no defined flag combination (PTRFLAGS_DOWN is only meaningful with a button): both 0x0800 and 0x8800 are accepted".into(),
            "key press = flags 0, key release = KBDFLAGS_RELEASE; eventTime is not compared".into(),
        ]
    }
    fn run_case(&mut self, idx: u64) -> Outcome {
        let c = crate::alloc::exempt(|| self.cases[idx as usize].clone());
        let caps = [crate::peer::CapsKind::WindowsCapture, crate::peer::CapsKind::Minimal, crate::peer::CapsKind::InputWithoutScancodes, crate::peer::CapsKind::NoInputCapability, crate::peer::CapsKind::WithUnknown, crate::peer::CapsKind::NoCapabilities][c.caps as usize % 6].clone();
        let p = ServerParams { user_id: c.user_id, share_id: c.share_id, caps, reactivations: if (1..=3).contains(&c.reactivated) || c.reactivated == 5 { 1 } else { 0 }, reuse_share_id: c.reactivated == 2, finalization_share_id: match c.reactivated { 3 => Some(1), 4 => Some(0), _ => None }, ..Default::default() };
        let mut conn = match raw_active(&ClientCfg::default(), p) {
            Ok(c) => c,
            Err(e) => return Outcome::fail("setup", "honest-activation-failed", e),
        };
        let mut c = c;
        if (1..=3).contains(&c.reactivated) {
            // the idle server now sends deactivate-all + demand-active; read them and the finalization
            let cl = conn.client.as_mut().unwrap();
            if let Err(e) = cl.read(|_| {}) {
                return Outcome::fail("setup", "honest-activation-failed", format!("deactivate-all: {:?}", e));
            }
            if let Err(e) = crate::fixture::drive_activation(cl, 16) {
                return Outcome::fail("setup", "honest-activation-failed", format!("re-activation: {}", e));
            }
            if c.reactivated == 1 || c.reactivated == 3 {
                c.share_id = crate::peer::share_id_of_activation(c.share_id, 1);
            }
        }
        if c.reactivated == 5 {
            // the same re-activation with input attempts (write and try_write) after every read of it: none of them is sent —
            // not then (the reference server would see an input PDU inside the finalization) and not later
            let cl = conn.client.as_mut().unwrap();
            let mut n = 0;
            loop {
                if let Err(e) = cl.read(|_| {}) {
                    return Outcome::fail("setup", "honest-activation-failed", format!("re-activation read #{}: {:?}", n, e));
                }
                n += 1;
                if cl.verif_global().verif_state_id() == 5 {
                    break;
                }
                if n >= 16 {
                    return Outcome::fail("setup", "honest-activation-failed", "re-activation: not active after 16 reads".to_string());
                }
                let before = conn.sh.borrow().from_client.len();
                let r1 = cl.write(RdpEvent::Pointer(PointerEvent { x: 900 + n as u16, y: 77, button: button(1), down: true }));
                let r2 = cl.try_write(RdpEvent::Key(KeyboardEvent { code: 0x50 + n as u16, down: true }));
                // (whether the lenient write reports the refusal or swallows it is not this property's matter)
                let _ = r2;
                if r1.is_ok() {
                    return Outcome::fail("mismatch", "input-accepted-during-re-activation", format!("after read #{} of the re-activation (state {}): write returned Ok", n, cl.verif_global().verif_state_id()));
                }
                if conn.sh.borrow().from_client.len() != before {
                    return Outcome::fail("mismatch", "input-sent-during-re-activation", format!("after read #{} of the re-activation {} bytes were written for refused / ignored input events", n, conn.sh.borrow().from_client.len() - before));
                }
            }
            c.share_id = crate::peer::share_id_of_activation(c.share_id, 1);
        }
        if c.write_cap > 0 {
            conn.sh.borrow_mut().write_plan = crate::memlink::WritePlan::Cap(c.write_cap);
        }
        let lenient = c.lenient;
        let client = conn.client.as_mut().unwrap();
        let start_log = conn.peer.borrow().srv.log.len();
        let mut expected: Vec<InputEvent> = crate::alloc::exempt(|| Vec::with_capacity(c.events.len()));
        let mut lenient_down_none = vec![];
        let mut fail_pending = false;
        let mut refused = 0u32;
        let _ = &refused;
        for (i, e) in c.events.iter().enumerate() {
            let before = conn.sh.borrow().from_client.len();
            match e {
                Ev::Ptr { x, y, button: b, down } => {
                    let ev = RdpEvent::Pointer(PointerEvent { x: *x, y: *y, button: button(*b), down: *down });
                    let r = if lenient { client.try_write(ev) } else { client.write(ev) };
                    if let Err(err) = r {
                        if fail_pending {
                            // the transport refused the write before taking a byte: the event is reported as not sent, and must not be
                            fail_pending = false;
                            refused += 1;
                            continue;
                        }
                        return Outcome::fail("mismatch", "pointer-event-refused-while-active", format!("event {}: {:?}", i, err));
                    }
                    fail_pending = false;
                    let base = match b {
                        1 => 0x1000u16,
                        2 => 0x2000,
                        3 => 0x4000,
                        _ => 0x0800,
                    };
                    if *b == 0 && *down {
                        lenient_down_none.push(expected.len());
                    }
                    expected.push(InputEvent::Mouse { time: 0, flags: base | if *down { 0x8000 } else { 0 }, x: *x, y: *y });
                }
                Ev::Key { code, down } => {
                    let ev = RdpEvent::Key(KeyboardEvent { code: *code, down: *down });
                    if let Err(err) = if lenient { client.try_write(ev) } else { client.write(ev) } {
                        if fail_pending {
                            fail_pending = false;
                            refused += 1;
                            continue;
                        }
                        return Outcome::fail("mismatch", "key-event-refused-while-active", format!("event {}: {:?}", i, err));
                    }
                    fail_pending = false;
                    expected.push(InputEvent::Scancode { time: 0, flags: if *down { 0 } else { 0x8000 }, code: *code, pad: 0 });
                }
                Ev::Bitmap | Ev::BitmapLenient => {
                    let ev = RdpEvent::Bitmap(BitmapEvent { dest_left: 0, dest_top: 0, dest_right: 0, dest_bottom: 0, width: 1, height: 1, bpp: 16, is_compress: false, data: vec![0, 0] });
                    let r = if lenient || matches!(e, Ev::BitmapLenient) { client.try_write(ev) } else { client.write(ev) };
                    if r.is_ok() {
                        return Outcome::fail("mismatch", "unsendable-event-accepted", format!("event {}", i));
                    }
                    if conn.sh.borrow().from_client.len() != before {
                        return Outcome::fail("mismatch", "unsendable-event-reached-the-wire", format!("event {}", i));
                    }
                }
                Ev::FailNextWrite(kind) => {
                    let mut sh = conn.sh.borrow_mut();
                    let pos = sh.from_client.len();
                    sh.write_seq_pos = 0;
                    sh.write_plan = crate::memlink::WritePlan::ErrOnceAt { pos, kind: [std::io::ErrorKind::WouldBlock, std::io::ErrorKind::TimedOut, std::io::ErrorKind::Other, std::io::ErrorKind::Interrupted][*kind as usize % 4] };
                    fail_pending = true;
                }
                Ev::FailInsideNextWrite(kind, off) => {
                    let mut sh = conn.sh.borrow_mut();
                    let pos = sh.from_client.len() + off;
                    sh.write_seq_pos = 0;
                    sh.write_plan = crate::memlink::WritePlan::ErrOnceAt { pos, kind: [std::io::ErrorKind::WouldBlock, std::io::ErrorKind::TimedOut, std::io::ErrorKind::Other, std::io::ErrorKind::Interrupted][*kind as usize % 4] };
                    fail_pending = true;
                }
                Ev::Server(k) => {
                    let f = match k {
                        // indications on other channels than the global one: the user channel, another static channel
                        5 => framing::tpkt(&framing::x224_dt(&mcs::send_data_indication(1002, c.user_id, &share::set_error_info(c.share_id, 1002, 0)))),
                        6 => framing::tpkt(&framing::x224_dt(&mcs::send_data_indication(1002, 1004, &[1, 2, 3, 4]))),
                        // a deactivate-all that travels on a channel this client never joined: it is not for the global channel
                        9 => framing::tpkt(&framing::x224_dt(&mcs::send_data_indication(1002, 1005, &share::deactivate_all(c.share_id, 1002)))),
                        // data PDUs whose share id field is not the id of the share (0 / another value): the share id the
                        // client uses comes from the demand-active alone
                        7 => sdi(&share::set_error_info(0, 1002, 0)),
                        8 => sdi(&share::save_session_info(c.share_id ^ 0x0101_0000, 1002)),
                        0 => framing::fastpath(0, &fastpath::updates_payload(&[Update::Bitmap(vec![Rect { left: 0, top: 0, right: 1, bottom: 0, width: 2, height: 1, bpp: 16, flags: 0, data: vec![1, 2, 3, 4] }])]), false),
                        1 => sdi(&share::set_error_info(c.share_id, 1002, 5)),
                        2 => sdi(&share::save_session_info(c.share_id, 1002)),
                        3 => sdi(&share::demand_active(c.share_id, 1002, b"RDP\0", &share::minimal_caps(), 0)),
                        _ => {
                            let caps: Vec<u8> = share::minimal_caps().iter().flat_map(share::cap_bytes).collect();
                            let mut w = vref::bytes::W::new();
                            w.u32le(c.share_id).u16le(0x03EA).u16le(4).u16le((caps.len() + 4) as u16).bytes(b"RDP\0").u16le(share::minimal_caps().len() as u16).u16le(0).bytes(&caps);
                            sdi(&share::share_control(share::PDUTYPE_CONFIRMACTIVE, 1002, &w.0))
                        }
                    };
                    conn.sh.borrow_mut().push_to_client(&f);
                    if let Err(err) = client.read(|_| {}) {
                        // traffic on a channel the client does not serve may be reported as an error; the session goes on
                        if *k < 5 {
                            return Outcome::fail("mismatch", "server-traffic-rejected", format!("{:?}", err));
                        }
                    }
                    if conn.sh.borrow().from_client.len() != before {
                        return Outcome::fail("mismatch", "client-wrote-on-server-traffic", "bytes written while processing a server PDU in the Data state".to_string());
                    }
                }
            }
        }
        // decode what the peer received
        let log: Vec<Vec<u8>> = crate::alloc::exempt(|| conn.peer.borrow().srv.log[start_log..].iter().map(|m| m.raw.clone()).collect());
        let mut got: Vec<InputEvent> = crate::alloc::exempt(|| Vec::with_capacity(c.events.len() + 16));
        for raw in &log {
            let r = (|| -> Result<Vec<InputEvent>, String> {
                let dt = framing::parse_x224_dt(raw)?;
                match mcs::parse_client_domain_pdu(dt)? {
                    mcs::DomainPdu::SendDataRequest { initiator, channel, data, .. } => {
                        if initiator != c.user_id {
                            return Err(format!("initiator {} != assigned user id {}", initiator, c.user_id));
                        }
                        if channel != 1003 {
                            return Err(format!("channel {}", channel));
                        }
                        let sc = share::parse_share_control(&data)?;
                        if sc.pdu_source != c.user_id {
                            return Err(format!("PDUSource {} != user id {}", sc.pdu_source, c.user_id));
                        }
                        let sd = share::parse_share_data(&sc.body)?;
                        if sd.share_id != c.share_id {
                            return Err(format!("share id {:#x} != {:#x}", sd.share_id, c.share_id));
                        }
                        match share::parse_client_data(&sd)? {
                            share::ClientData::Input(ev) => {
                                if ev.len() != 1 {
                                    return Err(format!("{} events in one input PDU", ev.len()));
                                }
                                Ok(ev)
                            }
                            o => Err(format!("not an input PDU: {:?}", o)),
                        }
                    }
                    o => Err(format!("not a send-data request: {:?}", o)),
                }
            })();
            match r {
                Ok(ev) => got.extend(ev),
                Err(e) => return Outcome::fail("mismatch", format!("input-pdu-malformed: {}", e.split(|ch: char| ch.is_ascii_digit()).next().unwrap_or("").trim()), e),
            }
        }
        if got.len() != expected.len() {
            return Outcome::fail("mismatch", "wrong-number-of-input-pdus", format!("{} input PDUs on the wire for {} submitted events", got.len(), expected.len()));
        }
        for (i, (g, w)) in got.iter().zip(expected.iter()).enumerate() {
            let same = match (g, w) {
                (InputEvent::Mouse { flags: gf, x: gx, y: gy, .. }, InputEvent::Mouse { flags: wf, x: wx, y: wy, .. }) => gx == wx && gy == wy && (gf == wf || (lenient_down_none.contains(&i) && *gf == 0x0800)),
                (InputEvent::Scancode { flags: gf, code: gc, pad: gp, .. }, InputEvent::Scancode { flags: wf, code: wc, .. }) => gf == wf && gc == wc && *gp == 0,
                _ => false,
            };
            if !same {
                let sig = match w {
                    InputEvent::Mouse { .. } => "pointer-event-altered",
                    _ => "key-event-altered",
                };
                return Outcome::fail("mismatch", sig, format!("event #{} of the sequence: wire {:?}, submitted {:?}", i, g, w));
            }
        }
        Outcome::pass(c.block, c.events.len() >= 2 || c.block == "identifiers")
    }
}
