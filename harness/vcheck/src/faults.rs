//! Enumerable fault space over an honest server conversation (the "deviations" of DESIGN §2.3):
//! for every message: every byte offset x value set, every offset as a 16/32-bit field (both byte
//! orders) x boundary set, every truncation length, extensions — addressed by a plain index so that
//! workers never materialise the list.

use crate::peer::{DevKind, Deviation};
use crate::runner::Tier;

pub const B16: [u16; 17] = [0, 1, 2, 3, 4, 5, 6, 7, 8, 0x7F, 0x80, 0xFF, 0x100, 0x7FFF, 0x8000, 0xFFFE, 0xFFFF];
pub const B32: [u32; 21] = [0, 1, 2, 3, 4, 5, 6, 7, 8, 0x7F, 0x80, 0xFF, 0x100, 0x7FFF, 0x8000, 0xFFFE, 0xFFFF, 0x10000, 0x7FFF_FFFF, 0x8000_0000, 0xFFFF_FFFF];
/// boundary values plus the PDU-type dictionary of the protocol (pduType, pduType2, fast-path codes)
pub const BYTE_QUICK: [u8; 20] = [0, 1, 2, 3, 4, 5, 0x10, 0x11, 0x13, 0x14, 0x16, 0x17, 0x1F, 0x28, 0x2F, 0x7F, 0x80, 0xC0, 0xFE, 0xFF];

#[derive(Clone, Debug)]
pub struct Msg {
    pub name: String,
    pub honest: Vec<u8>,
}

pub struct FaultSpace {
    pub msgs: Vec<Msg>,
    pub tier: Tier,
    /// cumulative counts per message
    offsets: Vec<u64>,
}

fn extensions() -> Vec<Vec<u8>> {
    vec![vec![0x00], vec![0xFF, 0xFF], vec![0x41; 1500]]
}

impl FaultSpace {
    pub fn new(msgs: Vec<Msg>, tier: Tier) -> FaultSpace {
        let mut fs = FaultSpace { msgs, tier, offsets: vec![] };
        let mut acc = 0;
        for i in 0..fs.msgs.len() {
            fs.offsets.push(acc);
            acc += fs.count_for(i);
        }
        fs.offsets.push(acc);
        fs
    }

    fn nbyte(&self) -> u64 {
        match self.tier {
            Tier::Quick => BYTE_QUICK.len() as u64 + 2,
            Tier::Thorough => 256,
        }
    }

    /// number of single deviations for message i
    pub fn count_for(&self, i: usize) -> u64 {
        let l = self.msgs[i].honest.len() as u64;
        let sb = l * self.nbyte();
        let s16 = l.saturating_sub(1) * (B16.len() as u64 + 2) * 2;
        let s32 = l.saturating_sub(3) * (B32.len() as u64 + 2) * 2;
        let tr = l;
        let ex = extensions().len() as u64;
        sb + s16 + s32 + tr + ex
    }

    pub fn total(&self) -> u64 {
        *self.offsets.last().unwrap()
    }

    /// the idx-th single deviation; None if it would not change the message
    pub fn get(&self, idx: u64) -> (usize, Deviation) {
        let mi = match self.offsets.binary_search(&idx) {
            Ok(i) => {
                // idx is exactly the start of message i (skip empty ranges)
                let mut i = i;
                while self.offsets[i + 1] == self.offsets[i] {
                    i += 1;
                }
                i
            }
            Err(i) => i - 1,
        };
        let mut k = idx - self.offsets[mi];
        let m = &self.msgs[mi];
        let l = m.honest.len() as u64;
        let nb = self.nbyte();
        let kind = if k < l * nb {
            let off = (k / nb) as usize;
            let vi = (k % nb) as usize;
            let val = match self.tier {
                Tier::Thorough => vi as u8,
                Tier::Quick => {
                    if vi < BYTE_QUICK.len() {
                        BYTE_QUICK[vi]
                    } else if vi == BYTE_QUICK.len() {
                        m.honest[off].wrapping_add(1)
                    } else {
                        m.honest[off].wrapping_sub(1)
                    }
                }
            };
            DevKind::SetByte { off, val }
        } else {
            k -= l * nb;
            let n16 = (B16.len() as u64 + 2) * 2;
            let c16 = l.saturating_sub(1) * n16;
            if k < c16 {
                let off = (k / n16) as usize;
                let r = (k % n16) as usize;
                let be = r % 2 == 1;
                let vi = r / 2;
                let cur = if be { u16::from_be_bytes([m.honest[off], m.honest[off + 1]]) } else { u16::from_le_bytes([m.honest[off], m.honest[off + 1]]) };
                let val = if vi < B16.len() {
                    B16[vi]
                } else if vi == B16.len() {
                    cur.wrapping_add(1)
                } else {
                    cur.wrapping_sub(1)
                };
                DevKind::SetU16 { off, val, be }
            } else {
                k -= c16;
                let n32 = (B32.len() as u64 + 2) * 2;
                let c32 = l.saturating_sub(3) * n32;
                if k < c32 {
                    let off = (k / n32) as usize;
                    let r = (k % n32) as usize;
                    let be = r % 2 == 1;
                    let vi = r / 2;
                    let b = [m.honest[off], m.honest[off + 1], m.honest[off + 2], m.honest[off + 3]];
                    let cur = if be { u32::from_be_bytes(b) } else { u32::from_le_bytes(b) };
                    let val = if vi < B32.len() {
                        B32[vi]
                    } else if vi == B32.len() {
                        cur.wrapping_add(1)
                    } else {
                        cur.wrapping_sub(1)
                    };
                    DevKind::SetU32 { off, val, be }
                } else {
                    k -= c32;
                    if k < l {
                        DevKind::Truncate(k as usize)
                    } else {
                        DevKind::Extend(extensions()[(k - l) as usize].clone())
                    }
                }
            }
        };
        (mi, Deviation { msg: m.name.clone(), kind })
    }

    /// reduced single-deviation set used for pairs: per message, every offset x {0x00, 0xFF}, every truncation
    pub fn reduced_count(&self) -> u64 {
        self.msgs.iter().map(|m| m.honest.len() as u64 * 3).sum()
    }

    pub fn reduced_get(&self, mut k: u64) -> Deviation {
        for m in &self.msgs {
            let c = m.honest.len() as u64 * 3;
            if k < c {
                let off = (k / 3) as usize;
                let kind = match k % 3 {
                    0 => DevKind::SetByte { off, val: 0x00 },
                    1 => DevKind::SetByte { off, val: 0xFF },
                    _ => DevKind::Truncate(off),
                };
                return Deviation { msg: m.name.clone(), kind };
            }
            k -= c;
        }
        unreachable!()
    }
}

/// index -> byte string: all strings of length 0, 1, 2 (and 3) in order
pub fn short_string(i: u64) -> Vec<u8> {
    if i == 0 {
        vec![]
    } else if i < 257 {
        vec![(i - 1) as u8]
    } else if i < 257 + 65536 {
        let v = i - 257;
        vec![(v >> 8) as u8, v as u8]
    } else {
        let v = i - 257 - 65536;
        vec![(v >> 16) as u8, (v >> 8) as u8, v as u8]
    }
}

pub fn short_string_count(max_len: usize) -> u64 {
    match max_len {
        0 => 1,
        1 => 257,
        2 => 257 + 65536,
        _ => 257 + 65536 + (1 << 24),
    }
}

/// a set of byte strings: every string of length <= `short`, plus every string of length 3..=`alpha` over the
/// 8-letter boundary alphabet
#[derive(Clone, Copy, Debug)]
pub struct Strs {
    pub short: usize,
    pub alpha: u32,
}

impl Strs {
    pub fn count(&self) -> u64 {
        short_string_count(self.short) + alphabet_string_count(self.alpha)
    }
    pub fn get(&self, i: u64) -> Vec<u8> {
        let n = short_string_count(self.short);
        if i < n {
            short_string(i)
        } else {
            alphabet_string(i - n)
        }
    }
    /// quick: <=2 bytes + alphabet <=5; thorough heavy: <=3 bytes + alphabet <=6; thorough light: <=2 bytes + alphabet <=6
    pub fn for_tier(tier: Tier, heavy: bool) -> Strs {
        match (tier, heavy) {
            (Tier::Quick, _) => Strs { short: 2, alpha: 5 },
            (Tier::Thorough, true) => Strs { short: 3, alpha: 6 },
            (Tier::Thorough, false) => Strs { short: 2, alpha: 6 },
        }
    }
}

pub const SMALL_ALPHABET: [u8; 8] = [0x00, 0x01, 0x02, 0x03, 0x04, 0x7F, 0x80, 0xFF];

/// all strings of length 3..=6 over the 8-letter alphabet (shorter ones are covered by `short_string`)
pub fn alphabet_string(mut i: u64) -> Vec<u8> {
    let mut len = 3;
    loop {
        let c = 8u64.pow(len);
        if i < c {
            break;
        }
        i -= c;
        len += 1;
    }
    let mut v = vec![0u8; len as usize];
    for k in (0..len as usize).rev() {
        v[k] = SMALL_ALPHABET[(i % 8) as usize];
        i /= 8;
    }
    v
}

pub fn alphabet_string_count(max_len: u32) -> u64 {
    (3..=max_len).map(|l| 8u64.pow(l)).sum()
}
