#!/opt/veriftools/pyvenv/bin/python
import json, jsonschema, sys, glob
jsonschema.validate(json.load(open('/verif/MANIFEST.json')), json.load(open('/root/.vp/MANIFEST.schema.json')))
sch = json.load(open('/root/.vp/EVIDENCE.schema.json'))
m = json.load(open('/verif/MANIFEST.json'))
for c in m['checks']:
    try:
        jsonschema.validate(json.load(open(c['evidence_file'])), sch)
    except Exception as e:
        print("EVIDENCE INVALID", c['property_id'], str(e)[:300]); sys.exit(1)
print('manifest + evidence valid:', [c['property_id'] for c in m['checks']])
