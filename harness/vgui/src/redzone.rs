//! Red-zone allocator: every heap block is surrounded by 64-byte canary zones that are verified
//! when the block is freed (and on demand). The real size/alignment are kept in the block header, so a
//! block freed under a different layout (mstsc-rs frees a Vec<u8> allocation as Vec<u32>) is handled.

use std::alloc::{GlobalAlloc, Layout, System};
use std::sync::atomic::{AtomicPtr, AtomicU64, AtomicU8, Ordering::Relaxed};

pub struct RedZone;

const ZONE: usize = 64;
const CANARY: u8 = 0xCA;
const MAGIC: u64 = 0x5EED_C0DE_FACE_B00C;

/// when non-zero, every fresh (not zeroed) block is filled with this byte: what a program reads from memory it never
/// wrote is then chosen by the harness instead of being whatever the heap held
pub static POISON: AtomicU8 = AtomicU8::new(0);
/// number of corrupted canary zones detected so far
pub static CORRUPTIONS: AtomicU64 = AtomicU64::new(0);
/// journal slot (mmap) where a corruption is recorded before the process exits
pub static SLOT: AtomicPtr<u64> = AtomicPtr::new(std::ptr::null_mut());

unsafe fn fill(base: *mut u8, size: usize, align: usize) {
    // header: [magic u64][size u64][align u64][canary ... up to ZONE]
    (base as *mut u64).write_unaligned(MAGIC);
    (base as *mut u64).add(1).write_unaligned(size as u64);
    (base as *mut u64).add(2).write_unaligned(align as u64);
    for i in 24..ZONE {
        *base.add(i) = CANARY;
    }
    for i in 0..ZONE {
        *base.add(ZONE + size + i) = CANARY;
    }
}

/// verify the zones around a user pointer; returns false if damaged
pub unsafe fn check(user: *const u8) -> bool {
    let base = user.sub(ZONE);
    if (base as *const u64).read_unaligned() != MAGIC {
        return false;
    }
    let size = (base as *const u64).add(1).read_unaligned() as usize;
    for i in 24..ZONE {
        if *base.add(i) != CANARY {
            return false;
        }
    }
    for i in 0..ZONE {
        if *base.add(ZONE + size + i) != CANARY {
            return false;
        }
    }
    true
}

unsafe impl GlobalAlloc for RedZone {
    unsafe fn alloc(&self, l: Layout) -> *mut u8 {
        let align = l.align().max(16);
        debug_assert!(align <= ZONE);
        let total = l.size() + 2 * ZONE;
        let base = System.alloc(Layout::from_size_align_unchecked(total, align.max(ZONE)));
        if base.is_null() {
            return base;
        }
        fill(base, l.size(), align.max(ZONE));
        let p = POISON.load(Relaxed);
        if p != 0 {
            std::ptr::write_bytes(base.add(ZONE), p, l.size());
        }
        base.add(ZONE)
    }
    unsafe fn dealloc(&self, p: *mut u8, _l: Layout) {
        let base = p.sub(ZONE);
        if !check(p) {
            CORRUPTIONS.fetch_add(1, Relaxed);
            let s = SLOT.load(Relaxed);
            if !s.is_null() {
                std::ptr::write_volatile(s, 0xBAD_CA7A);
            }
            // do not hand a damaged block back to the system allocator
            return;
        }
        let size = (base as *const u64).add(1).read_unaligned() as usize;
        let align = (base as *const u64).add(2).read_unaligned() as usize;
        System.dealloc(base, Layout::from_size_align_unchecked(size + 2 * ZONE, align));
    }
    unsafe fn realloc(&self, p: *mut u8, l: Layout, new: usize) -> *mut u8 {
        let n = self.alloc(Layout::from_size_align_unchecked(new, l.align()));
        if !n.is_null() {
            let base = p.sub(ZONE);
            let old = (base as *const u64).add(1).read_unaligned() as usize;
            std::ptr::copy_nonoverlapping(p, n, old.min(new));
            self.dealloc(p, l);
        }
        n
    }
}
