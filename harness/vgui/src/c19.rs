//! C19 — painting a bitmap into the window buffer is memory-safe and exact.
//! Drives the real, unmodified `fast_bitmap_transfer` of mstsc-rs (derived module, DESIGN §2.6)
//! under the red-zone allocator, exhaustively over small geometries.

use crate::mstsc_plain::verif_export::blit;
use crate::redzone;
use rdp::core::event::BitmapEvent;
use serde_json::{json, Value};
use std::sync::atomic::Ordering::Relaxed;
use vcheck::runner::{Outcome, Prop, Tier};
use vref::rle::{self, Form, Kind, Order};

pub struct C19 {
    coords: Vec<u16>,
    dims: Vec<(usize, usize)>,
    tier: Tier,
}

impl C19 {
    pub fn new() -> C19 {
        C19 { coords: vec![], dims: vec![], tier: Tier::Quick }
    }
}

const BPPS: [u16; 3] = [16, 32, 15];
const DATA_KINDS: [&str; 13] = ["raw-exact", "raw-short", "raw-long", "rle-valid", "garbage", "rle-truncated", "raw-rows-without-padding", "rle-run-overruns-a-later-line", "rle-run-overruns-the-first-line", "rle-extreme-values", "rle-ends-after-the-first-scan-line", "rle-runs-in-the-extended-form", "rle-fill-after-fill"];

/// the data kinds of the small product (the last kind only makes sense for wide images: big cases)
const SMALL_KINDS: u64 = 11;

#[derive(Debug)]
struct Case {
    win_w: usize,
    win_h: usize,
    l: u16,
    t: u16,
    r: u16,
    b: u16,
    img_w: u16,
    img_h: u16,
    bpp: u16,
    kind: usize,
}

fn image16(w: usize, h: usize) -> Vec<u16> {
    (0..w * h).map(|i| (i as u16).wrapping_mul(0x0821).wrapping_add(0x1234)).collect()
}

fn image32(w: usize, h: usize) -> Vec<u8> {
    (0..w * h * 4).map(|i| if i % 4 == 3 { 0xFF } else { (i * 7 + 3) as u8 }).collect()
}

/// images of 2^15 .. 2^17 pixels (products that overflow 16 bits, one side up to 65535) painted whole into a large
/// window, at an offset, and clipped by a small one
fn big_cases() -> Vec<Case> {
    let mut v = vec![];
    for (iw, ih) in [(256u16, 256u16), (255, 257), (300, 250), (512, 128), (181, 362), (65535, 1), (1, 65535), (32768, 2), (2, 32768), (128, 256), (64, 64)] {
        for bpp in [16u16, 32] {
            for kind in [0usize, 1, 3, 5, 6] {
                for (win_w, win_h, l, t) in [(4usize, 4usize, 0u16, 0u16), (300, 260, 0, 0), (301, 261, 1, 1), (520, 2, 3, 0)] {
                    let r = l + (iw.min((win_w as u16) - l) - 1);
                    let b = t + (ih.min((win_h as u16) - t) - 1);
                    v.push(Case { win_w, win_h, l, t, r, b, img_w: iw, img_h: ih, bpp, kind });
                }
            }
        }
    }
    // one colour / background / foreground run per scan line spelled in the extended (one extension byte) form: run lengths
    // 32..287 for the regular orders, 16..271 for the lite ones — every boundary width, painted whole
    for iw in [32u16, 33, 255, 256, 257, 270, 271, 272, 286, 287] {
        for win in [(300usize, 260usize), (4, 4)] {
            v.push(Case { win_w: win.0, win_h: win.1, l: 0, t: 0, r: iw - 1, b: 5, img_w: iw, img_h: 6, bpp: 16, kind: 11 });
        }
    }
    // background / foreground fills that end exactly with their scan line and are followed by another fill (the second one
    // starts with a mix pixel), whole and in two halves per line
    for iw in [2u16, 3, 4, 5, 8, 31, 32, 33, 64] {
        for win in [(70usize, 8usize), (3, 3)] {
            v.push(Case { win_w: win.0, win_h: win.1, l: 0, t: 0, r: iw - 1, b: 5, img_w: iw, img_h: 6, bpp: 16, kind: 12 });
        }
    }
    v
}

impl C19 {
    fn n_small(&self) -> u64 {
        let nc = self.coords.len() as u64;
        self.dims.len() as u64 * nc * nc * nc * nc * 36 * 3 * SMALL_KINDS
    }
    fn case(&self, mut i: u64) -> Case {
        if i >= self.n_small() {
            return big_cases().swap_remove((i - self.n_small()) as usize);
        }
        let nc = self.coords.len() as u64;
        let kind = (i % SMALL_KINDS) as usize;
        i /= SMALL_KINDS;
        let bpp = BPPS[(i % 3) as usize];
        i /= 3;
        let img_h = (i % 6) as u16;
        i /= 6;
        let img_w = (i % 6) as u16;
        i /= 6;
        let b = self.coords[(i % nc) as usize];
        i /= nc;
        let r = self.coords[(i % nc) as usize];
        i /= nc;
        let t = self.coords[(i % nc) as usize];
        i /= nc;
        let l = self.coords[(i % nc) as usize];
        i /= nc;
        let (win_w, win_h) = self.dims[i as usize];
        Case { win_w, win_h, l, t, r, b, img_w, img_h, bpp, kind }
    }
}

/// (wire data, is_compress, decoded image as u32 pixels if known)
fn make_data(c: &Case) -> (Vec<u8>, bool, Option<Vec<u32>>) {
    let (w, h) = (c.img_w as usize, c.img_h as usize);
    let to_px = |bgra: &[u8]| -> Vec<u32> { bgra.chunks(4).map(|p| u32::from_le_bytes([p[0], p[1], p[2], p[3]])).collect() };
    match c.bpp {
        16 => {
            let img = image16(w, h);
            let px = to_px(&rle::image16_to_bgra(&img));
            let raw = rle::raw16(&img, w, h);
            match c.kind {
                0 => (raw, false, Some(px)),
                1 => {
                    let mut r = raw;
                    if r.is_empty() {
                        return (r, false, Some(px));
                    }
                    r.pop();
                    (r, false, None)
                }
                2 => {
                    let mut r = raw;
                    r.extend_from_slice(&[0xEE; 4]);
                    (r, false, Some(px))
                }
                3 | 5 => {
                    if w * h == 0 {
                        return (vec![], true, Some(px));
                    }
                    // bottom-up colour image order
                    let mut pixels = vec![];
                    for row in (0..h).rev() {
                        pixels.extend_from_slice(&img[row * w..(row + 1) * w]);
                    }
                    // one order for the whole image while its run fits 16 bits, else one order per scan line
                    let orders: Vec<Order> = if w * h <= 65535 {
                        vec![Order { kind: Kind::ColorImage, form: Form::MegaMega, run: (w * h) as u32, fg: 0, a: 0, b: 0, masks: vec![], pixels }]
                    } else {
                        pixels.chunks(w).map(|row| Order { kind: Kind::ColorImage, form: Form::MegaMega, run: w as u32, fg: 0, a: 0, b: 0, masks: vec![], pixels: row.to_vec() }).collect()
                    };
                    let mut d = rle::emit_all(&orders);
                    if c.kind == 5 {
                        d.pop();
                        return (d, true, None);
                    }
                    (d, true, Some(px))
                }
                6 => {
                    // rows sent without the 4-byte padding: w*h*2 bytes (shorter than the padded size for odd widths)
                    let mut r = vec![];
                    for row in (0..h).rev() {
                        for p in &img[row * w..(row + 1) * w] {
                            r.extend_from_slice(&p.to_le_bytes());
                        }
                    }
                    let same = r.len() == raw.len();
                    (r, false, if same { Some(px) } else { None })
                }
                // line 0 (bottom): a colour run; then fills: a background run of the whole line, another one (fill after fill: a mix
                // pixel first), a foreground run, two half-line background runs, a background run again
                12 => {
                    if w * h == 0 {
                        return (vec![], true, Some(px));
                    }
                    let run = w as u32;
                    let form = |r: u32| if r < 32 { Form::Short } else { Form::MegaMega };
                    let mut orders = vec![Order { kind: Kind::ColorRun, form: form(run), run, fg: 0, a: 0x1234, b: 0, masks: vec![], pixels: vec![] }];
                    for line in 1..h {
                        match line % 5 {
                            1 | 2 | 0 => orders.push(Order::simple(Kind::BgRun, form(run), run)),
                            3 => orders.push(Order::simple(Kind::FgRun, form(run), run)),
                            _ => {
                                let a = run / 2;
                                if a > 0 {
                                    orders.push(Order::simple(Kind::BgRun, form(a), a));
                                }
                                orders.push(Order::simple(Kind::BgRun, form(run - a), run - a));
                            }
                        }
                    }
                    if orders.iter().any(|o| !rle::spellable(&o.kind, &o.form, o.run)) {
                        return (vec![0xFE], true, None);
                    }
                    let d = rle::emit_all(&orders);
                    match rle::decode16(&d, w, h) {
                        rle::Decoded::Image(i) => (d, true, Some(to_px(&rle::image16_to_bgra(&i)))),
                        _ => (d, true, None),
                    }
                }
                // six scan lines, each ONE order in the extended form: colour run, background run, (set-)foreground run, dithered
                // run, colour run, background run; the expected image comes from the reference decoder
                11 => {
                    if w * h == 0 {
                        return (vec![], true, Some(px));
                    }
                    let run = w as u32;
                    let mut orders = vec![];
                    for line in 0..h {
                        let o = match line % 6 {
                            0 | 4 => Order { kind: Kind::ColorRun, form: Form::Extended, run, fg: 0, a: 0x1234u16.wrapping_mul(line as u16 + 1), b: 0, masks: vec![], pixels: vec![] },
                            1 | 5 => Order::simple(Kind::BgRun, Form::Extended, run),
                            2 => Order { kind: Kind::SetFgRun, form: Form::Extended, run, fg: 0x0F0F, a: 0, b: 0, masks: vec![], pixels: vec![] },
                            _ => Order { kind: Kind::DitheredRun, form: Form::Extended, run: run / 2, fg: 0, a: 0x00FF, b: 0xFF00, masks: vec![], pixels: vec![] },
                        };
                        if !rle::spellable(&o.kind, &o.form, o.run) || (o.kind == Kind::DitheredRun && w % 2 == 1) {
                            orders.push(Order { kind: Kind::ColorRun, form: Form::MegaMega, run, fg: 0, a: 0x4321, b: 0, masks: vec![], pixels: vec![] });
                        } else {
                            orders.push(o);
                        }
                    }
                    let d = rle::emit_all(&orders);
                    match rle::decode16(&d, w, h) {
                        rle::Decoded::Image(i) => (d, true, Some(to_px(&rle::image16_to_bgra(&i)))),
                        _ => (d, true, None),
                    }
                }
                // a background run of 31 pixels after one row of colour pixels / at the very start: longer than the image
                7 => {
                    let mut d = vec![];
                    if w > 0 {
                        d.push(0x80 | (w.min(31) as u8));
                        for _ in 0..w.min(31) {
                            d.extend_from_slice(&[0x34, 0x12]);
                        }
                    }
                    d.push(0x1F);
                    (d, true, None)
                }
                8 => (vec![0x1F, 0x1F], true, None),
                // a stream that simply ends after one colour run covering the bottom scan line (the decoder stops without an
                // error: what the rest of the image holds is whatever the decoder's scratch memory held)
                10 => {
                    let mut d = vec![];
                    if w > 0 {
                        d.push(0x60 | (w.min(31) as u8));
                        d.extend_from_slice(&[0x1F, 0x00]);
                    }
                    (d, true, None)
                }
                // mega-mega orders with the extreme run lengths 0 and 0xFFFF and colour 0xFFFF
                9 => (vec![0xF3, 0xFF, 0xFF, 0xFF, 0xFF, 0xF0, 0x00, 0x00, 0xF8, 0xFF, 0xFF, 0xFF, 0xFF, 0x00, 0x00], true, None),
                _ => (vec![0xFF, 0x00, 0x13, 0xA5, 0xF0], true, None),
            }
        }
        32 => {
            let bgra = image32(w, h);
            let px = to_px(&bgra);
            let raw = rle::raw32(&bgra, w, h);
            match c.kind {
                0 => (raw, false, Some(px)),
                1 => {
                    let mut r = raw;
                    if r.is_empty() {
                        return (r, false, Some(px));
                    }
                    r.pop();
                    (r, false, None)
                }
                2 => {
                    let mut r = raw;
                    r.extend_from_slice(&[0xEE; 4]);
                    (r, false, Some(px))
                }
                3 | 5 => {
                    let mut d = rle::planar_encode_with(&bgra, w, h, |_, _, line| rle::strategy_segs(line, 0));
                    if c.kind == 5 {
                        if d.len() > 1 {
                            d.pop();
                            return (d, true, None);
                        }
                        return (d, true, if w * h == 0 { Some(px) } else { None });
                    }
                    (d, true, Some(px))
                }
                6 => {
                    // half of the rows only
                    let r = raw[..raw.len() / 2].to_vec();
                    let same = r.len() == raw.len();
                    (r, false, if same { Some(px) } else { None })
                }
                // planar: every plane = one raw first line, then a long-run control byte (run of 16) on the second line
                7 => {
                    let mut d = vec![0x10u8];
                    for _ in 0..4 {
                        if w > 0 {
                            d.push((w.min(15) as u8) << 4);
                            d.extend(std::iter::repeat(0x44).take(w.min(15)));
                        }
                        d.push(0x01);
                        d.extend(std::iter::repeat(0x04).take(h.saturating_sub(2)));
                    }
                    (d, true, None)
                }
                // planar: a long-run control byte (run of 32) opens the first line of every plane
                8 => (vec![0x10, 0x02, 0x02, 0x02, 0x02, 0x02, 0x02, 0x02, 0x02], true, None),
                // planar: every plane = a raw first line of 200s, then raw lines whose deltas are all 0xFF (-128), the
                // extreme of the delta encoding
                9 => {
                    let mut d = vec![0x10u8];
                    for _ in 0..4 {
                        for line in 0..h {
                            if w > 0 {
                                d.push((w.min(15) as u8) << 4);
                                d.extend(std::iter::repeat(if line == 0 { 200u8 } else { 0xFF }).take(w.min(15)));
                            }
                        }
                    }
                    (d, true, None)
                }
                // (the planar decoder fails on a stream that ends early: same bytes as the garbage kind)
                _ => (vec![0x10, 0xFF, 0x00, 0x13], true, None),
            }
        }
        _ => (vec![0; w * h * 2], c.kind >= 3 && c.kind != 6, None),
    }
}

impl Prop for C19 {
    fn id(&self) -> &'static str {
        "C19"
    }
    fn level(&self) -> &'static str {
        "exploration"
    }
    fn prepare(&mut self, tier: Tier) -> Result<(), String> {
        self.tier = tier;
        // the first paint of every worker process goes into a large window: whatever the code remembers from its first
        // call (a size, a stride, a buffer) then differs from what the small windows of the enumeration need
        {
            let mut big: Vec<u32> = vec![0x5E5E_5E5E; 300 * 260];
            let img = image16(64, 64);
            let _ = blit(&mut big, 300, BitmapEvent { dest_left: 10, dest_top: 10, dest_right: 73, dest_bottom: 73, width: 64, height: 64, bpp: 16, is_compress: false, data: rle::raw16(&img, 64, 64) });
            let bgra = image32(64, 64);
            let _ = blit(&mut big, 300, BitmapEvent { dest_left: 0, dest_top: 0, dest_right: 63, dest_bottom: 63, width: 64, height: 64, bpp: 32, is_compress: true, data: rle::planar_encode_with(&bgra, 64, 64, |_, _, line| rle::strategy_segs(line, 0)) });
        }
        self.coords = if tier == Tier::Quick { vec![0, 1, 2, 3, 4, 5, 65535] } else { vec![0, 1, 2, 3, 4, 5, 6, 32768, 65535] };
        self.dims = vec![];
        let m = if tier == Tier::Quick { 3 } else { 4 };
        for w in 1..=m {
            for h in 1..=m {
                self.dims.push((w, h));
            }
        }
        Ok(())
    }
    fn n_cases(&self) -> u64 {
        self.n_small() + big_cases().len() as u64
    }
    fn describe(&self, idx: u64) -> Value {
        let c = self.case(idx);
        json!({"idx": idx, "window": [c.win_w, c.win_h], "rect": {"left": c.l, "top": c.t, "right": c.r, "bottom": c.b}, "image": [c.img_w, c.img_h], "bpp": c.bpp, "data": DATA_KINDS[c.kind]})
    }
    fn rule(&self) -> String {
        "cases = (window WxH in 1..3 squared (1..4 in thorough), rectangle left/top/right/bottom each in {0..5, 65535} ({0..6, 32768, 65535} in thorough) (inside, outside, inverted), image width/height each in 0..5, depth in {16,32,15}, data in {raw exact, raw one byte short, raw 4 bytes long, valid RLE, garbage, RLE truncated, raw rows without their 4-byte padding (16 bpp) / half the rows (32 bpp), compressed streams whose run overruns the first / a later scan line, streams made of the extreme values of the encodings (planar deltas of -128 on every later line, mega-mega runs of 0 and 65535 pixels), an interleaved stream that ends after its first scan line}) — the full product; plus images of 2^14..2^17 pixels (256x256, 255x257, 300x250, 512x128, 181x362, 65535x1, 1x65535, 32768x2, 2x32768, 128x256, 64x64) at 16 and 32 bpp as raw exact / raw short / valid RLE / truncated RLE / unpadded rows, painted whole into a 300x260 window, at offset (1,1), clipped by a 4x4 and by a 520x2 window; plus 16 bpp images 32..287 pixels wide whose six scan lines are one extended-form order each (colour, background, set-foreground, dithered runs of the boundary lengths 32, 33, 255..257, 270..272, 286, 287), and 16 bpp images 2..64 pixels wide whose scan lines are background / foreground fills ending exactly with the line and followed by another fill. Executed on the unmodified fast_bitmap_transfer under a red-zone allocator; every worker process first paints two 64x64 images into a 300x260 window, so that anything remembered from a first call differs from what the enumeration needs. Oracle: no panic; canary zones of every heap block intact; when the call succeeds for a rectangle inside the window with a known image, the buffer equals the reference blit (rows top..bottom, columns left..right from image rows 0.., columns 0..) and every other cell keeps its sentinel; when the call fails the buffer may hold a prefix of the rows but never a foreign value; for data whose decoded image the harness does not know (garbage, truncated or overrunning streams) the paint is repeated with fresh heap blocks pre-filled with 0xA5 and with 0x3C, each time right after a one-colour image of the same size in another colour: both windows and results must be equal (the window never shows memory the decoder did not write), and equal again when two other images were painted in the same thread just before (nothing of an earlier image shows). Non-trivial: the call reached the copy loop (decompression succeeded).".into()
    }
    fn assumptions(&self) -> Vec<String> {
        vec![
            "out-of-bounds writes are detected through 64-byte canary zones around every Rust heap block (checked when the block is freed and for the window buffer after every call); out-of-bounds reads show up as canary/foreign values in the window buffer".into(),
            "transmute_vec frees a Vec<u8> allocation as Vec<u32> (layout mismatch); the statement does not cover it and the allocator tolerates it".into(),
        ]
    }
    fn mem_rule(&self, _p: usize, _m: usize, _b: u64) -> Option<String> {
        None
    }
    fn run_case(&mut self, idx: u64) -> Outcome {
        let c = self.case(idx);
        let (data, compress, image) = make_data(&c);
        const SENT: u32 = 0x5E5E_5E5E;
        let mut buffer: Vec<u32> = vec![SENT; c.win_w * c.win_h];
        let before_corrupt = redzone::CORRUPTIONS.load(Relaxed);
        let ev = BitmapEvent { dest_left: c.l, dest_top: c.t, dest_right: c.r, dest_bottom: c.b, width: c.img_w, height: c.img_h, bpp: c.bpp, is_compress: compress, data };
        let res = blit(&mut buffer, c.win_w, ev);
        // canaries of the window buffer, and of everything freed during the call
        let ok_zone = unsafe { redzone::check(buffer.as_ptr() as *const u8) };
        if !ok_zone || redzone::CORRUPTIONS.load(Relaxed) != before_corrupt {
            return Outcome::fail("memory", "write-outside-the-buffers", format!("canary zone damaged: {:?}", c));
        }
        if buffer.len() != c.win_w * c.win_h {
            return Outcome::fail("memory", "window-buffer-resized", format!("{:?}", c));
        }
        let inside = c.l <= c.r && c.t <= c.b && (c.r as usize) < c.win_w && (c.b as usize) < c.win_h;
        let rows = if c.t <= c.b { (c.b - c.t) as usize + 1 } else { 0 };
        let cols = if c.l <= c.r { (c.r - c.l) as usize + 1 } else { 0 };
        // every cell must be the sentinel or, inside the rectangle, the right image pixel
        if let Some(img) = &image {
            let iw = c.img_w as usize;
            for y in 0..c.win_h {
                for x in 0..c.win_w {
                    let v = buffer[y * c.win_w + x];
                    let in_rect = inside && y >= c.t as usize && y <= c.b as usize && x >= c.l as usize && x <= c.r as usize;
                    if in_rect {
                        let sy = y - c.t as usize;
                        let sx = x - c.l as usize;
                        let want = img.get(sy * iw + sx).copied();
                        if res.is_ok() {
                            if Some(v) != want {
                                return Outcome::fail("mismatch", "blit-wrong-pixel", format!("cell ({},{}) = {:#x}, reference {:?}; {:?}", x, y, v, want, c));
                            }
                        } else if v != SENT && Some(v) != want {
                            return Outcome::fail("mismatch", "foreign-value-in-window-buffer", format!("cell ({},{}) = {:#x} after a failed call; {:?}", x, y, v, c));
                        }
                    } else if inside && v != SENT {
                        return Outcome::fail("mismatch", "cell-outside-the-rectangle-changed", format!("cell ({},{}) = {:#x}; {:?}", x, y, v, c));
                    } else if !inside && v != SENT {
                        // out-of-window rectangle: whatever was written must at least come from the image
                        if !img.contains(&v) {
                            return Outcome::fail("mismatch", "foreign-value-in-window-buffer", format!("cell ({},{}) = {:#x} is not an image pixel; {:?}", x, y, v, c));
                        }
                    }
                }
            }
            let big_enough = rows > 0 && cols > 0 && (rows - 1) * iw + cols <= img.len();
            let class = format!("{}:{}:{}", if res.is_ok() { "ok" } else { "err" }, if inside { "inside" } else { "outside" }, if big_enough { "fits" } else { "image-too-small" });
            return Outcome::pass(class, true);
        }
        // unknown image (garbage or truncated data): memory safety, and the window must not show memory the decoder never
        // wrote — the same paint under two different fillings of fresh heap blocks gives the same window
        let mut runs: Vec<(bool, Vec<u32>)> = vec![];
        for poison in [0xA5u8, 0x3C] {
            // (a one-colour compressed 16 bpp image of the same size is painted first, in another colour each time: whatever a
            // decoder keeps between two images differs between the two runs)
            {
                let (w2, h2) = (c.img_w.max(1), c.img_h.max(1));
                let mut big: Vec<u32> = vec![SENT; 64 * 64];
                let one = BitmapEvent { dest_left: 0, dest_top: 0, dest_right: w2.min(64) - 1, dest_bottom: h2.min(64) - 1, width: w2, height: h2, bpp: 16, is_compress: true, data: rle::emit_all(&[Order { kind: Kind::ColorRun, form: Form::MegaMega, run: (w2 as u32 * h2 as u32).min(65535), fg: 0, a: if poison == 0xA5 { 0x1234 } else { 0x8410 }, b: 0, masks: vec![], pixels: vec![] }]) };
                let _ = blit(&mut big, 64, one);
            }
            let (data, compress, _) = make_data(&c);
            let mut b2: Vec<u32> = vec![SENT; c.win_w * c.win_h];
            let ev = BitmapEvent { dest_left: c.l, dest_top: c.t, dest_right: c.r, dest_bottom: c.b, width: c.img_w, height: c.img_h, bpp: c.bpp, is_compress: compress, data };
            redzone::POISON.store(poison, Relaxed);
            let r2 = blit(&mut b2, c.win_w, ev);
            redzone::POISON.store(0, Relaxed);
            runs.push((r2.is_ok(), b2));
        }
        // ... and whatever was painted before: the same paint after two other images (an all-white compressed 16 bpp one
        // and a patterned 32 bpp one of the same size, into a larger window) gives the same window again
        {
            let (w2, h2) = (c.img_w.max(1), c.img_h.max(1));
            let mut big: Vec<u32> = vec![SENT; 64 * 64];
            let white = BitmapEvent { dest_left: 0, dest_top: 0, dest_right: w2.min(64) - 1, dest_bottom: h2.min(64) - 1, width: w2, height: h2, bpp: 16, is_compress: true, data: rle::emit_all(&[Order { kind: Kind::ColorRun, form: Form::MegaMega, run: (w2 as u32 * h2 as u32).min(65535), fg: 0, a: 0xFFFF, b: 0, masks: vec![], pixels: vec![] }]) };
            let _ = blit(&mut big, 64, white);
            let bgra = image32(w2 as usize, h2 as usize);
            let patterned = BitmapEvent { dest_left: 0, dest_top: 0, dest_right: w2.min(64) - 1, dest_bottom: h2.min(64) - 1, width: w2, height: h2, bpp: 32, is_compress: true, data: rle::planar_encode_with(&bgra, w2 as usize, h2 as usize, |_, _, line| rle::strategy_segs(line, 0)) };
            let _ = blit(&mut big, 64, patterned);
            let (data, compress, _) = make_data(&c);
            let mut b3: Vec<u32> = vec![SENT; c.win_w * c.win_h];
            let ev = BitmapEvent { dest_left: c.l, dest_top: c.t, dest_right: c.r, dest_bottom: c.b, width: c.img_w, height: c.img_h, bpp: c.bpp, is_compress: compress, data };
            redzone::POISON.store(0xA5, Relaxed);
            let r3 = blit(&mut b3, c.win_w, ev);
            redzone::POISON.store(0, Relaxed);
            if (r3.is_ok(), &b3) != (runs[0].0, &runs[0].1) {
                let at = b3.iter().zip(runs[0].1.iter()).position(|(a, b)| a != b);
                return Outcome::fail("mismatch", "window-depends-on-what-was-painted-before", format!("the same paint gives another window (first difference at cell {:?}) or result ({} / {}) after two other images were painted in the same thread; {:?}", at, runs[0].0, r3.is_ok(), c));
            }
        }
        if runs[0] != runs[1] {
            let at = runs[0].1.iter().zip(runs[1].1.iter()).position(|(a, b)| a != b);
            return Outcome::fail("mismatch", "window-shows-memory-the-decoder-never-wrote", format!("the same paint gives another window (first difference at cell {:?}: {:#x?} / {:#x?}) or result ({} / {}) when fresh heap blocks are filled with 0xA5 or with 0x3C; {:?}", at, at.map(|i| runs[0].1[i]), at.map(|i| runs[1].1[i]), runs[0].0, runs[1].0, c));
        }
        Outcome::pass(format!("{}:undecodable", if res.is_ok() { "ok" } else { "err" }), false)
    }
}
