#!/usr/bin/env python3
"""Prompt asking for THREE independent changes for a property of the GUI binary (C19 / C20)."""
import json, sys, glob
pid = sys.argv[1]
n = sys.argv[2] if len(sys.argv) > 2 else ""
for l in open('/verif/properties.jsonl'):
    p = json.loads(l)
    if p['id'] == pid:
        break
used = []
for d in sorted(glob.glob('/verif/seeded/*')):
    try:
        m = json.load(open(d + '/meta.json'))
    except Exception:
        continue
    if m.get('breaks_property') == pid:
        used.append(m['change'])
wt = f"/tmp/wt-{pid}{n}"
low = pid.lower()
extra = {
 "C19": "The code is `fast_bitmap_transfer` and `transmute_vec` in src/bin/mstsc-rs.rs and what they call (BitmapEvent::decompress in src/core/event.rs, the decoders in src/codec/rle.rs).",
 "C20": "The code is `launch_rdp_thread` and `wait_for_fd` in src/bin/mstsc-rs.rs and what they rely on in the library (RdpClient::read / has_pending_data in src/core/client.rs, src/core/mcs.rs, src/core/x224.rs, src/core/tpkt.rs, src/model/link.rs). The demonstration uses real threads, a TcpListener on 127.0.0.1 and timeouts; a TLS server is possible with native_tls::TlsAcceptor and an embedded self-signed certificate, or build the RdpClient over a raw stream with the `--cfg rdp_rs_verif` hooks (x224::Client::verif_new_raw, RdpClient::verif_from_parts) and run with RUSTFLAGS=\"--cfg rdp_rs_verif\".",
}[pid]
print(f"""You are helping to evaluate a verification tool for the Rust library citronneur/rdp-rs (a pure-Rust RDP client) and its GUI client binary mstsc-rs. Your job is to play the role of a developer who introduces subtle, realistic regressions.

Work ONLY inside the git worktree {wt}. Do not read or write anything under /verif or /repo, and do not look at other /tmp/wt-* directories. No network; use `cargo ... --offline`. Do not commit anything. NEVER use `git stash`.

PROPERTY (this is what must get broken):
  Title: {p['title']}
  Statement: {p['statement']}
  Quantified over: {p['quantifier']['text']}
  Relevant files: {', '.join(p['anchors']['files'])}
{extra}

TASK: produce THREE INDEPENDENT changes (numbered 1, 2, 3), each of which alone makes the property FALSE; they must differ in the function or file they touch and in the kind of input / event / timing that exposes them. For each change k:
1. Start from the clean tree (`git -C {wt} checkout -- src`).
2. Make ONE small, realistic source change under {wt}/src (a plausible refactor / hardening / optimisation gone wrong: off-by-one, comparison against the wrong value, check moved after the action it guards, wrong loop-exit condition, lock or flag handled at the wrong moment, two sites that disagree) such that the crate and the binary still compile (`cargo build --offline --features mstsc-rs`), the unit tests still pass (`cargo test --offline --lib` = 39 passed), and the breakage needs something SPECIFIC to manifest (an unusual geometry / packing / end-of-session event / interleaving), not something every session hits at once. Do not touch code guarded by `#[cfg(rdp_rs_verif)]`; do not add dependencies; do not modify existing tests.
3. Save the change alone: `git -C {wt} diff -- src > /tmp/{pid}{n}-change-k.patch`.
4. Then append a demonstration `#[cfg(test)] mod demo_{low}_k {{ use super::*; ... }}` at the END of src/bin/mstsc-rs.rs (the binary's functions are private) and run it with `cargo test --offline --features mstsc-rs --bin mstsc-rs demo_{low}_k` (add RUSTFLAGS if you use the hooks, and say so). It must FAIL with change k and PASS without it: to check the latter, `git -C {wt} apply -R /tmp/{pid}{n}-change-k.patch`, run, then re-apply. Save the demo module alone as a patch against the CLEAN tree: with the change reversed, `git -C {wt} diff -- src/bin/mstsc-rs.rs > /tmp/{pid}{n}-demo-k.patch`.
When all three are done: `git -C {wt} checkout -- src` and `rm -rf {wt}/target`.

STYLE for this round: refactorings that break an invariant BETWEEN two pieces of code that each look right alone. Ideas: a helper gains a parameter whose default is wrong for exactly one of its callers; a constant that exists in two places is changed in one; units are confused (bytes vs UTF-16 units vs pixels vs bits; inclusive vs exclusive upper bound; 0-based vs 1-based counter; length with vs without the header or the terminator); a cast narrows or sign-extends on one side of an interface only; one field of a structure switches endianness or width on the writing side but not on the reading side (or the reverse); a value is normalised (upper-cased, trimmed, clamped, rounded up to a multiple) in one place and compared with the un-normalised value in another; a builder/encoder and the matching parser/validator drift apart for one rarely used variant; an early-exit optimisation (nothing to do when empty / when equal to the previous value / when already in that state) skips a side effect that a later step relies on. Each change must keep every ordinary session working and show only for specific values, sizes or sequences. Prefer places where the existing unit tests pin bytes of the common case only.

These ideas have ALREADY been used for this property — do something different: {' | '.join(used) if used else '(none)'}
{"One weakness was known and has been repaired already (the thread used to poll the raw socket while a decrypted PDU was buffered in the TLS layer; has_pending_data() now covers it) - re-breaking exactly that by deleting the has_pending_data() call is too obvious; be subtler." if pid == "C20" else ""}

REPORT (final message), for each k: (a) the diff of the change, (b) the exact command to run the demo, (c) two or three sentences: why it breaks the property and the specific condition needed, (d) confirmation of the runs.
""")
