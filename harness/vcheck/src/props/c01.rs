//! C01 — NLA releases credentials only after the server proves the session key.
//! The real Connector::connect (NLA) runs over real TLS against the reference CredSSP/NTLM server,
//! which answers the final round with every reply of the alphabet.

use crate::peer::{parse_ts_request, FinalReply, ServerParams};
use crate::props::c05::err_class;
use crate::runner::{Outcome, Prop, Tier};
use crate::tls::{acceptor, tls_connect, Cert, ConnCfg};
use serde::Serialize;
use serde_json::{json, Value};

#[derive(Clone, Debug, Serialize)]
pub struct Case {
    pub cfg_id: usize,
    pub cert: Cert,
    pub reply: FinalReply,
    /// NTLM negotiate flags the server's CHALLENGE leaves out (0: the Windows-like default set)
    pub challenge_without: u32,
    /// the same authentication object (Ntlm) first completes an honest session; in the judged second session the
    /// server answers the final round with the reply it gave in the first one (a recorded reply replayed)
    pub replay_after_reuse: bool,
    /// with replay_after_reuse: how many sessions in a row (0 = two on one object), one object or a fresh one each;
    /// (1, order) = the look-alike certificate case (see clone_relay); (3, _) = same account, other password
    #[serde(default)]
    pub replay_sessions: (usize, bool),
    /// the server does not know the password (ServerParams::passwordless): whatever it sends in the final round must be
    /// refused, the honestly computed key + 1 included
    pub passwordless: bool,
    /// flag bits ADDED to the CHALLENGE (bits the client never asks for), and, for a password-less server, how it guesses the
    /// session key from what it saw (ServerParams::passwordless_guess)
    #[serde(default)]
    pub challenge_with: u32,
    #[serde(default)]
    pub guess: u8,
}

pub struct C01 {
    cases: Vec<Case>,
    honest_len: std::collections::HashMap<(usize, String), usize>,
}

impl C01 {
    pub fn new() -> C01 {
        C01 { cases: vec![], honest_len: Default::default() }
    }
}

pub fn configs() -> Vec<ConnCfg> {
    let mut v = vec![];
    let creds = [("dom", "user", "S3cr3t-pässwörd"), ("", "u", "pw1234"), ("D", "user2", "pä😀ss")];
    for (d, u, p) in creds {
        for use_hash in [false, true] {
            for mode in 0..3 {
                let mut c = ConnCfg::default();
                c.client.domain = d.into();
                c.client.user = u.into();
                c.client.password = p.into();
                c.use_hash = use_hash;
                c.restricted_admin = mode == 1;
                c.blank_creds = mode == 2;
                v.push(c);
            }
        }
    }
    v
}

fn structured(other_keys: &[Vec<u8>]) -> Vec<FinalReply> {
    let mut v = vec![
        FinalReply::ClientDirectionKeys,
        FinalReply::OtherSessionKey,
        FinalReply::WrongSignKey,
        FinalReply::WrongSealKey,
        FinalReply::WrongStreamPosition,
        FinalReply::Reflect,
        FinalReply::ForgedToken(0),
        FinalReply::ForgedToken(1),
        FinalReply::ForgedToken(2),
        FinalReply::ForgedToken(3),
        FinalReply::ForgedToken(4),
        FinalReply::ForgedToken(5),
        FinalReply::ForgedToken(15),
        FinalReply::ForgedToken(16),
        FinalReply::ForgedToken(17),
        FinalReply::ForgedToken(270),
        FinalReply::Extend(1),
        FinalReply::Extend(2),
        FinalReply::Extend(1500),
        FinalReply::BerLong,
        FinalReply::BerForm(0),
        FinalReply::BerForm(1),
        FinalReply::BerForm(2),
        FinalReply::BerForm(3),
        FinalReply::BerForm(4),
        FinalReply::BerForm(5),
        FinalReply::BerForm(6),
        FinalReply::ExtraTrailingField,
        FinalReply::MissingPubKeyAuth,
        FinalReply::EmptyPubKeyAuth,
        FinalReply::WrongContextTag,
        FinalReply::Version(0),
        FinalReply::Version(3),
        FinalReply::Version(6),
        FinalReply::WrongWithVersion(2),
        FinalReply::WrongWithVersion(3),
        FinalReply::WrongWithVersion(5),
        FinalReply::WrongWithVersion(6),
        FinalReply::WrongWithVersion(0x7FFF_FFFF),
        FinalReply::ZeroExtended(1),
        FinalReply::ZeroExtended(2),
        FinalReply::Eof,
        FinalReply::Offset(0),
        FinalReply::Offset(2),
        FinalReply::Offset(-1),
        FinalReply::Offset(256),
        FinalReply::SealedPrefix(0),
        FinalReply::SealedPrefix(1),
        FinalReply::SealedPrefix(2),
        FinalReply::SealedPrefix(16),
        FinalReply::SealedPrefix(32),
        FinalReply::SealedPrefix(64),
        FinalReply::SealedWithTrailing(1),
        FinalReply::SealedWithTrailing(3),
        FinalReply::SealedWithTrailing(300),
        // a wrong value whose message is exactly 1, 2 or 3 read chunks of the link (1500 bytes) or ends next to one,
        // and around the 4 KiB / 16 KiB (TLS record) marks
        FinalReply::WrongPaddedTo(1499),
        FinalReply::WrongPaddedTo(1500),
        FinalReply::WrongPaddedTo(1501),
        FinalReply::WrongPaddedTo(3000),
        FinalReply::WrongPaddedTo(4096),
        FinalReply::WrongPaddedTo(4500),
        FinalReply::WrongPaddedTo(16384),
    ];
    for k in other_keys {
        v.push(FinalReply::OtherCertificate(k.clone()));
    }
    v
}

/// classification of a reply: 0 must accept, 1 must reject, 2 don't care (right value, other spelling)
fn class_of(r: &FinalReply, version_byte_bits: Option<(usize, usize)>) -> u8 {
    match r {
        FinalReply::Honest => 0,
        FinalReply::ExtraTrailingField | FinalReply::Version(_) | FinalReply::ZeroExtended(_) | FinalReply::SealedWithSeq(_) => 2,
        FinalReply::FlipBit(n) => {
            if let Some((lo, hi)) = version_byte_bits {
                if *n >= lo && *n < hi {
                    return 2;
                }
            }
            1
        }
        _ => 1,
    }
}

/// two connections in a row on one thread: an honest one to `first`, then one to `second` — a certificate with the
/// same issuer and serial number as `first` but another key — whose server relays the proof of the holder of `first`'s
/// key (what a man in the middle presenting a look-alike certificate obtains from the real server). The client saw
/// `second`'s key on this connection: the proof is for another key and must be refused. Then an honest connection to
/// `second` must succeed.
fn clone_relay(cfg: &ConnCfg, first: Cert, second: Cert) -> Outcome {
    let key_first = match crate::tls::acceptor(first) {
        Ok(a) => a.1,
        Err(e) => return Outcome::fail("setup", "machinery", e),
    };
    let t1 = match tls_connect(cfg, ServerParams { selected: 2, ..Default::default() }, vec![], first) {
        Ok(t) => t,
        Err(e) => return Outcome::fail("setup", "machinery", e),
    };
    if t1.client.is_none() {
        return Outcome::fail("mismatch", "honest-server-refused", format!("first connection ({:?}): {:?}", first, t1.error));
    }
    drop(t1);
    let t2 = match tls_connect(cfg, ServerParams { selected: 2, final_reply: FinalReply::OtherCertificate(key_first), ..Default::default() }, vec![], second) {
        Ok(t) => t,
        Err(e) => return Outcome::fail("setup", "machinery", e),
    };
    {
        let pr = t2.peer.borrow();
        if !pr.srv.final_reply_sent {
            if pr.srv.errors.iter().any(|e| e.contains("pubKeyAuth is not the SubjectPublicKey")) {
                // the client's own proof names another key than the one of the certificate it is looking at: that is what a
                // relay needs (the holder of the other key will accept it and answer with a proof the client accepts)
                return Outcome::fail("mismatch", "client-binds-the-session-to-another-certificate-than-the-one-presented", format!("after an honest connection to {:?}, connected to {:?} (same issuer and serial number, another key): {:?}", first, second, pr.srv.errors));
            }
            return Outcome::fail("setup", "final-round-not-reached", format!("second connection: server {:?}, client {:?}", pr.srv.errors, t2.error));
        }
        let released = pr.srv.creds.is_some() || pr.srv.log.iter().any(|m| m.name == "cssp_credentials");
        if released || pr.srv.bytes_after_final_reply > 0 || t2.client.is_some() {
            return Outcome::fail("mismatch", "credentials-released-to-a-look-alike-certificate", format!("after an honest connection to {:?}, a server presenting {:?} (same issuer and serial number, another key) relayed the proof for {:?}'s key and was accepted: released={} bytes after the reply={} connect ok={}", first, second, first, released, pr.srv.bytes_after_final_reply, t2.client.is_some()));
        }
    }
    drop(t2);
    let t3 = match tls_connect(cfg, ServerParams { selected: 2, ..Default::default() }, vec![], second) {
        Ok(t) => t,
        Err(e) => return Outcome::fail("setup", "machinery", e),
    };
    if t3.client.is_none() {
        return Outcome::fail("mismatch", "honest-server-refused", format!("honest connection to {:?} after connections to {:?} on the same thread: {:?}", second, first, t3.error));
    }
    Outcome::pass("look-alike-certificate-relay-rejected", true)
}

/// three honest connections in a row on one thread for the same user and domain: with the configured password, with another
/// one, with the first again (through the NT hash too when the configuration says so): each proof is computed from the
/// password of its own connection, whatever the thread computed before
fn same_account_other_password(cfg: &ConnCfg, cert: Cert) -> Outcome {
    let mut other = cfg.clone();
    other.client.password = format!("{}-another", cfg.client.password);
    for (k, c) in [cfg, &other, cfg].iter().enumerate() {
        let t = match tls_connect(c, ServerParams { selected: 2, ..Default::default() }, vec![], cert) {
            Ok(t) => t,
            Err(e) => return Outcome::fail("setup", "machinery", e),
        };
        if t.client.is_none() {
            return Outcome::fail("mismatch", "honest-server-refused", format!("connection {} of 3 for the same user and domain (password {}): client {:?}, server {:?}", k + 1, if k == 1 { "changed" } else { "as configured" }, t.error, t.peer.borrow().srv.errors));
        }
    }
    Outcome::pass("same-account-other-password-accepted", true)
}

/// `sessions` sessions in a row on one thread, driven through x224::Client::connect with the library's real random
/// generator; the first is honest, every later server replays the first server's final reply (it proves nothing: the
/// nonces of the new session differ). `same_object`: ONE Ntlm object serves them all, otherwise a fresh one each time.
fn replay_after_reuse(cfg: &ConnCfg, cert: Cert, sessions: usize, same_object: bool) -> Outcome {
    use crate::memlink::MemLink;
    use rdp::core::{tpkt, x224};
    use rdp::model::link::{Link, Stream};
    use rdp::nla::ntlm::Ntlm;
    use std::cell::RefCell;
    use std::rc::Rc;
    let account = |p: &mut ServerParams| {
        p.acct_user = cfg.client.user.clone();
        p.acct_domain = cfg.client.domain.clone();
        p.acct_password = cfg.client.password.clone();
    };
    let fresh = || {
        if cfg.use_hash {
            Ntlm::from_hash(cfg.client.domain.clone(), cfg.client.user.clone(), &vref::ntlm::nt_hash(&cfg.client.password))
        } else {
            Ntlm::new(cfg.client.domain.clone(), cfg.client.user.clone(), cfg.client.password.clone())
        }
    };
    let mut ntlm = fresh();
    let restricted = cfg.restricted_admin;
    // session 1: honest
    let mut p1 = ServerParams { selected: 2, ..Default::default() };
    account(&mut p1);
    let peer1 = match crate::tls::TlsPeer::new(p1, vec![], cert) {
        Ok(p) => Rc::new(RefCell::new(p)),
        Err(e) => return Outcome::fail("setup", "machinery", e),
    };
    let t1 = tpkt::Client::new(Link::new(Stream::Raw(MemLink::with_peer(peer1.clone()))));
    if let Err(e) = x224::Client::connect(t1, 3, false, Some(&mut ntlm), restricted, cfg.blank_creds) {
        return Outcome::fail("mismatch", "honest-server-refused", format!("first session: {:?}", e));
    }
    let recorded = match peer1.borrow().srv.sent.iter().find(|s| s.0 == "cssp_pubkey").map(|s| s.2.clone()) {
        Some(b) => b,
        None => return Outcome::fail("setup", "final-round-not-reached", "first session".to_string()),
    };
    // later sessions: the reply of session 1 replayed
    for n in 2..=sessions {
        if !same_object {
            ntlm = fresh();
        }
        let mut p2 = ServerParams { selected: 2, final_reply: FinalReply::Raw(recorded.clone()), ..Default::default() };
        account(&mut p2);
        let peer2 = match crate::tls::TlsPeer::new(p2, vec![], cert) {
            Ok(p) => Rc::new(RefCell::new(p)),
            Err(e) => return Outcome::fail("setup", "machinery", e),
        };
        let t2 = tpkt::Client::new(Link::new(Stream::Raw(MemLink::with_peer(peer2.clone()))));
        let r2 = x224::Client::connect(t2, 3, false, Some(&mut ntlm), restricted, cfg.blank_creds);
        let pr = peer2.borrow();
        if !pr.srv.final_reply_sent {
            return Outcome::fail("mismatch", "later-session-of-the-thread-does-not-reach-the-final-round", format!("session {} of the thread ({}): server {:?}, client {:?}", n, if same_object { "same authentication object" } else { "fresh authentication object" }, pr.srv.errors, r2.err()));
        }
        let released = pr.srv.creds.is_some() || pr.srv.log.iter().any(|m| m.name == "cssp_credentials");
        if released || pr.srv.bytes_after_final_reply > 0 || r2.is_ok() {
            return Outcome::fail("mismatch", "credentials-released-after-a-replayed-reply", format!("session {} of the thread ({}): the reply recorded in session 1 was accepted: released={} bytes after the reply={} connect ok={}", n, if same_object { "the authentication object had completed the earlier sessions" } else { "fresh authentication object" }, released, pr.srv.bytes_after_final_reply, r2.is_ok()));
        }
    }
    Outcome::pass(if sessions > 2 { "replayed-reply-rejected-in-every-later-session" } else { "replayed-reply-rejected" }, true)
}

impl Prop for C01 {
    fn id(&self) -> &'static str {
        "C01"
    }
    fn level(&self) -> &'static str {
        "fault_enumeration"
    }
    fn prepare(&mut self, tier: Tier) -> Result<(), String> {
        let cfgs = configs();
        let mut cs = vec![];
        let key_a = acceptor(Cert::A)?.1;
        let key_b = acceptor(Cert::B)?.1;
        let key_m = acceptor(Cert::M)?.1;
        let key_p = acceptor(Cert::P521)?.1;
        for (ci, cfg) in cfgs.iter().enumerate() {
            for cert in [Cert::A, Cert::B, Cert::M, Cert::P521] {
                if (cert == Cert::M && ci != 0) || (cert == Cert::P521 && ci != 0 && ci != 4) {
                    continue;
                }
                // honest run: must succeed, and tells the length of the honest reply
                let t = tls_connect(cfg, ServerParams { selected: 2, ..Default::default() }, vec![], cert)?;
                let pr = t.peer.borrow();
                let honest = pr.srv.sent.iter().find(|s| s.0 == "cssp_pubkey").map(|s| s.1.clone()).ok_or_else(|| format!("honest NLA run failed for config {}: {:?} {:?}", ci, t.error, pr.srv.errors))?;
                let len = honest.len();
                self.honest_len.insert((ci, format!("{:?}", cert)), len);
                let full = tier == Tier::Thorough || (ci == 0 && cert == Cert::A) || (ci == 4 && cert == Cert::B);
                cs.push(Case { cfg_id: ci, cert, reply: FinalReply::Honest, challenge_without: 0, replay_after_reuse: false, replay_sessions: (0, true), passwordless: false, challenge_with: 0, guess: 0 });
                let others: Vec<Vec<u8>> = match cert {
                    Cert::A => vec![key_b.clone(), key_m.clone()],
                    Cert::B => vec![key_a.clone(), key_m.clone()],
                    _ => vec![key_a.clone(), key_b.clone()],
                };
                for r in structured(&others) {
                    cs.push(Case { cfg_id: ci, cert, reply: r, challenge_without: 0, replay_after_reuse: false, replay_sessions: (0, true), passwordless: false, challenge_with: 0, guess: 0 });
                }
                // every proper prefix of the value, correctly sealed (the value must be compared as a whole)
                let klen = match cert {
                    Cert::B => key_b.len(),
                    Cert::M => key_m.len(),
                    Cert::P521 => key_p.len(),
                    _ => key_a.len(),
                };
                for n in (0..klen).step_by(if full { 1 } else { 29 }) {
                    cs.push(Case { cfg_id: ci, cert, reply: FinalReply::SealedPrefix(n), challenge_without: 0, replay_after_reuse: false, replay_sessions: (0, true), passwordless: false, challenge_with: 0, guess: 0 });
                }
                let step = if full { 1 } else { 13 };
                for bit in (0..len * 8).step_by(step) {
                    cs.push(Case { cfg_id: ci, cert, reply: FinalReply::FlipBit(bit), challenge_without: 0, replay_after_reuse: false, replay_sessions: (0, true), passwordless: false, challenge_with: 0, guess: 0 });
                }
                for n in (0..len).step_by(if full { 1 } else { 7 }) {
                    cs.push(Case { cfg_id: ci, cert, reply: FinalReply::Truncate(n), challenge_without: 0, replay_after_reuse: false, replay_sessions: (0, true), passwordless: false, challenge_with: 0, guess: 0 });
                }
                if full {
                    for d in -256i64..=256 {
                        if d != 1 {
                            cs.push(Case { cfg_id: ci, cert, reply: FinalReply::Offset(d), challenge_without: 0, replay_after_reuse: false, replay_sessions: (0, true), passwordless: false, challenge_with: 0, guess: 0 });
                        }
                    }
                    let keylen = if cert == Cert::B { key_b.len() } else { key_a.len() };
                    for j in 0..(keylen * 8).min(31 * 8) {
                        for neg in [false, true] {
                            if j == 0 && !neg {
                                continue; // + 2^0 is the honest value
                            }
                            cs.push(Case { cfg_id: ci, cert, reply: FinalReply::Pow2(j, neg), challenge_without: 0, replay_after_reuse: false, replay_sessions: (0, true), passwordless: false, challenge_with: 0, guess: 0 });
                        }
                    }
                }
            }
        }
        // carry propagation of key + 1: a raw 32-byte key starting with 0xFF (Ed25519), every offset -300..300
        let key_ff = acceptor(Cert::Ed25519FF)?.1;
        for ci in [0usize, 1] {
            cs.push(Case { cfg_id: ci, cert: Cert::Ed25519FF, reply: FinalReply::Honest, challenge_without: 0, replay_after_reuse: false, replay_sessions: (0, true), passwordless: false, challenge_with: 0, guess: 0 });
            for r in structured(&[key_a.clone(), key_b.clone()]) {
                // a "prefix" as long as the (32-byte) key is the honest value itself
                if matches!(r, FinalReply::SealedPrefix(n) if n >= key_ff.len()) {
                    continue;
                }
                cs.push(Case { cfg_id: ci, cert: Cert::Ed25519FF, reply: r, challenge_without: 0, replay_after_reuse: false, replay_sessions: (0, true), passwordless: false, challenge_with: 0, guess: 0 });
            }
            for d in -300i64..=300 {
                if d != 1 {
                    cs.push(Case { cfg_id: ci, cert: Cert::Ed25519FF, reply: FinalReply::Offset(d), challenge_without: 0, replay_after_reuse: false, replay_sessions: (0, true), passwordless: false, challenge_with: 0, guess: 0 });
                }
            }
            for j in 0..key_ff.len() * 8 {
                for neg in [false, true] {
                    if j == 0 && !neg {
                        continue;
                    }
                    cs.push(Case { cfg_id: ci, cert: Cert::Ed25519FF, reply: FinalReply::Pow2(j, neg) , challenge_without: 0, replay_after_reuse: false, replay_sessions: (0, true), passwordless: false, challenge_with: 0, guess: 0 });
                }
            }
        }
        // the CHALLENGE of the earlier round leaves a flag out: the proof of the final round must still be demanded
        for without in [vref::ntlm::F_SIGN, vref::ntlm::F_ALWAYS_SIGN, vref::ntlm::F_SEAL, vref::ntlm::F_SIGN | vref::ntlm::F_ALWAYS_SIGN, vref::ntlm::F_56, vref::ntlm::F_TARGET_TYPE_SERVER] {
            for ci in [0usize, 1, 4] {
                let cert = Cert::A;
                cs.push(Case { cfg_id: ci, cert, reply: FinalReply::Honest, challenge_without: without, replay_after_reuse: false, replay_sessions: (0, true), passwordless: false, challenge_with: 0, guess: 0 });
                for r in structured(&[key_b.clone(), key_m.clone()]) {
                    cs.push(Case { cfg_id: ci, cert, reply: r, challenge_without: without, replay_after_reuse: false, replay_sessions: (0, true), passwordless: false, challenge_with: 0, guess: 0 });
                }
                // every bit of the 16-byte signature that precedes the sealed value, and a few beyond
                let len = *self.honest_len.get(&(ci, format!("{:?}", cert))).unwrap_or(&0);
                for bit in (0..len * 8).step_by(if tier == Tier::Thorough { 1 } else { 5 }) {
                    cs.push(Case { cfg_id: ci, cert, reply: FinalReply::FlipBit(bit), challenge_without: without, replay_after_reuse: false, replay_sessions: (0, true), passwordless: false, challenge_with: 0, guess: 0 });
                }
            }
        }
        // a server that does not know the password: it takes the EncryptedRandomSessionKey field for the session key
        // (all it can do), under every CHALLENGE flag set that changes how that field is produced or the keys derived
        for without in [0u32, vref::ntlm::F_KEY_EXCH, vref::ntlm::F_KEY_EXCH | vref::ntlm::F_SEAL, vref::ntlm::F_KEY_EXCH | vref::ntlm::F_128, vref::ntlm::F_KEY_EXCH | vref::ntlm::F_ESS, vref::ntlm::F_128 | vref::ntlm::F_56, vref::ntlm::F_ESS, vref::ntlm::F_KEY_EXCH | vref::ntlm::F_SIGN | vref::ntlm::F_ALWAYS_SIGN] {
            for ci in [0usize, 1, 4] {
                for cert in [Cert::A, Cert::B] {
                    for reply in [FinalReply::Honest, FinalReply::Version(6), FinalReply::Offset(0), FinalReply::ClientDirectionKeys] {
                        cs.push(Case { cfg_id: ci, cert, reply, challenge_without: without, replay_after_reuse: false, replay_sessions: (0, true), passwordless: true, challenge_with: 0, guess: 0 });
                    }
                }
            }
        }
        // the same server under CHALLENGE flag bits the client never asked for (LM_KEY, REQUEST_NON_NT_SESSION_KEY, both, and
        // five others), with three more ways of guessing the session key from public data: the field unwrapped with a key
        // made of the first 8 bytes of the LM response, of zeros, of the server challenge
        for with in [0x0040_0000u32, 0x80, 0x0040_0080, 0x0000_1000, 0x0000_2000, 0x0001_0000, 0x0010_0000, 0x0200_0000, 0x0040_0000 | vref::ntlm::F_56] {
            for guess in 0..=3u8 {
                for ci in [0usize, 4] {
                    for reply in [FinalReply::Honest, FinalReply::Offset(0)] {
                        cs.push(Case { cfg_id: ci, cert: Cert::A, reply, challenge_without: 0, replay_after_reuse: false, replay_sessions: (0, true), passwordless: true, challenge_with: with, guess });
                    }
                }
            }
            // and the honest server under those flags is accepted
            cs.push(Case { cfg_id: 0, cert: Cert::A, reply: FinalReply::Honest, challenge_without: 0, replay_after_reuse: false, replay_sessions: (0, true), passwordless: false, challenge_with: with, guess: 0 });
        }
        // one authentication object used for two sessions: nothing of the first may make a replayed reply acceptable
        for ci in [0usize, 1, 2, 3] {
            for cert in [Cert::A, Cert::B] {
                cs.push(Case { cfg_id: ci, cert, reply: FinalReply::Honest, challenge_without: 0, replay_after_reuse: true, replay_sessions: (0, true), passwordless: false, challenge_with: 0, guess: 0 });
            }
        }
        // a certificate cloning issuer and serial number of one the thread connected to before, with another key
        for ci in [0usize, 1, 2, 3] {
            for a_first in [true, false] {
                cs.push(Case { cfg_id: ci, cert: Cert::AClone, reply: FinalReply::Honest, challenge_without: 0, replay_after_reuse: true, replay_sessions: (1, a_first), passwordless: false, challenge_with: 0, guess: 0 });
            }
        }
        // the same user and domain with another password later on the same thread (honest servers: all accepted)
        for ci in 0..configs().len() {
            cs.push(Case { cfg_id: ci, cert: Cert::A, reply: FinalReply::Honest, challenge_without: 0, replay_after_reuse: true, replay_sessions: (3, true), passwordless: false, challenge_with: 0, guess: 0 });
        }
        // 70 sessions in a row on one thread with the real random generator (one object / a fresh one each time): the
        // reply recorded in the first never becomes acceptable, whatever is pooled, cached or counted per thread
        for (ci, cert) in [(0usize, Cert::A), (3, Cert::B)] {
            for same in [true, false] {
                cs.push(Case { cfg_id: ci, cert, reply: FinalReply::Honest, challenge_without: 0, replay_after_reuse: true, replay_sessions: (70, same), passwordless: false, challenge_with: 0, guess: 0 });
            }
        }
        self.cases = cs;
        Ok(())
    }
    fn n_cases(&self) -> u64 {
        self.cases.len() as u64
    }
    /// pair block: honest / key+2 / other certificate's key, for the plain, restricted-admin and blank-credentials
    /// configurations, in every order (a proof accepted in one connection must not carry over to the next)
    fn pair_reps(&self, _tier: Tier) -> Vec<u64> {
        let mut v = vec![];
        for cfg in 0..3usize {
            for want in ["Honest", "Offset(2)", "OtherCertificate"] {
                if let Some(i) = self.cases.iter().position(|c| c.cfg_id == cfg && c.cert == Cert::A && format!("{:?}", c.reply).starts_with(want)) {
                    v.push(i as u64);
                }
            }
        }
        v
    }
    fn describe(&self, idx: u64) -> Value {
        let c = &self.cases[idx as usize];
        json!({"idx": idx, "config": configs()[c.cfg_id], "certificate": c.cert, "final_round_reply": c.reply, "server_knows_the_password": !c.passwordless, "challenge_flags_left_out": format!("{:#x}", c.challenge_without)})
    }
    fn rule(&self) -> String {
        "cases = (connector configuration, server certificate, reply of the server in the final CredSSP round). Configurations: 3 credential sets x password|hash x {plain, restricted admin, blank credentials}; certificates RSA-2048, EC P-256, EC P-521 (every DER length of the round then lies in 128..255) (+ an untrusted RSA key for the relay case). Replies: honest; every single-bit flip of the honest TSRequest; key+d for every d in [-256,256] except 1 and key +- 2^j for every j up to 248, correctly sealed; sealed with client-to-server keys / another session key / wrong signing key / wrong sealing key / advanced cipher stream; honest reply for another certificate's key (relay); reflection of the client's token; forged tokens (a signature header the server cannot have computed followed by 0..5, 15..17 or 270 arbitrary bytes); every truncation; extensions; the honest value re-encoded as BER-but-not-DER (long-form lengths everywhere / only on the version field, exactly one redundant leading zero octet on every length / on the outer SEQUENCE / on the OCTET STRING, indefinite-length outer SEQUENCE / [3] wrapper, constructed OCTET STRING) which CredSSP's DER rules make a malformed encoding and which must be refused; extra field, missing/empty pubKeyAuth, wrong context tag, versions 0/3/6; EOF. Full alphabet for two configurations in quick (every 13th bit / 7th truncation elsewhere), for all in thorough. Also: an Ed25519 certificate whose raw key starts with 0xFF (carry of key+1) with every offset -300..300 and +-2^j; the CHALLENGE of the earlier round leaving out SIGN / ALWAYS_SIGN / SEAL / 56 / TARGET_TYPE flags x structured replies x bit flips. Also: a server that does not know the password and takes the EncryptedRandomSessionKey field of the AUTHENTICATE message for the session key, under 8 CHALLENGE flag sets (with and without KEY_EXCH, SEAL, 128, 56, extended session security) x 4 replies sealed under those keys: all must be refused; the same under 9 sets of CHALLENGE flag bits the client never asks for (LM_KEY, REQUEST_NON_NT_SESSION_KEY, ...) x 4 ways of guessing the session key from public data (the field itself, the field unwrapped with the first 8 bytes of the LM response / zeros / the server challenge); wrong values sealed correctly in TSRequests announcing CredSSP versions 2, 3, 5, 6, 2^31-1. Also: one authentication object (Ntlm) used for two sessions through x224::Client::connect, the second server replaying the first server's final reply (4 configurations x 2 certificates); 70 sessions in a row on one thread with the real random generator, on one Ntlm object and on a fresh one each time, every server after the first replaying the first server's reply; an honest connection to certificate A followed on the same thread by a server presenting a certificate with A's issuer and serial number but another key that relays the proof for A's key (and the other way round), then an honest connection to it; three honest connections in a row for the same user and domain with the configured password, another one, and the first again (every configuration). Oracle: honest => credentials released and well formed; must-reject => connect returns Err, the server's TLS endpoint receives zero application bytes after its reply, not one raw byte (TLS alert or closure record) is written on the transport after it, and the client does not ask the (still open) transport for more bytes after the reply was delivered; don't-care (same integer, other spelling) => if accepted the value was right. Non-trivial: every reply but the honest one.".into()
    }
    fn assumptions(&self) -> Vec<String> {
        vec![
            "bit flips inside the content byte of the TSRequest version INTEGER, an extra trailing field (valid DER), other version numbers and extra high-order zero bytes are 'don't care': the proof value is unchanged".into(),
            "client nonce and exported session key come from the real generator (not fixed): the oracle does not depend on their value".into(),
        ]
    }
    fn mem_rule(&self, _p: usize, maxreq: usize, _b: u64) -> Option<String> {
        if maxreq > (8 << 20) {
            Some(format!("allocation of {} bytes", maxreq))
        } else {
            None
        }
    }
    fn run_case(&mut self, idx: u64) -> Outcome {
        let c = self.cases[idx as usize].clone();
        let cfg = configs()[c.cfg_id].clone();
        if c.replay_after_reuse {
            if c.replay_sessions.0 == 3 {
                return same_account_other_password(&cfg, c.cert);
            }
            if c.replay_sessions.0 == 1 {
                // look-alike certificate: .1 = A first
                return if c.replay_sessions.1 { clone_relay(&cfg, Cert::A, Cert::AClone) } else { clone_relay(&cfg, Cert::AClone, Cert::A) };
            }
            return replay_after_reuse(&cfg, c.cert, c.replay_sessions.0.max(2), c.replay_sessions.1);
        }
        let mut p = ServerParams { selected: 2, final_reply: c.reply.clone(), passwordless: c.passwordless, ..Default::default() };
        p.ntlm.flags &= !c.challenge_without;
        p.ntlm.flags |= c.challenge_with;
        p.passwordless_guess = c.guess;
        let t = match tls_connect(&cfg, p, vec![], c.cert) {
            Ok(t) => t,
            Err(e) => return Outcome::fail("setup", "machinery", e),
        };
        let pr = t.peer.borrow();
        // ordering: the AUTHENTICATE round never carries credentials
        for m in &pr.srv.log {
            if m.name == "cssp_authenticate" || m.name == "cssp_negotiate" {
                if let Ok(ts) = parse_ts_request(&m.raw) {
                    if ts.auth_info.is_some() {
                        return Outcome::fail("mismatch", "credentials-sent-before-server-proof", format!("{} already carries authInfo", m.name));
                    }
                }
            }
        }
        if !pr.srv.final_reply_sent && c.challenge_without != 0 {
            // a server that left out SEAL signs without encrypting; a client that seals all the same cannot talk to it:
            // the exchange ends before the final round, and nothing was released
            let released = pr.srv.creds.is_some() || pr.srv.log.iter().any(|m| m.name == "cssp_credentials");
            if released || t.client.is_some() {
                return Outcome::fail("mismatch", "credentials-released-without-final-round", format!("challenge without {:#x}", c.challenge_without));
            }
            return Outcome::pass("challenge-without-flags:final-round-not-reached", true);
        }
        if !pr.srv.final_reply_sent {
            return Outcome::fail("setup", "final-round-not-reached", format!("server errors {:?}, client error {:?}", pr.srv.errors, t.error));
        }
        // the version INTEGER content byte of the honest reply: 30 len.. a0 03 02 01 <v>
        let honest = pr.srv.sent.iter().find(|s| s.0 == "cssp_pubkey").map(|s| s.1.clone()).unwrap_or_default();
        let vpos = honest.windows(4).position(|w| w == [0xa0, 0x03, 0x02, 0x01]).map(|p| ((p + 4) * 8, (p + 5) * 8));
        let mut class = class_of(&c.reply, vpos);
        if class == 0 && c.challenge_without != 0 {
            // a server leaving out a flag the client asked for: the client may refuse to go on
            class = 2;
        }
        if c.passwordless {
            // the server could not know the session key: nothing it says proves anything
            class = 1;
        }
        // a client that keeps reading after the final reply would wait for ever on a live connection
        let waits = {
            let sh = t.sh.borrow();
            let last_sw = sh.trace.iter().rposition(|e| matches!(e, crate::memlink::Ev::SW(_)));
            match last_sw {
                Some(i) => sh.trace[i..].iter().filter(|e| matches!(e, crate::memlink::Ev::CREof)).count(),
                None => 0,
            }
        };
        let raw_after_reply: usize = {
            let sh = t.sh.borrow();
            match sh.trace.iter().rposition(|e| matches!(e, crate::memlink::Ev::SW(_))) {
                Some(i) => sh.trace[i..].iter().map(|e| if let crate::memlink::Ev::CW(n, _) = e { *n } else { 0 }).sum(),
                None => 0,
            }
        };
        let released = pr.srv.creds.is_some() || pr.srv.log.iter().any(|m| m.name == "cssp_credentials");
        let after = pr.srv.bytes_after_final_reply;
        let kind = format!("{:?}", c.reply).split(|ch| ch == '(' || ch == ' ').next().unwrap_or("").to_string();
        match class {
            0 => {
                if t.client.is_none() || pr.srv.creds.is_none() {
                    return Outcome::fail("mismatch", "honest-server-refused", format!("client {:?}; server {:?}", t.error, pr.srv.errors));
                }
                Outcome::pass("honest-accepted", false)
            }
            1 => {
                if released || after > 0 {
                    return Outcome::fail(
                        "mismatch",
                        format!("credentials-released-after-{}", kind),
                        format!("reply {:?}: client wrote {} application bytes after it (credentials message seen: {}); connect ok={}", c.reply, after, released, t.client.is_some()),
                    );
                }
                if t.client.is_some() {
                    return Outcome::fail("mismatch", format!("connect-ok-after-{}", kind), format!("reply {:?}", c.reply));
                }
                // "writes nothing further on the link": not a TLS record either (alert, close_notify) once the reply is in
                if raw_after_reply > 0 && !matches!(c.reply, FinalReply::Eof | FinalReply::Truncate(0)) {
                    return Outcome::fail("mismatch", format!("client-wrote-on-the-link-after-{}", kind), format!("reply {:?}: {} raw bytes written on the transport after the reply was queued (no application data reached the server: a TLS alert or closure record)", c.reply, raw_after_reply));
                }
                // (Eof: the server closed; Truncate(0): the server sent nothing at all — waiting is then legitimate)
                if waits > 0 && !matches!(c.reply, FinalReply::Eof | FinalReply::Truncate(0)) {
                    return Outcome::fail("mismatch", format!("client-waits-for-more-input-after-{}", kind), format!("reply {:?}: the whole reply was delivered and the connection stays open, yet the client asked the transport for more bytes {} time(s) instead of failing: the attempt would stay pending", c.reply, waits));
                }
                Outcome::pass(format!("rejected-{}:{}", kind, err_class(t.error.as_deref().unwrap_or(""))), true)
            }
            _ => {
                // don't care: either outcome, but an accepting client must then behave like in the honest case
                if released && pr.srv.creds.is_none() {
                    return Outcome::fail("mismatch", "malformed-credentials-after-dont-care-reply", format!("{:?}", pr.srv.errors));
                }
                Outcome::pass(format!("dontcare-{}:{}", kind, if released { "accepted" } else { "rejected" }), true)
            }
        }
    }
}
