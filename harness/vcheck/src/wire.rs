//! One full conversation through the real `Connector::connect` over real TLS against the reference
//! server, followed by activation, a few input events and shutdown — and the oracles that read its
//! transcript: conformance of the sequence (C03), strict well-formedness (C04), secrets (C17).

use crate::fixture::layout_code;
use crate::memlink::MemLink;
use crate::peer::{parse_ts_request, ClientMsg, ServerParams};
use crate::tls::{Cert, ConnCfg};
use rdp::core::client::RdpClient;
use rdp::core::event::{KeyboardEvent, PointerButton, PointerEvent, RdpEvent};
use vref::bytes::{find, utf16le};
use vref::{framing, gcc, mcs, ntlm, sec, share};

pub struct Transcript {
    pub cfg: ConnCfg,
    pub params: ServerParams,
    pub connect_ok: bool,
    pub connect_error: String,
    pub log: Vec<ClientMsg>,
    pub server_errors: Vec<String>,
    pub server_notes: Vec<String>,
    pub creds: Option<(Vec<u8>, Vec<u8>, Vec<u8>)>,
    pub raw_before_tls: Vec<u8>,
    pub raw_after_cc: Vec<u8>,
    pub plaintext_in: Vec<u8>,
    pub negotiate: Vec<u8>,
    pub activation_error: Option<String>,
    pub activations: usize,
    pub inputs_sent: usize,
    pub shutdown_error: Option<String>,
    pub requested_protocols: u32,
    pub cr_flags: u8,
    pub handshake_done: bool,
}

pub fn converse(cfg: &ConnCfg, params: &ServerParams, cert: Cert, with_inputs: bool) -> Result<Transcript, String> {
    converse_fragmented(cfg, params, cert, with_inputs, crate::memlink::ReadPlan::All, crate::memlink::WritePlan::All)
}

pub fn converse_fragmented(cfg: &ConnCfg, params: &ServerParams, cert: Cert, with_inputs: bool, rp: crate::memlink::ReadPlan, wp: crate::memlink::WritePlan) -> Result<Transcript, String> {
    let t = crate::tls::tls_connect_fragmented(cfg, params.clone(), vec![], cert, rp, wp)?;
    let mut activation_error = None;
    let mut inputs_sent = 0;
    let mut shutdown_error = None;
    let mut client: Option<RdpClient<MemLink>> = t.client;
    if let Some(c) = client.as_mut() {
        let want = params.reactivations + 1;
        let mut reads = 0;
        loop {
            let done = t.peer.borrow().srv.activations_done >= want && c.verif_global().verif_state_id() == 5;
            if done {
                break;
            }
            if reads > 24 * want {
                activation_error = Some(format!("not active after {} reads (state {}, activations {})", reads, c.verif_global().verif_state_id(), t.peer.borrow().srv.activations_done));
                break;
            }
            // the user does not wait for the session to be active: before every read of the activation a pointer move goes
            // through try_write (dropped) and a key press through write (refused) — nothing of them may ever be sent
            if with_inputs && c.verif_global().verif_state_id() != 5 {
                let _ = c.try_write(RdpEvent::Pointer(PointerEvent { x: 0x0101 + reads as u16, y: 0x0202, button: PointerButton::None, down: false }));
                let _ = c.write(RdpEvent::Key(KeyboardEvent { code: 0x0030 + reads as u16, down: true }));
            }
            if let Err(e) = c.read(|_| {}) {
                activation_error = Some(format!("read #{}: {:?}", reads, e));
                break;
            }
            reads += 1;
        }
        if activation_error.is_none() && with_inputs {
            let evs = vec![
                RdpEvent::Pointer(PointerEvent { x: 0x1234, y: 0xFFFF, button: PointerButton::Left, down: true }),
                RdpEvent::Key(KeyboardEvent { code: 0x1E, down: true }),
                RdpEvent::Key(KeyboardEvent { code: 0xFFFF, down: false }),
                RdpEvent::Pointer(PointerEvent { x: 0, y: 0, button: PointerButton::None, down: false }),
            ];
            for e in evs {
                if c.write(e).is_ok() {
                    inputs_sent += 1;
                }
            }
        }
        if activation_error.is_none() {
            if let Err(e) = c.shutdown() {
                shutdown_error = Some(format!("{:?}", e));
            }
        }
    }
    let p = t.peer.borrow();
    Ok(Transcript {
        cfg: cfg.clone(),
        params: params.clone(),
        connect_ok: client.is_some(),
        connect_error: t.error.clone().unwrap_or_default(),
        log: p.srv.log.clone(),
        server_errors: p.srv.errors.clone(),
        server_notes: p.srv.notes.clone(),
        creds: p.srv.creds.clone(),
        raw_before_tls: p.raw_before_tls.clone(),
        raw_after_cc: p.raw_after_cc.clone(),
        plaintext_in: p.plaintext_in.clone(),
        negotiate: p.srv.negotiate.clone(),
        activation_error,
        activations: p.srv.activations_done,
        inputs_sent,
        shutdown_error,
        requested_protocols: p.srv.requested_protocols,
        cr_flags: p.srv.cr_flags,
        handshake_done: p.handshake_done,
    })
}

pub struct Finding {
    pub sig: String,
    pub detail: String,
}

fn f(sig: impl Into<String>, detail: impl Into<String>) -> Finding {
    Finding { sig: sig.into(), detail: detail.into() }
}

fn sdrq<'a>(m: &'a ClientMsg) -> Result<(u16, u16, Vec<u8>), String> {
    let dt = framing::parse_x224_dt(&m.raw)?;
    match mcs::parse_client_domain_pdu(dt)? {
        mcs::DomainPdu::SendDataRequest { initiator, channel, data, .. } => Ok((initiator, channel, data)),
        o => Err(format!("not a send-data request: {:?}", o)),
    }
}

/// C03: mandated order, dependency order, identifiers, success, shutdown
pub fn check_c03(t: &Transcript) -> Option<Finding> {
    if !t.connect_ok {
        return Some(f("conforming-server-refused", format!("connect failed: {} (server saw errors {:?})", t.connect_error, t.server_errors)));
    }
    if let Some(e) = &t.activation_error {
        return Some(f("activation-did-not-complete", e.clone()));
    }
    if !t.server_errors.is_empty() {
        return Some(f("server-could-not-follow-the-client", format!("{:?}", t.server_errors)));
    }
    let hybrid = t.params.selected == 2;
    let mut want: Vec<String> = vec!["connection_request".into()];
    if hybrid {
        want.extend(["cssp_negotiate".to_string(), "cssp_authenticate".into(), "cssp_credentials".into()]);
    }
    want.extend(["connect_initial".to_string(), "erect_domain".into(), "attach_user".into(), "channel_join".into(), "channel_join_2".into(), "client_info".into()]);
    for a in 0..t.params.reactivations + 1 {
        for n in ["confirm_active", "synchronize", "control_cooperate", "control_request", "font_list"] {
            want.push(if a == 0 { n.to_string() } else { format!("{}_{}", n, a + 1) });
        }
    }
    for i in 0..t.inputs_sent {
        want.push(if i == 0 { "active_data".to_string() } else { format!("active_data_{}", i + 1) });
    }
    want.push("disconnect_ultimatum".into());
    let got: Vec<String> = t.log.iter().map(|m| m.name.clone()).collect();
    if got != want {
        let first = got.iter().zip(want.iter()).position(|(a, b)| a != b).unwrap_or(got.len().min(want.len()));
        return Some(f("sequence-out-of-order", format!("message #{}: got {:?}, mandated {:?}\nfull: {:?}", first, got.get(first), want.get(first), got)));
    }
    // dependency order: nothing written while the reply it depends on is unread
    for m in &t.log {
        let base = m.name.trim_end_matches(|c: char| c == '_' || c.is_ascii_digit());
        if matches!(base, "connect_initial" | "erect_domain" | "channel_join" | "client_info" | "confirm_active" | "cssp_negotiate" | "cssp_authenticate" | "cssp_credentials") && m.pending_unread {
            return Some(f("sent-before-the-reply-it-depends-on", format!("{} was written while server bytes were still unread", m.name)));
        }
    }
    // identifiers
    let uid = t.params.user_id;
    let want_proto = 1 | if t.cfg.use_nla { 2 } else { 0 };
    if t.requested_protocols != want_proto {
        return Some(f("wrong-requested-protocols", format!("{:#x} for use_nla={}", t.requested_protocols, t.cfg.use_nla)));
    }
    let mut joins = vec![];
    for m in &t.log {
        let base = m.name.trim_end_matches(|c: char| c == '_' || c.is_ascii_digit()).to_string();
        match base.as_str() {
            "connect_initial" => {
                if let Ok(dt) = framing::parse_x224_dt(&m.raw) {
                    if let Ok(ci) = mcs::parse_connect_initial(dt) {
                        if let Ok(ud) = gcc::parse_conference_create_request(&ci.user_data) {
                            // tolerant: decode the fixed part of CS_CORE by offsets
                            if ud.len() >= 216 && u16::from_le_bytes([ud[0], ud[1]]) == gcc::CS_CORE {
                                let w = u16::from_le_bytes([ud[8], ud[9]]);
                                let h = u16::from_le_bytes([ud[10], ud[11]]);
                                let kbd = u32::from_le_bytes([ud[16], ud[17], ud[18], ud[19]]);
                                let ssp = u32::from_le_bytes([ud[212], ud[213], ud[214], ud[215]]);
                                if (w, h) != (t.cfg.client.width, t.cfg.client.height) {
                                    return Some(f("cs-core-wrong-desktop-size", format!("{}x{} configured {}x{}", w, h, t.cfg.client.width, t.cfg.client.height)));
                                }
                                if kbd != layout_code(t.cfg.client.layout) {
                                    return Some(f("cs-core-wrong-keyboard-layout", format!("{:#x}", kbd)));
                                }
                                if ssp != t.params.selected {
                                    return Some(f("cs-core-wrong-server-selected-protocol", format!("{} but the server selected {}", ssp, t.params.selected)));
                                }
                            }
                        }
                    }
                }
            }
            "channel_join" => match framing::parse_x224_dt(&m.raw).and_then(mcs::parse_client_domain_pdu) {
                Ok(mcs::DomainPdu::ChannelJoinRequest { initiator, channel }) => {
                    if initiator != uid {
                        return Some(f("join-with-wrong-user-id", format!("initiator {} assigned {}", initiator, uid)));
                    }
                    joins.push(channel);
                }
                _ => return Some(f("join-undecodable", m.name.clone())),
            },
            "client_info" | "confirm_active" | "synchronize" | "control_cooperate" | "control_request" | "font_list" | "active_data" => {
                let (init, ch, data) = match sdrq(m) {
                    Ok(x) => x,
                    Err(e) => return Some(f("send-data-undecodable", format!("{}: {}", m.name, e))),
                };
                if init != uid {
                    return Some(f("send-data-with-wrong-user-id", format!("{}: initiator {} assigned {}", m.name, init, uid)));
                }
                if ch != 1003 {
                    return Some(f("send-data-on-wrong-channel", format!("{}: channel {}", m.name, ch)));
                }
                if base != "client_info" && data.len() >= 6 {
                    // tolerant share control decode
                    let src = u16::from_le_bytes([data[4], data[5]]);
                    if src != uid {
                        return Some(f("pdu-source-is-not-the-user-id", format!("{}: PDUSource {} assigned {}", m.name, src, uid)));
                    }
                    if data.len() >= 10 {
                        let sid = u32::from_le_bytes([data[6], data[7], data[8], data[9]]);
                        // activation index from the message name suffix (confirm_active_2 = second activation); inputs belong to the last one
                        let act = if base == "active_data" { t.params.reactivations } else { m.name.rsplit('_').next().and_then(|x| x.parse::<usize>().ok()).map(|n| n - 1).unwrap_or(0) };
                        let want_sid = crate::peer::share_id_of_activation(t.params.share_id, if t.params.reuse_share_id { 0 } else { act });
                        if sid != want_sid {
                            return Some(f("share-id-not-echoed", format!("{}: share id {:#x}, server assigned {:#x} for activation {}", m.name, sid, want_sid, act + 1)));
                        }
                    }
                    let ty = u16::from_le_bytes([data[2], data[3]]);
                    let want_ty = if base == "confirm_active" { share::PDUTYPE_CONFIRMACTIVE } else { share::PDUTYPE_DATA };
                    if ty != want_ty {
                        return Some(f("wrong-pdu-in-sequence", format!("{}: pduType {:#x}", m.name, ty)));
                    }
                    if ty == share::PDUTYPE_DATA && data.len() >= 15 {
                        let t2 = data[14];
                        let want2 = match base.as_str() {
                            "synchronize" => share::PDUTYPE2_SYNCHRONIZE,
                            "control_cooperate" | "control_request" => share::PDUTYPE2_CONTROL,
                            "font_list" => share::PDUTYPE2_FONTLIST,
                            _ => share::PDUTYPE2_INPUT,
                        };
                        if t2 != want2 {
                            return Some(f("wrong-pdu-in-sequence", format!("{}: pduType2 {:#x} expected {:#x}", m.name, t2, want2)));
                        }
                        if t2 == share::PDUTYPE2_CONTROL && data.len() >= 20 {
                            let action = u16::from_le_bytes([data[18], data[19]]);
                            let want_a = if base == "control_cooperate" { share::CTRLACTION_COOPERATE } else { share::CTRLACTION_REQUEST_CONTROL };
                            if action != want_a {
                                return Some(f("wrong-control-action", format!("{}: action {}", m.name, action)));
                            }
                        }
                    }
                }
            }
            "disconnect_ultimatum" => {
                if let Ok(dt) = framing::parse_x224_dt(&m.raw) {
                    if dt.len() < 2 || dt[0] != 0x21 || dt[1] != 0x80 {
                        return Some(f("shutdown-is-not-a-disconnect-provider-ultimatum", format!("{:02x?}", &dt[..dt.len().min(8)])));
                    }
                }
            }
            _ => {}
        }
    }
    joins.sort();
    let mut want_j = vec![1003, uid];
    want_j.sort();
    if joins != want_j {
        return Some(f("joined-channel-set-differs", format!("joined {:?}, expected {:?}", joins, want_j)));
    }
    if t.cfg.restricted_admin != (t.cr_flags & 1 == 1) {
        return Some(f("restricted-admin-flag-mismatch", format!("request flags {:#x} with restricted_admin={}", t.cr_flags, t.cfg.restricted_admin)));
    }
    if let Some(e) = &t.shutdown_error {
        return Some(f("shutdown-failed", e.clone()));
    }
    None
}

/// C04: every emitted PDU under the strict parsers
pub fn check_c04(t: &Transcript) -> Option<Finding> {
    // NTLM/CredSSP strictness is enforced by the reference server itself while it follows the client
    for e in &t.server_errors {
        if e.contains("TSRequest") || e.contains("NTLM") || e.contains("TSCredentials") || e.contains("pubKeyAuth") || e.contains("authInfo") {
            return Some(f(format!("cssp-or-ntlm-token-rejected: {}", e.split(':').next().unwrap_or("")), e.clone()));
        }
    }
    for m in &t.log {
        let base = m.name.trim_end_matches(|c: char| c == '_' || c.is_ascii_digit()).to_string();
        let r: Result<(), String> = (|| match base.as_str() {
            "connection_request" => {
                let cr = framing::parse_x224_cr(&m.raw)?;
                if cr.neg.is_none() {
                    return Err("no RDP_NEG_REQ".into());
                }
                Ok(())
            }
            "cssp_negotiate" => {
                let ts = parse_ts_request(&m.raw)?;
                ntlm::parse_negotiate(ts.nego_tokens.first().ok_or("no negoToken")?)?;
                Ok(())
            }
            "cssp_authenticate" => {
                let ts = parse_ts_request(&m.raw)?;
                ntlm::parse_authenticate(ts.nego_tokens.first().ok_or("no negoToken")?)?;
                Ok(())
            }
            "cssp_credentials" => parse_ts_request(&m.raw).map(|_| ()),
            "connect_initial" => {
                let dt = framing::parse_x224_dt(&m.raw)?;
                let ci = mcs::parse_connect_initial(dt)?;
                let ud = gcc::parse_conference_create_request(&ci.user_data)?;
                let b = gcc::parse_client_blocks(&ud)?;
                // the name the strict parser decodes must be (a prefix of) the configured one
                let cfgname: Vec<u16> = t.cfg.client.name.encode_utf16().collect();
                let got: Vec<u16> = b.core.client_name.encode_utf16().collect();
                // (a configured name containing U+0000 cannot be told from its prefix in a NUL-terminated field: only the
                // sizes and counts are judged then)
                if !t.cfg.client.name.contains('\0') && (got.len() > 15 || cfgname.len() < got.len() || cfgname[..got.len()] != got[..] || (cfgname.len() <= 15 && got.len() != cfgname.len())) {
                    return Err(format!("CS_CORE clientName {:?} is not the configured name {:?} truncated to 15 UTF-16 units", b.core.client_name, t.cfg.client.name));
                }
                if b.security.is_none() || b.net.is_none() {
                    return Err("CS_SECURITY or CS_NET missing".into());
                }
                Ok(())
            }
            "erect_domain" | "attach_user" | "channel_join" | "disconnect_ultimatum" => {
                let dt = framing::parse_x224_dt(&m.raw)?;
                mcs::parse_client_domain_pdu(dt).map(|_| ())
            }
            "client_info" => {
                let (_, _, data) = sdrq(m)?;
                let ci = sec::parse_client_info(&data)?;
                let (d, u, p) = expected_client_info(&t.cfg);
                if ci.domain != d || ci.user != u || ci.password != p {
                    return Err(format!("strings differ from the configuration: domain {:?} user {:?} password {:?}", ci.domain, ci.user, ci.password));
                }
                // TS_EXTENDED_INFO_PACKET exists from RDP 5.0 on: an RDP 4.0 server (0x00080001) reads the packet up to the
                // working directory and finds bytes its fields do not describe; an RDP 5+ server (0x00080004) needs it
                if t.params.version == 0x0008_0001 && ci.extended.is_some() {
                    return Err("info packet for an RDP 4.0 server carries an extended info packet (bytes after the last field)".into());
                }
                if t.params.version == 0x0008_0004 && ci.extended.is_none() {
                    return Err("info packet for an RDP 5 server lacks the extended info packet".into());
                }
                Ok(())
            }
            "confirm_active" => {
                let (_, _, data) = sdrq(m)?;
                let sc = share::parse_share_control(&data)?;
                if sc.pdu_type != share::PDUTYPE_CONFIRMACTIVE {
                    return Err(format!("pduType {:#x}", sc.pdu_type));
                }
                share::parse_confirm_active(&sc.body).map(|_| ())
            }
            "synchronize" | "control_cooperate" | "control_request" | "font_list" | "active_data" => {
                let (_, _, data) = sdrq(m)?;
                let sc = share::parse_share_control(&data)?;
                let sd = share::parse_share_data(&sc.body)?;
                match share::parse_client_data(&sd)? {
                    share::ClientData::Other(t2, _) => Err(format!("unexpected data PDU type {:#x}", t2)),
                    share::ClientData::FontList { number_fonts, total, flags, entry_size } => {
                        if (number_fonts, total, flags, entry_size) != (0, 0, 3, 0x32) {
                            Err(format!("font list fields {:?}", (number_fonts, total, flags, entry_size)))
                        } else {
                            Ok(())
                        }
                    }
                    _ => Ok(()),
                }
            }
            _ => Ok(()),
        })();
        if let Err(e) = r {
            let short: String = e.split(|c: char| c == ':' || c == '"' || c.is_ascii_digit()).next().unwrap_or("").trim().chars().take(48).collect();
            return Some(f(format!("malformed-{}: {}", base, short), format!("{}: {}", m.name, e)));
        }
    }
    None
}

/// (domain, user, password) the Client Info PDU must carry for this configuration
pub fn expected_client_info(c: &ConnCfg) -> (String, String, String) {
    if c.restricted_admin {
        (String::new(), String::new(), String::new())
    } else if c.use_hash {
        (c.client.domain.clone(), c.client.user.clone(), String::new())
    } else {
        (c.client.domain.clone(), c.client.user.clone(), c.client.password.clone())
    }
}

/// C17: secrets leave only where the mode allows
/// the server selected a protocol that was not offered: the client must refuse, and by then no CredSSP message, no
/// Client Info and no password may have left it
/// shortest byte string searched for in ciphertext / random-bearing messages (see check_c17)
const MIN_NEEDLE: usize = 6;

pub fn check_c17_unoffered(t: &Transcript) -> Option<Finding> {
    if t.connect_ok {
        return Some(f("unoffered-selection-accepted", format!("connect succeeded although the server selected {:#x}", t.params.selected)));
    }
    for m in &t.log {
        if m.name.starts_with("cssp_") {
            return Some(f("credssp-started-for-an-unoffered-selection", format!("{} was sent although the selected protocol {:#x} was not offered (use_nla={})", m.name, t.params.selected, t.cfg.use_nla)));
        }
        if m.name == "client_info" {
            return Some(f("client-info-sent-for-an-unoffered-selection", format!("selected {:#x}", t.params.selected)));
        }
    }
    if t.creds.is_some() {
        return Some(f("credssp-started-for-an-unoffered-selection", "credentials were delivered".to_string()));
    }
    if !t.cfg.client.password.is_empty() {
        for n in [t.cfg.client.password.as_bytes().to_vec(), utf16le(&t.cfg.client.password)] {
            if n.len() >= MIN_NEEDLE && (find(&t.raw_before_tls, &n).is_some() || find(&t.raw_after_cc, &n).is_some()) {
                return Some(f("password-on-raw-transport", "password visible on the raw transport".to_string()));
            }
        }
    }
    None
}

/// the password (and the user name) must not be readable in any CredSSP message, even inside TLS: the credentials
/// travel sealed
pub fn check_c17_readable(t: &Transcript) -> Option<Finding> {
    if t.cfg.client.password.is_empty() || t.cfg.use_hash || t.cfg.restricted_admin || t.cfg.blank_creds {
        return None;
    }
    let pw16 = utf16le(&t.cfg.client.password);
    let pw8 = t.cfg.client.password.as_bytes().to_vec();
    for m in &t.log {
        if m.name.starts_with("cssp_") && ((pw16.len() >= MIN_NEEDLE && find(&m.raw, &pw16).is_some()) || (pw8.len() >= MIN_NEEDLE && find(&m.raw, &pw8).is_some())) {
            return Some(f("password-readable-in-a-credssp-message", format!("{} carries the password unsealed", m.name)));
        }
    }
    None
}

pub fn check_c17(t: &Transcript) -> Option<Finding> {
    if let Some(x) = check_c17_readable(t) {
        return Some(x);
    }
    if !t.connect_ok {
        return Some(f("conforming-server-refused", format!("{} {:?}", t.connect_error, t.server_errors)));
    }
    let pw8 = t.cfg.client.password.as_bytes().to_vec();
    let pw16 = utf16le(&t.cfg.client.password);
    // the raw transport carries kilobytes of TLS ciphertext and random nonces: a needle of a few bytes would be found
    // there by chance (and differently in every run); six bytes make that negligible (2^-48 per position)
    let needles: Vec<(&str, Vec<u8>)> = [("utf-8", pw8), ("utf-16", pw16)].into_iter().filter(|(_, n)| n.len() >= MIN_NEEDLE).collect();
    // raw transport
    for (enc, n) in &needles {
        if find(&t.raw_before_tls, n).is_some() || find(&t.raw_after_cc, n).is_some() {
            return Some(f("password-on-raw-transport", format!("password ({}) visible on the raw transport", enc)));
        }
    }
    // NTLM tokens
    for m in &t.log {
        if m.name == "cssp_negotiate" || m.name == "cssp_authenticate" {
            if !m.inside_tls {
                return Some(f("ntlm-token-outside-tls", m.name.clone()));
            }
            if let Ok(ts) = parse_ts_request(&m.raw) {
                for tok in &ts.nego_tokens {
                    for (enc, n) in &needles {
                        if find(tok, n).is_some() {
                            return Some(f("password-inside-ntlm-token", format!("{} contains the password ({})", m.name, enc)));
                        }
                    }
                }
            }
        }
        if (m.name == "client_info" || m.name == "cssp_credentials") && !m.inside_tls {
            return Some(f("credentials-outside-tls", m.name.clone()));
        }
    }
    // negotiation request announces restricted admin
    if t.cfg.restricted_admin != (t.cr_flags & 1 == 1) {
        return Some(f("restricted-admin-not-announced", format!("RDP_NEG_REQ flags {:#x} with restricted_admin={} use_nla={}", t.cr_flags, t.cfg.restricted_admin, t.cfg.use_nla)));
    }
    // CredSSP credentials
    let hybrid = t.params.selected == 2;
    if hybrid {
        let (d, u, p) = match &t.creds {
            Some(c) => c.clone(),
            None => return Some(f("no-credentials-received", format!("{:?}", t.server_errors))),
        };
        let empty = t.cfg.restricted_admin || t.cfg.blank_creds;
        let (wd, wu, wp) = if empty {
            (vec![], vec![], vec![])
        } else {
            (utf16le(&t.cfg.client.domain), utf16le(&t.cfg.client.user), if t.cfg.use_hash { vec![] } else { utf16le(&t.cfg.client.password) })
        };
        // in an OEM session (CHALLENGE without NEGOTIATE_UNICODE) the client spells the same strings in the OEM
        // character set; which spelling TSPasswordCreds takes then is not this property's matter
        let oem = t.params.ntlm.flags & vref::ntlm::F_UNICODE == 0;
        let oem_want = if empty { (vec![], vec![], vec![]) } else { (t.cfg.client.domain.as_bytes().to_vec(), t.cfg.client.user.as_bytes().to_vec(), if t.cfg.use_hash { vec![] } else { t.cfg.client.password.as_bytes().to_vec() }) };
        if (d.clone(), u.clone(), p.clone()) != (wd, wu, wp) && !(oem && (d.clone(), u.clone(), p.clone()) == oem_want) {
            return Some(f(
                "credssp-credentials-differ-from-mode",
                format!("TSPasswordCreds domain {} user {} password {} bytes for restricted_admin={} blank_creds={} use_hash={}", d.len(), u.len(), p.len(), t.cfg.restricted_admin, t.cfg.blank_creds, t.cfg.use_hash),
            ));
        }
    } else if t.creds.is_some() {
        return Some(f("credssp-without-hybrid", "credentials sent although NLA was not selected".to_string()));
    }
    // Client Info
    let ci = t.log.iter().find(|m| m.name == "client_info");
    let ci = match ci {
        Some(m) => m,
        None => return Some(f("no-client-info", "".to_string())),
    };
    let data = match sdrq(ci) {
        Ok((_, _, d)) => d,
        Err(e) => return Some(f("client-info-undecodable", e)),
    };
    // tolerant decode (strictness is C04): cb fields then strings
    if data.len() < 22 {
        return Some(f("client-info-undecodable", "short".to_string()));
    }
    let flags = u32::from_le_bytes([data[8], data[9], data[10], data[11]]);
    let cb = |i: usize| u16::from_le_bytes([data[12 + 2 * i], data[13 + 2 * i]]) as usize;
    let (cbd, cbu, cbp) = (cb(0), cb(1), cb(2));
    let mut off = 22;
    let mut take = |n: usize| -> Vec<u8> {
        let s = data.get(off..off + n).map(|s| s.to_vec()).unwrap_or_default();
        off += n + 2;
        s
    };
    let d = take(cbd);
    let u = take(cbu);
    let p = take(cbp);
    let (wd, wu, wp) = expected_client_info(&t.cfg);
    if d != utf16le(&wd) || u != utf16le(&wu) || p != utf16le(&wp) {
        return Some(f("client-info-differs-from-mode", format!("domain {} user {} password {} bytes for restricted_admin={} blank_creds={} use_hash={}", d.len(), u.len(), p.len(), t.cfg.restricted_admin, t.cfg.blank_creds, t.cfg.use_hash)));
    }
    if (flags & sec::INFO_AUTOLOGON != 0) != t.cfg.client.auto_logon {
        return Some(f("auto-logon-flag-mismatch", format!("flags {:#x} auto_logon requested {}", flags, t.cfg.client.auto_logon)));
    }
    // the password appears in the decrypted stream only inside those two messages
    if let Some((_, n)) = needles.iter().find(|(e, _)| *e == "utf-16") {
        let mut count = 0;
        let mut p = 0;
        while let Some(i) = find(&t.plaintext_in[p..], n) {
            count += 1;
            p += i + n.len();
        }
        let allowed = if t.cfg.restricted_admin || t.cfg.use_hash { 0 } else { 1 };
        // CredSSP credentials are sealed (never visible in the TLS plaintext); Client Info carries it once
        if count > allowed {
            return Some(f("password-in-unexpected-message", format!("password appears {} times in the decrypted stream, at most {} expected", count, allowed)));
        }
    }
    None
}
