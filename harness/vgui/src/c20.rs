//! C20 — the GUI receive thread keeps up with the server and stops with the session.
//!
//! Stateless model checking of the REAL `launch_rdp_thread` / `wait_for_fd` bodies (derived module with
//! six import lines rewritten to shuttle, DESIGN §2.6) on shuttle's runtime with our own
//! preemption-bounded DFS scheduler. The client is a real `RdpClient` connected through real OpenSSL
//! (SSL-only configuration), so record buffering is the library's. The descriptor and TCP segmentation
//! are modelled: bytes pushed by the environment task become readable; `select` blocks while nothing
//! is queued.

use crate::mstsc_shuttle::verif_export::launch;
use rdp::core::event::{BitmapEvent, PointerButton, PointerEvent, RdpEvent};
use serde::Serialize;
use serde_json::{json, Value};
use shuttle::scheduler::{Schedule, Scheduler, Task, TaskId};
use shuttle::sync::atomic::{AtomicBool, Ordering};
use shuttle::sync::mpsc::{channel, Receiver};
use shuttle::sync::{Arc, Condvar, Mutex};
use shuttle::thread;
use std::cell::RefCell;
use std::collections::{BTreeSet, VecDeque};
use std::io::{self, Read, Write};
use std::rc::Rc;
use vcheck::memlink::MemLink;
use vcheck::peer::ServerParams;
use vcheck::runner::{Outcome, Prop, Tier};
use vcheck::tls::{connector, Cert, ConnCfg, TlsPeer};
use vref::fastpath::{self, Rect, Update};
use vref::{framing, mcs};

const FD: usize = 7;
const HORIZON: u32 = 3;

// ------------------------------------------------------------------ scripts

#[derive(Clone, Copy, Debug, Serialize, PartialEq)]
pub enum Packing {
    OnePerRecord,
    TwoThenOne,
    ThreeInOne,
    PduAcrossTwoRecords,
    RecordAcrossTwoSegments,
    OnePerRecordWithPauses,
    /// PDUs without any update ride along: an empty short-form fast-path PDU (00 02) after the first bitmap PDU in
    /// the same record, an empty long-form one (00 80 03) in front of the third
    EmptyPdusInside,
    /// one PDU per record, but the second bitmap PDU carries exactly 16384 bytes behind its 3-byte header (two-byte length
    /// form with bit 14 set; it spans two TLS records)
    BigSecondPdu,
    /// after the first bitmap PDU the server re-activates the session: deactivate-all + demand-active in ONE record,
    /// then its four finalization PDUs and the second bitmap PDU in ONE record, then the third bitmap PDU. The receive thread
    /// itself runs the activation; nothing may stay in the TLS layer on the way
    ReactivationPacked,
    /// a PDU cut across two records whose second record ALSO carries the whole next PDU (pairs: head of a | tail of a + b)
    TailWithNext,
    /// a bitmap PDU whose first fast-path update is one the client does not decode (pointer position) and whose second
    /// update is the bitmap; one PDU per record
    UndecodableUpdateFirst,
}

#[derive(Clone, Copy, Debug, Serialize, PartialEq)]
pub enum End {
    None,
    DisconnectUltimatum,
    CloseNotify,
    AbruptClose,
    UndecodableRdpKind,
    /// a well-formed send-data indication on the MCS user channel (joined, but not served by this client): the read
    /// reports it as unusable, which ends the thread like any undecodable PDU
    DataOnTheUserChannel,
    UndecodableIoKind,
    /// a header-only TPKT frame (03 00 00 04): no X.224 header can be decoded from its empty payload
    UndecodableEmptyFrame,
}

#[derive(Clone, Copy, Debug, Serialize)]
pub struct Script {
    pub packing: Packing,
    pub end: End,
    /// number of bitmap PDUs sent before the end event
    pub end_after: usize,
    /// bitmap PDU 0 is already decrypted inside the client's TLS layer when the receive thread starts: it rode in
    /// the TLS record of the last PDU that was read before the thread was launched (connection / activation)
    pub preloaded: bool,
    /// the session runs over NLA (PROTOCOL_HYBRID) instead of TLS only
    pub nla: bool,
    /// the session-ending PDU shares the TLS record of the last bitmap PDU(s)
    pub end_in_last_record: bool,
    /// a further bitmap PDU (number 99) follows the session-ending PDU in the same TLS record: the session is over all
    /// the same, the thread must stop (whether that PDU is still forwarded is not judged)
    pub after_end: bool,
}

pub fn scripts() -> Vec<Script> {
    let mut v = vec![];
    for packing in [Packing::OnePerRecord, Packing::TwoThenOne, Packing::ThreeInOne, Packing::PduAcrossTwoRecords, Packing::RecordAcrossTwoSegments, Packing::OnePerRecordWithPauses, Packing::EmptyPdusInside, Packing::BigSecondPdu, Packing::ReactivationPacked] {
        v.push(Script { packing, end: End::None, end_after: 3, preloaded: false, nla: false, end_in_last_record: false, after_end: false });
        for end in [End::DisconnectUltimatum, End::CloseNotify, End::AbruptClose, End::UndecodableRdpKind, End::UndecodableIoKind, End::UndecodableEmptyFrame, End::DataOnTheUserChannel] {
            for end_after in 0..=3 {
                v.push(Script { packing, end, end_after, preloaded: false, nla: false, end_in_last_record: false, after_end: false });
            }
        }
    }
    // a PDU left in the TLS layer by whoever read last before the thread was started
    for packing in [Packing::OnePerRecord, Packing::TwoThenOne, Packing::PduAcrossTwoRecords] {
        v.push(Script { packing, end: End::None, end_after: 3, preloaded: true, nla: false, end_in_last_record: false, after_end: false });
        v.push(Script { packing, end: End::None, end_after: 1, preloaded: true, nla: false, end_in_last_record: false, after_end: false });
        for end in [End::DisconnectUltimatum, End::AbruptClose, End::CloseNotify] {
            v.push(Script { packing, end, end_after: 2, preloaded: true, nla: false, end_in_last_record: false, after_end: false });
            v.push(Script { packing, end, end_after: 1, preloaded: true, nla: false, end_in_last_record: false, after_end: false });
        }
    }
    // NLA sessions (the pending-data query goes through another protocol branch of the X.224 layer)
    for packing in [Packing::OnePerRecord, Packing::TwoThenOne, Packing::ThreeInOne] {
        v.push(Script { packing, end: End::None, end_after: 3, preloaded: false, nla: true, end_in_last_record: false, after_end: false });
        v.push(Script { packing, end: End::DisconnectUltimatum, end_after: 2, preloaded: false, nla: true, end_in_last_record: false, after_end: false });
        v.push(Script { packing, end: End::CloseNotify, end_after: 2, preloaded: false, nla: true, end_in_last_record: false, after_end: false });
    }
    // the PDU that ends the session rides in the record of the last bitmap PDU(s)
    for packing in [Packing::OnePerRecord, Packing::TwoThenOne, Packing::ThreeInOne] {
        for end in [End::DisconnectUltimatum, End::UndecodableRdpKind, End::UndecodableIoKind, End::UndecodableEmptyFrame] {
            for end_after in [1usize, 2, 3] {
                v.push(Script { packing, end, end_after, preloaded: false, nla: false, end_in_last_record: true, after_end: false });
            }
        }
    }
    // long runs, explored without preemption (bound 0): 40 PDUs in ONE record followed by silence; 1500 records queued
    // one behind the other, with and without a final ultimatum
    v.push(Script { packing: Packing::ThreeInOne, end: End::None, end_after: 40, preloaded: false, nla: false, end_in_last_record: false, after_end: false });
    v.push(Script { packing: Packing::ThreeInOne, end: End::DisconnectUltimatum, end_after: 300, preloaded: false, nla: false, end_in_last_record: false, after_end: false });
    v.push(Script { packing: Packing::OnePerRecord, end: End::DisconnectUltimatum, end_after: 1500, preloaded: false, nla: false, end_in_last_record: false, after_end: false });
    v.push(Script { packing: Packing::TwoThenOne, end: End::None, end_after: 700, preloaded: false, nla: false, end_in_last_record: false, after_end: false });
    // something still follows the session-ending PDU in its TLS record
    for packing in [Packing::OnePerRecord, Packing::TwoThenOne] {
        for end in [End::DisconnectUltimatum, End::UndecodableRdpKind, End::UndecodableIoKind, End::UndecodableEmptyFrame] {
            for (end_after, end_in_last_record) in [(0usize, false), (2, false), (2, true)] {
                v.push(Script { packing, end, end_after, preloaded: false, nla: false, end_in_last_record, after_end: true });
            }
        }
    }
    // (appended: the indices of the scripts above stay what they were)
    for packing in [Packing::TailWithNext, Packing::UndecodableUpdateFirst] {
        v.push(Script { packing, end: End::None, end_after: 3, preloaded: false, nla: false, end_in_last_record: false, after_end: false });
        v.push(Script { packing, end: End::None, end_after: 2, preloaded: false, nla: false, end_in_last_record: false, after_end: false });
        for end in [End::DisconnectUltimatum, End::CloseNotify, End::AbruptClose] {
            v.push(Script { packing, end, end_after: 2, preloaded: false, nla: false, end_in_last_record: false, after_end: false });
            v.push(Script { packing, end, end_after: 3, preloaded: false, nla: false, end_in_last_record: false, after_end: false });
        }
    }
    v
}

#[derive(Clone, Debug)]
enum EnvAction {
    /// raw bytes become readable on the descriptor; `pdus_done`: bitmap PDUs completely contained so far
    Push(Vec<u8>),
    Yield,
    Close,
}

/// a pointer-position update (not decoded by the client) in front of the bitmap update of `bitmap_pdu(seq)`, and a
/// synchronize update behind it
fn two_update_pdu(seq: u16) -> Vec<u8> {
    let r = Rect { left: seq, top: 0, right: seq + 1, bottom: 0, width: 2, height: 1, bpp: 16, flags: 0, data: vec![seq as u8, 1, 2, 3] };
    framing::fastpath(0, &fastpath::updates_payload(&[fastpath::other_update(fastpath::UPD_PTR_POSITION), Update::Bitmap(vec![r]), fastpath::other_update(fastpath::UPD_SYNCHRONIZE)]), false)
}

fn bitmap_pdu(seq: u16) -> Vec<u8> {
    let r = Rect { left: seq, top: 0, right: seq + 1, bottom: 0, width: 2, height: 1, bpp: 16, flags: 0, data: vec![seq as u8, 1, 2, 3] };
    framing::fastpath(0, &fastpath::updates_payload(&[Update::Bitmap(vec![r])]), false)
}

fn big_bitmap_pdu(seq: u16) -> Vec<u8> {
    // sized so that what follows the 3-byte fast-path header is exactly 16384 bytes (a power of two, and a multiple of
    // every plausible internal block size): 8192 pixels of 16 bpp in a 128 x 64 rectangle, plus the update headers
    let mut n = 16384usize;
    loop {
        let r = Rect { left: seq, top: 0, right: seq + 127, bottom: 63, width: 128, height: 64, bpp: 16, flags: 0, data: (0..n as u32).map(|i| (i * 7 + seq as u32) as u8).collect() };
        let f = framing::fastpath(0, &fastpath::updates_payload(&[Update::Bitmap(vec![r])]), true);
        if f.len() == 16384 + 3 {
            return f;
        }
        n = n + 16384 + 3 - f.len();
    }
}

// ------------------------------------------------------------------ per-execution context

struct State {
    to_client: VecDeque<u8>,
    delivered: usize,
    closed: bool,
    /// (raw offset where a TLS record ends, number of bitmap PDUs complete once that record is consumed)
    record_ends: Vec<(usize, usize)>,
    /// raw offset at which the bytes of a non-close end event end
    end_offset: Option<usize>,
    events: Vec<u16>,
    selects_on_dead: u32,
    teardown: bool,
    violations: Vec<(String, String)>,
    env_pos: usize,
    gui_pos: usize,
    r_blocked: bool,
    r_blocked_in_read: bool,
    r_timed_out: bool,
    /// reads answered with end-of-stream so far (a loop that keeps reading a closed stream never ends)
    eof_reads: u32,
}

struct Ctx {
    lock: Mutex<()>,
    cv: Condvar,
    st: RefCell<State>,
    rx: RefCell<Option<Receiver<BitmapEvent>>>,
    sync: RefCell<Option<Arc<AtomicBool>>>,
}

thread_local! {
    static CTX: RefCell<Option<Rc<Ctx>>> = RefCell::new(None);
}

fn ctx() -> Rc<Ctx> {
    CTX.with(|c| c.borrow().clone().expect("no execution context"))
}

fn violation(st: &mut State, sig: &str, detail: String) {
    if !st.violations.iter().any(|v| v.0 == sig) {
        st.violations.push((sig.to_string(), detail));
    }
}

/// drain the bitmap channel into the event list (never holds the state borrow across the channel operation)
fn drain(c: &Ctx) {
    let mut got = vec![];
    if let Some(rx) = c.rx.borrow().as_ref() {
        while let Ok(b) = rx.try_recv() {
            got.push(b.dest_left);
        }
    }
    c.st.borrow_mut().events.extend(got);
}

/// the modelled `select(2)` on the client's descriptor: returns 1 when readable
pub fn model_select(fd: i32, has_timeout: bool) -> i32 {
    let c = ctx();
    assert_eq!(fd as usize, FD, "select on an unexpected descriptor");
    let mut g = c.lock.lock().unwrap();
    loop {
        drain(&c);
        {
            let mut stop = false;
            let mut st = c.st.borrow_mut();
            st.r_blocked = false;
            if st.teardown {
                return 1;
            }
            let readable = !st.to_client.is_empty() || st.closed;
            if readable {
                if st.closed && st.to_client.is_empty() {
                    st.selects_on_dead += 1;
                    if st.selects_on_dead > HORIZON {
                        let n = st.selects_on_dead;
                        violation(&mut st, "spins-on-a-dead-descriptor", format!("the receive thread came back to select {} times after the connection was closed instead of stopping", n));
                        st.teardown = true;
                        stop = true;
                    }
                }
                drop(st);
                if stop {
                    if let Some(s) = c.sync.borrow().as_ref() {
                        s.store(false, Ordering::SeqCst);
                    }
                }
                return 1;
            }
            // about to block: the descriptor is not readable
            let consumed = st.delivered;
            let k = st.record_ends.iter().filter(|(end, _)| *end <= consumed).map(|(_, n)| *n).max().unwrap_or(0);
            if st.events.len() < k {
                let have = st.events.len();
                violation(&mut st, "stall-pdu-buffered-in-tls-layer-not-dispatched", format!("the thread blocks in select although {} complete PDU(s) have been consumed from the socket and only {} dispatched: it now waits for further server traffic", k, have));
            }
            if let Some(off) = st.end_offset {
                if consumed >= off {
                    violation(&mut st, "did-not-stop-after-session-ending-pdu", "the thread went back to wait for traffic after the PDU that ends the session had been consumed".to_string());
                    st.teardown = true;
                    drop(st);
                    if let Some(s) = c.sync.borrow().as_ref() {
                        s.store(false, Ordering::SeqCst);
                    }
                    return 1;
                }
            }
            if has_timeout {
                // a bounded wait on a quiet (but live) session: the timeout may always fire first
                st.r_timed_out = true;
                drop(st);
                c.cv.notify_all();
                return 0;
            }
            st.r_blocked = true;
        }
        c.cv.notify_all();
        g = c.cv.wait(g).unwrap();
    }
}

// ------------------------------------------------------------------ the link

#[derive(Clone)]
pub struct SchedLink {
    setup: MemLink,
    scheduled: Rc<RefCell<bool>>,
}

// SAFETY: shuttle runs every task of an execution as a coroutine on the single OS thread that called
// `Runner::run`; the link never crosses OS threads.
unsafe impl Send for SchedLink {}

impl Read for SchedLink {
    fn read(&mut self, buf: &mut [u8]) -> io::Result<usize> {
        if !*self.scheduled.borrow() {
            return self.setup.read(buf);
        }
        let c = ctx();
        // bytes already queued are taken without a scheduling point: the environment only appends, and an
        // append commutes with taking earlier bytes (partial-order reduction); only waiting is visible
        {
            let mut st = c.st.borrow_mut();
            if !st.to_client.is_empty() {
                let n = buf.len().min(st.to_client.len());
                for b in buf.iter_mut().take(n) {
                    *b = st.to_client.pop_front().unwrap();
                }
                st.delivered += n;
                return Ok(n);
            }
        }
        let mut g = c.lock.lock().unwrap();
        loop {
            {
                let mut st = c.st.borrow_mut();
                if !st.to_client.is_empty() {
                    let n = buf.len().min(st.to_client.len());
                    for b in buf.iter_mut().take(n) {
                        *b = st.to_client.pop_front().unwrap();
                    }
                    st.delivered += n;
                    return Ok(n);
                }
                if st.closed || st.teardown {
                    st.eof_reads += 1;
                    if st.eof_reads > 256 {
                        // the same end-of-stream answer 256 times in one execution: the reader loops on a dead stream
                        // (no scheduling point in that loop: it would never return)
                        violation(&mut st, "spins-reading-a-closed-stream", "a read loop keeps asking a stream that answered end-of-stream 256 times instead of failing: the thread never stops".to_string());
                        drop(st);
                        panic!("VERIF-SPIN: read loop on a closed stream");
                    }
                    return Ok(0);
                }
                // about to block inside a read: legitimate only while a PDU is partly received
                if let Some(off) = st.end_offset {
                    if st.delivered >= off {
                        violation(&mut st, "did-not-stop-after-session-ending-pdu", "the thread reads on (blocking, holding the client) after the PDU that ends the session had been consumed".to_string());
                        st.teardown = true;
                        drop(st);
                        if let Some(s) = c.sync.borrow().as_ref() {
                            s.store(false, Ordering::SeqCst);
                        }
                        return Ok(0);
                    }
                }
                st.r_blocked_in_read = true;
            }
            c.cv.notify_all();
            g = c.cv.wait(g).unwrap();
            c.st.borrow_mut().r_blocked_in_read = false;
        }
    }
}

impl Write for SchedLink {
    fn write(&mut self, buf: &[u8]) -> io::Result<usize> {
        if !*self.scheduled.borrow() {
            return self.setup.write(buf);
        }
        // client-to-server bytes (input PDUs) are not part of this property
        Ok(buf.len())
    }
    fn flush(&mut self) -> io::Result<()> {
        Ok(())
    }
}

// ------------------------------------------------------------------ preemption-bounded DFS scheduler

#[derive(Clone, Debug)]
struct Node {
    chosen: usize,
    n: usize,
    cost_before: u32,
    cur_enabled: bool,
}

pub struct PbDfs {
    bound: u32,
    path: Vec<Node>,
    step: usize,
    started: bool,
    done: bool,
    fixed: Option<Vec<usize>>,
    pub schedules: u64,
    pub points: u64,
    pub max_preemptions_used: u32,
    pub divergence: Option<String>,
    pub states: BTreeSet<u64>,
    pub transitions: BTreeSet<(u64, usize)>,
    pub r_preempted_between_select_and_lock: u64,
}

impl PbDfs {
    pub fn new(bound: u32) -> PbDfs {
        PbDfs { bound, path: vec![], step: 0, started: false, done: false, fixed: None, schedules: 0, points: 0, max_preemptions_used: 0, divergence: None, states: BTreeSet::new(), transitions: BTreeSet::new(), r_preempted_between_select_and_lock: 0 }
    }
    pub fn replay(choices: Vec<usize>) -> PbDfs {
        let mut p = PbDfs::new(u32::MAX);
        p.fixed = Some(choices);
        p
    }
    pub fn current_choices(&self) -> Vec<usize> {
        self.path.iter().map(|n| n.chosen).collect()
    }
    fn cost(n: &Node, alt: usize) -> u32 {
        n.cost_before + if alt != 0 && n.cur_enabled { 1 } else { 0 }
    }
    /// move to the next unexplored schedule within the bound; false when the space is exhausted
    fn advance(&mut self) -> bool {
        while let Some(last) = self.path.last().cloned() {
            let mut alt = last.chosen + 1;
            while alt < last.n && Self::cost(&last, alt) > self.bound {
                alt += 1;
            }
            if alt < last.n {
                self.path.last_mut().unwrap().chosen = alt;
                return true;
            }
            self.path.pop();
        }
        false
    }
}

fn abstract_state(runnable: &[usize], current: Option<usize>) -> u64 {
    let mut h: u64 = 0xcbf29ce484222325;
    let mut mix = |v: u64| {
        h ^= v;
        h = h.wrapping_mul(0x100000001b3);
    };
    for r in runnable {
        mix(*r as u64 + 1);
    }
    mix(0xFFFF);
    mix(current.map(|c| c as u64 + 1).unwrap_or(0));
    CTX.with(|c| {
        if let Some(c) = c.borrow().as_ref() {
            if let Ok(st) = c.st.try_borrow() {
                mix(st.to_client.len() as u64);
                mix(st.delivered as u64);
                mix(st.closed as u64);
                mix(st.events.len() as u64);
                mix(st.selects_on_dead as u64);
                mix(st.env_pos as u64);
                mix(st.gui_pos as u64);
                mix(st.r_blocked as u64);
                mix(st.teardown as u64);
            }
        }
    });
    h
}

pub struct PbHandle(pub std::sync::Arc<std::sync::Mutex<PbDfs>>);

impl Scheduler for PbHandle {
    fn new_execution(&mut self) -> Option<Schedule> {
        let mut s = self.0.lock().unwrap();
        if s.done {
            return None;
        }
        if let Some(_) = &s.fixed {
            if s.started {
                return None;
            }
        } else if s.started {
            if !s.advance() {
                s.done = true;
                return None;
            }
        }
        s.started = true;
        s.step = 0;
        s.schedules += 1;
        Some(Schedule::new(0))
    }

    fn next_task(&mut self, runnable: &[&Task], current: Option<TaskId>, is_yielding: bool) -> Option<TaskId> {
        let mut s = self.0.lock().unwrap();
        let ids: Vec<usize> = {
            let mut v: Vec<usize> = runnable.iter().map(|t| usize::from(t.id())).collect();
            v.sort();
            v
        };
        let cur = current.map(usize::from);
        let cur_enabled = !is_yielding && cur.map(|c| ids.contains(&c)).unwrap_or(false);
        // canonical order: the running task first if it can continue, then ascending ids (a yielding task goes last)
        let mut order: Vec<usize> = vec![];
        if cur_enabled {
            order.push(cur.unwrap());
        }
        for i in &ids {
            if Some(*i) != cur {
                order.push(*i);
            }
        }
        if !cur_enabled {
            if let Some(c) = cur {
                if ids.contains(&c) {
                    order.push(c);
                }
            }
        }
        s.points += 1;
        let step = s.step;
        s.step += 1;
        let chosen = if let Some(f) = &s.fixed {
            let c = f.get(step).copied().unwrap_or(0);
            if c >= order.len() {
                s.divergence = Some(format!("replay: choice {} at step {} but only {} tasks enabled", c, step, order.len()));
                0
            } else {
                c
            }
        } else if step < s.path.len() {
            if s.path[step].n != order.len() {
                s.divergence = Some(format!("step {}: {} enabled tasks, {} when this prefix was first executed", step, order.len(), s.path[step].n));
                s.path[step].n = order.len();
                if s.path[step].chosen >= order.len() {
                    s.path[step].chosen = 0;
                }
            }
            s.path[step].chosen
        } else {
            let cost_before = s.path.last().map(|n| PbDfs::cost(n, n.chosen)).unwrap_or(0);
            s.path.push(Node { chosen: 0, n: order.len(), cost_before, cur_enabled });
            0
        };
        if let Some(n) = s.path.get(step) {
            let used = PbDfs::cost(n, n.chosen);
            if used > s.max_preemptions_used && used != u32::MAX {
                s.max_preemptions_used = used;
            }
        }
        let h = abstract_state(&ids, cur);
        s.states.insert(h);
        s.transitions.insert((h, order[chosen]));
        Some(TaskId::from(order[chosen]))
    }

    fn next_u64(&mut self) -> u64 {
        0
    }
}

// ------------------------------------------------------------------ one execution

#[derive(Default, Clone)]
pub struct ExecResult {
    pub violations: Vec<(String, String)>,
    pub setup_error: Option<String>,
}

thread_local! {
    static RESULT: RefCell<ExecResult> = RefCell::new(ExecResult::default());
}

fn build_actions(script: &Script, peer: &mut TlsPeer, st: &mut State) -> Vec<EnvAction> {
    let mut actions = vec![];
    let mut raw_off = 0usize;
    let mut pdus_done = 0usize;
    let first = if script.preloaded { 1 } else { 0 };
    if script.preloaded {
        // already consumed from the socket: complete before any byte of the scheduled phase
        pdus_done = 1;
        st.record_ends.push((0, 1));
    }
    let mut pdus: Vec<Vec<u8>> = (first..script.end_after as u16).map(|seq| if script.packing == Packing::BigSecondPdu && seq == 1 { big_bitmap_pdu(seq) } else if script.packing == Packing::UndecodableUpdateFirst { two_update_pdu(seq) } else { bitmap_pdu(seq) }).collect();
    let end_plain: Option<Vec<u8>> = match script.end {
        End::DisconnectUltimatum => Some(framing::tpkt(&framing::x224_dt(&mcs::disconnect_provider_ultimatum(3)))),
        End::UndecodableRdpKind => Some(framing::tpkt(&framing::x224_dt(&[0x00, 0x00, 0x00]))),
        End::DataOnTheUserChannel => Some(framing::tpkt(&framing::x224_dt(&mcs::send_data_indication(1002, 1007, &[0x11, 0x22, 0x33, 0x44])))),
        End::UndecodableIoKind => Some(framing::tpkt(&framing::x224_dt(&[26 << 2]))),
        End::UndecodableEmptyFrame => Some(vec![0x03, 0x00, 0x00, 0x04]),
        _ => None,
    };
    let end_plain: Option<Vec<u8>> = match (end_plain, script.after_end) {
        (Some(e), true) => Some([e, bitmap_pdu(99)].concat()),
        (e, _) => e,
    };
    let ride = script.end_in_last_record && end_plain.is_some() && !pdus.is_empty();
    if ride {
        // glue the session-ending PDU to the last bitmap PDU: they then always travel in the same record
        let e = end_plain.clone().unwrap();
        pdus.last_mut().unwrap().extend(e);
    }
    let mut push_record = |plain: &[u8], completes: usize, split_segment: bool, actions: &mut Vec<EnvAction>, st: &mut State, raw_off: &mut usize, pdus_done: &mut usize| {
        let rec = peer.encrypt(plain);
        *raw_off += rec.len();
        *pdus_done += completes;
        st.record_ends.push((*raw_off, *pdus_done));
        if split_segment && rec.len() > 8 {
            let cut = rec.len() / 2;
            actions.push(EnvAction::Push(rec[..cut].to_vec()));
            actions.push(EnvAction::Push(rec[cut..].to_vec()));
        } else {
            actions.push(EnvAction::Push(rec));
        }
    };
    match script.packing {
        Packing::OnePerRecord | Packing::OnePerRecordWithPauses | Packing::RecordAcrossTwoSegments | Packing::BigSecondPdu => {
            for p in &pdus {
                push_record(p, 1, script.packing == Packing::RecordAcrossTwoSegments, &mut actions, st, &mut raw_off, &mut pdus_done);
                // one pause (voluntary yield of the sender) after the first record
                if script.packing == Packing::OnePerRecordWithPauses && actions.len() == 1 {
                    actions.push(EnvAction::Yield);
                }
            }
        }
        Packing::ReactivationPacked => {
            use vref::share;
            let sdi = |d: &[u8]| framing::tpkt(&framing::x224_dt(&mcs::send_data_indication(1002, 1003, d)));
            let (old_sid, new_sid, uid) = (0x0001_03EAu32, 0x0002_03EAu32, 1007u16);
            for (i, p) in pdus.iter().enumerate() {
                if i == 1 {
                    // rode in the record of the finalization PDUs
                    continue;
                }
                push_record(p, 1, false, &mut actions, st, &mut raw_off, &mut pdus_done);
                if i == 0 {
                    let r1 = [sdi(&share::deactivate_all(old_sid, 1002)), sdi(&share::demand_active(new_sid, 1002, b"RDP\0", &share::minimal_caps(), 0))].concat();
                    push_record(&r1, 0, false, &mut actions, st, &mut raw_off, &mut pdus_done);
                    let r2 = [
                        sdi(&share::synchronize(new_sid, 1002, uid)),
                        sdi(&share::control(new_sid, 1002, share::CTRLACTION_COOPERATE, 0, 0)),
                        sdi(&share::control(new_sid, 1002, share::CTRLACTION_GRANTED_CONTROL, uid, 0x03EA)),
                        sdi(&share::font_map(new_sid, 1002)),
                    ]
                    .concat();
                    // the second bitmap PDU (if the script has one) follows the font map in the same record
                    match pdus.get(1) {
                        Some(b) => push_record(&[r2, b.clone()].concat(), 1, false, &mut actions, st, &mut raw_off, &mut pdus_done),
                        None => push_record(&r2, 0, false, &mut actions, st, &mut raw_off, &mut pdus_done),
                    }
                }
            }
        }
        Packing::TwoThenOne => {
            let mut i = 0;
            while i < pdus.len() {
                if i + 1 < pdus.len() {
                    let both = [pdus[i].clone(), pdus[i + 1].clone()].concat();
                    push_record(&both, 2, false, &mut actions, st, &mut raw_off, &mut pdus_done);
                    i += 2;
                } else {
                    push_record(&pdus[i], 1, false, &mut actions, st, &mut raw_off, &mut pdus_done);
                    i += 1;
                }
            }
        }
        Packing::ThreeInOne => {
            if !pdus.is_empty() {
                let all = pdus.concat();
                push_record(&all, pdus.len(), false, &mut actions, st, &mut raw_off, &mut pdus_done);
            }
        }
        Packing::EmptyPdusInside => {
            for (i, p) in pdus.iter().enumerate() {
                let plain = match i {
                    0 => [p.clone(), vec![0x00, 0x02]].concat(),
                    2 => [vec![0x00, 0x80, 0x03], p.clone()].concat(),
                    _ => p.clone(),
                };
                push_record(&plain, 1, false, &mut actions, st, &mut raw_off, &mut pdus_done);
            }
        }
        Packing::TailWithNext => {
            let mut i = 0;
            while i < pdus.len() {
                if i + 1 < pdus.len() {
                    let cut = pdus[i].len() / 2;
                    push_record(&pdus[i][..cut], 0, false, &mut actions, st, &mut raw_off, &mut pdus_done);
                    push_record(&[pdus[i][cut..].to_vec(), pdus[i + 1].clone()].concat(), 2, false, &mut actions, st, &mut raw_off, &mut pdus_done);
                    i += 2;
                } else {
                    push_record(&pdus[i], 1, false, &mut actions, st, &mut raw_off, &mut pdus_done);
                    i += 1;
                }
            }
        }
        Packing::UndecodableUpdateFirst => {
            for p in &pdus {
                push_record(p, 1, false, &mut actions, st, &mut raw_off, &mut pdus_done);
            }
        }
        Packing::PduAcrossTwoRecords => {
            for p in &pdus {
                let cut = p.len() / 2;
                push_record(&p[..cut], 0, false, &mut actions, st, &mut raw_off, &mut pdus_done);
                push_record(&p[cut..], 1, false, &mut actions, st, &mut raw_off, &mut pdus_done);
            }
        }
    }
    if ride {
        st.end_offset = Some(raw_off);
        return actions;
    }
    match script.end {
        End::None => {}
        End::DisconnectUltimatum => {
            let f = end_plain.clone().unwrap();
            let rec = peer.encrypt(&f);
            raw_off += rec.len();
            st.end_offset = Some(raw_off);
            actions.push(EnvAction::Push(rec));
        }
        End::DataOnTheUserChannel => {
            let f = end_plain.clone().unwrap();
            let rec = peer.encrypt(&f);
            raw_off += rec.len();
            st.end_offset = Some(raw_off);
            actions.push(EnvAction::Push(rec));
        }
        End::UndecodableRdpKind => {
            // MCS PDU with an opcode the client rejects (RdpError kind)
            let f = end_plain.clone().unwrap();
            let rec = peer.encrypt(&f);
            raw_off += rec.len();
            st.end_offset = Some(raw_off);
            actions.push(EnvAction::Push(rec));
        }
        End::UndecodableIoKind => {
            // send-data indication cut inside its header (I/O kind of decoding error)
            let f = end_plain.clone().unwrap();
            let rec = peer.encrypt(&f);
            raw_off += rec.len();
            st.end_offset = Some(raw_off);
            actions.push(EnvAction::Push(rec));
        }
        End::UndecodableEmptyFrame => {
            let rec = peer.encrypt(&end_plain.clone().unwrap());
            raw_off += rec.len();
            st.end_offset = Some(raw_off);
            actions.push(EnvAction::Push(rec));
        }
        End::CloseNotify => {
            let rec = peer.close_notify();
            if !rec.is_empty() {
                actions.push(EnvAction::Push(rec));
            }
            actions.push(EnvAction::Close);
        }
        End::AbruptClose => actions.push(EnvAction::Close),
    }
    actions
}

fn execution(script: Script) {
    let record = |v: Vec<(String, String)>, e: Option<String>| {
        RESULT.with(|r| {
            let mut r = r.borrow_mut();
            for x in v {
                if !r.violations.iter().any(|y| y.0 == x.0) {
                    r.violations.push(x);
                }
            }
            if e.is_some() {
                r.setup_error = e;
            }
        })
    };
    let c = Rc::new(Ctx {
        lock: Mutex::new(()),
        cv: Condvar::new(),
        st: RefCell::new(State { to_client: VecDeque::new(), delivered: 0, closed: false, record_ends: vec![], end_offset: None, events: vec![], selects_on_dead: 0, teardown: false, violations: vec![], env_pos: 0, gui_pos: 0, r_blocked: false, r_blocked_in_read: false, r_timed_out: false, eof_reads: 0 }),
        rx: RefCell::new(None),
        sync: RefCell::new(None),
    });
    CTX.with(|x| *x.borrow_mut() = Some(c.clone()));
    // ---- set-up: single task, reactive peer, real TLS + connection + activation
    let cfg = ConnCfg { use_nla: script.nla, ..Default::default() };
    let mut p = ServerParams { selected: if script.nla { 2 } else { 1 }, ..Default::default() };
    p.acct_domain = cfg.client.domain.clone();
    p.acct_password = cfg.client.password.clone();
    p.acct_user = cfg.client.user.clone();
    let peer = match TlsPeer::new(p, vec![], Cert::B) {
        Ok(p) => Rc::new(RefCell::new(p)),
        Err(e) => return record(vec![], Some(e)),
    };
    let mem = MemLink::with_peer(peer.clone());
    let link = SchedLink { setup: mem, scheduled: Rc::new(RefCell::new(false)) };
    let mut client = match connector(&cfg).connect(link.clone()) {
        Ok(c) => c,
        Err(e) => return record(vec![], Some(format!("connect: {:?}", e))),
    };
    let mut reads = 0;
    while client.verif_global().verif_state_id() != 5 {
        if reads > 16 || client.read(|_| {}).is_err() {
            return record(vec![], Some("activation failed".into()));
        }
        reads += 1;
    }
    if script.preloaded {
        // one TLS record = [set-error-info, bitmap PDU 0]; the set-up reads the first PDU only
        let sei = framing::tpkt(&framing::x224_dt(&mcs::send_data_indication(1002, 1003, &vref::share::set_error_info(0x000103EA, 1002, 0))));
        let rec = peer.borrow_mut().encrypt(&[sei, bitmap_pdu(0)].concat());
        link.setup.sh.borrow_mut().push_to_client(&rec);
        if client.read(|_| {}).is_err() {
            return record(vec![], Some("preload read failed".into()));
        }
    }
    let actions = {
        let mut st = c.st.borrow_mut();
        let mut pr = peer.borrow_mut();
        build_actions(&script, &mut pr, &mut st)
    };
    *link.scheduled.borrow_mut() = true;
    // ---- scheduled phase
    let client = Arc::new(Mutex::new(client));
    let sync = Arc::new(AtomicBool::new(true));
    *c.sync.borrow_mut() = Some(sync.clone());
    let (tx, rx) = channel();
    *c.rx.borrow_mut() = Some(rx);
    let handle = match launch(FD, client.clone(), sync.clone(), tx) {
        Ok(h) => h,
        Err(e) => return record(vec![], Some(format!("launch: {:?}", e))),
    };
    let env = thread::spawn(move || {
        let c = ctx();
        for a in actions {
            match a {
                EnvAction::Push(b) => {
                    let g = c.lock.lock().unwrap();
                    {
                        let mut st = c.st.borrow_mut();
                        st.to_client.extend(b.iter().copied());
                        st.env_pos += 1;
                    }
                    c.cv.notify_all();
                    drop(g);
                }
                EnvAction::Yield => thread::yield_now(),
                EnvAction::Close => {
                    let g = c.lock.lock().unwrap();
                    {
                        let mut st = c.st.borrow_mut();
                        st.closed = true;
                        st.env_pos += 1;
                    }
                    c.cv.notify_all();
                    drop(g);
                }
            }
        }
    });
    let gclient = client.clone();
    let gui = thread::spawn(move || {
        let c = ctx();
        for _ in 0..2 {
            let mut g = gclient.lock().unwrap();
            let _ = g.try_write(RdpEvent::Pointer(PointerEvent { x: 1, y: 2, button: PointerButton::None, down: false }));
            drop(g);
            c.st.borrow_mut().gui_pos += 1;
        }
    });
    env.join().unwrap();
    gui.join().unwrap();
    if script.end == End::None {
        // no end event in this script: once the thread has consumed everything and waits for more, the harness
        // ends the session itself (not part of the property)
        let mut g = c.lock.lock().unwrap();
        loop {
            {
                let st = c.st.borrow();
                if st.teardown || st.r_timed_out || ((st.r_blocked || st.r_blocked_in_read) && st.to_client.is_empty()) {
                    break;
                }
            }
            g = c.cv.wait(g).unwrap();
        }
        c.st.borrow_mut().teardown = true;
        sync.store(false, Ordering::SeqCst);
        c.cv.notify_all();
        drop(g);
    }
    let joined = handle.join();
    drain(&c);
    {
        let mut st = c.st.borrow_mut();
        if st.r_timed_out && !st.closed && st.end_offset.map(|o| st.delivered < o).unwrap_or(true) && !st.violations.iter().any(|v| v.0.starts_with("spins") || v.0.starts_with("did-not-stop")) {
            // the wait gave up on a live session and the thread left (or would leave) without any end event
            violation(&mut st, "receive-thread-left-a-live-session", "a bounded wait on the descriptor expired while the session was alive and quiet; the thread treated it like the end of the session".to_string());
        }
    }
    let refs = Arc::strong_count(&client);
    let lock_ok = client.try_lock().is_ok();
    let mut st = c.st.borrow_mut();
    if joined.is_err() {
        violation(&mut st, "receive-thread-panicked", "the receive thread panicked".to_string());
    }
    if refs != 1 {
        violation(&mut st, "shared-client-not-released", format!("{} references to the shared client remain after the thread ended", refs));
    }
    if !lock_ok {
        violation(&mut st, "client-mutex-poisoned-or-held", "the client mutex is poisoned or still held after the thread ended".to_string());
    }
    let stalled = st.violations.iter().any(|v| v.0.starts_with("stall") || v.0.starts_with("spins") || v.0.starts_with("did-not-stop"));
    let want: Vec<u16> = (0..script.end_after as u16).collect();
    // (a PDU that follows the end of the session in its record may or may not have been forwarded)
    if script.after_end && st.events.last() == Some(&99) {
        st.events.pop();
    }
    if !stalled && st.events != want {
        let got = st.events.clone();
        violation(&mut st, "bitmap-events-lost-or-reordered", format!("forwarded {:?}, sent {:?}", got, want));
    }
    if stalled {
        // even then, what was forwarded must be an in-order prefix
        if !want.starts_with(&st.events) {
            let got = st.events.clone();
            violation(&mut st, "bitmap-events-reordered", format!("forwarded {:?}, sent {:?}", got, want));
        }
    }
    let v = st.violations.clone();
    drop(st);
    CTX.with(|x| *x.borrow_mut() = None);
    record(v, None);
}

pub struct ExploreStats {
    pub schedules: u64,
    pub points: u64,
    pub states: usize,
    pub transitions: usize,
    pub max_preemptions: u32,
    /// sig -> (choices of the first schedule showing it, detail, number of schedules showing it)
    pub violations: std::collections::BTreeMap<String, (Vec<usize>, String, u64)>,
    pub error: Option<String>,
}

/// explore every schedule of one script with at most `bound` preemptions
pub fn explore(script: Script, bound: u32, replay: Option<Vec<usize>>) -> ExploreStats {
    let sched = std::sync::Arc::new(std::sync::Mutex::new(match replay {
        Some(c) => PbDfs::replay(c),
        None => PbDfs::new(bound),
    }));
    let mut out = ExploreStats { schedules: 0, points: 0, states: 0, transitions: 0, max_preemptions: 0, violations: Default::default(), error: None };
    let viols: std::sync::Arc<std::sync::Mutex<std::collections::BTreeMap<String, (Vec<usize>, String, u64)>>> = Default::default();
    let err: std::sync::Arc<std::sync::Mutex<Option<String>>> = Default::default();
    loop {
        let mut cfg = shuttle::Config::new();
        cfg.stack_size = 1 << 20;
        cfg.silence_warnings = true;
        cfg.failure_persistence = shuttle::FailurePersistence::None;
        let runner = shuttle::Runner::new(PbHandle(sched.clone()), cfg);
        let (s2, v2, e2) = (sched.clone(), viols.clone(), err.clone());
        let r = std::panic::catch_unwind(std::panic::AssertUnwindSafe(|| {
            runner.run(move || {
                RESULT.with(|r| *r.borrow_mut() = ExecResult::default());
                execution(script);
                let res = RESULT.with(|r| r.borrow().clone());
                let choices = s2.lock().unwrap().current_choices();
                if let Some(e) = res.setup_error {
                    *e2.lock().unwrap() = Some(e);
                }
                let mut v = v2.lock().unwrap();
                for (sig, d) in res.violations {
                    let e = v.entry(sig).or_insert((choices.clone(), d, 0));
                    e.2 += 1;
                }
            })
        }));
        match r {
            Ok(_) => break,
            Err(_) => {
                // shuttle aborts an exploration on a deadlock or a panic inside a task: record it as a verdict for
                // this schedule and carry on with the next one
                let p = vcheck::runner::take_panic().unwrap_or_else(|| "? :: panic".into());
                let choices = sched.lock().unwrap().current_choices();
                let sig = if p.contains("deadlock") {
                    "deadlock".to_string()
                } else if p.contains("VERIF-SPIN") {
                    "spins-reading-a-closed-stream".to_string()
                } else {
                    format!("panic@{}", vcheck::runner::panic_sig(&p))
                };
                let mut v = viols.lock().unwrap();
                let e = v.entry(sig).or_insert((choices, p, 0));
                e.2 += 1;
                CTX.with(|x| *x.borrow_mut() = None);
                let mut s = sched.lock().unwrap();
                if s.fixed.is_some() || s.schedules > 2_000_000 {
                    break;
                }
                // `started` stays true: the next new_execution advances past the failing schedule
                let _ = &mut s;
            }
        }
    }
    let s = sched.lock().unwrap();
    out.schedules = s.schedules;
    out.points = s.points;
    out.states = s.states.len();
    out.transitions = s.transitions.len();
    out.max_preemptions = s.max_preemptions_used;
    out.violations = viols.lock().unwrap().clone();
    out.error = err.lock().unwrap().clone().or(s.divergence.clone().map(|d| format!("nondeterministic replay of a schedule prefix: {}", d)));
    out
}

// ------------------------------------------------------------------ the property (one case per script)

pub struct C20 {
    /// (index into scripts(), preemption bound)
    cases: Vec<(usize, u32)>,
}

impl C20 {
    pub fn new() -> C20 {
        C20 { cases: vec![] }
    }
}

/// the core scripts: every packing without end, and every packing x every end kind after two PDUs
pub fn is_core(s: &Script) -> bool {
    (s.end == End::None || s.end_after == 2) && !(s.after_end && s.end_in_last_record) && !(matches!(s.packing, Packing::BigSecondPdu | Packing::ReactivationPacked) && !matches!(s.end, End::None | End::DisconnectUltimatum | End::AbruptClose))
}

/// the quick tier leaves to the thorough tier: the three rarer end kinds (two of the three undecodable-frame kinds, data on
/// the user channel) under every packing but the plain one-PDU-per-record, and the two most expensive packing x end
/// combinations (every end kind stays in quick under the plain packing, every packing under the other end kinds)
pub fn is_quick(s: &Script) -> bool {
    let rare_end = matches!(s.end, End::UndecodableEmptyFrame | End::UndecodableIoKind | End::DataOnTheUserChannel);
    is_core(s)
        && !(rare_end && s.packing != Packing::OnePerRecord)
        && !(s.packing == Packing::OnePerRecordWithPauses && s.end == End::UndecodableRdpKind)
        && !(s.packing == Packing::ReactivationPacked && s.end == End::AbruptClose)
        && !(matches!(s.packing, Packing::TailWithNext | Packing::UndecodableUpdateFirst) && matches!(s.end, End::CloseNotify | End::AbruptClose))
}

/// per-run directory (the parent names it in VERIF_C20_STATS, its workers inherit the variable): two runs of this
/// check at the same time do not share statistics
pub fn stats_dir() -> std::path::PathBuf {
    match std::env::var("VERIF_C20_STATS") {
        Ok(d) => std::path::PathBuf::from(d),
        Err(_) => std::path::PathBuf::from(format!("{}/.work/C20-stats", vcheck::root())),
    }
}

/// The model gives the receive thread a descriptor whose reads block until bytes arrive ("with and without pauses":
/// however long the server pauses, inside a PDU or between two). That is an assumption about the socket `main` opens:
/// here the real `tcp_from_args` connects to a loopback listener and the options of the socket it returns are read back.
pub const ASSUMPTION_INDEX: u64 = 1_000_000;

pub fn socket_assumption() -> Outcome {
    use std::os::unix::io::AsRawFd;
    let listener = match std::net::TcpListener::bind("127.0.0.1:0") {
        Ok(l) => l,
        Err(e) => return Outcome::pass("socket-assumption:loopback-unavailable", false).with_note(format!("loopback listener unavailable ({}): socket options not checked", e)),
    };
    let port = listener.local_addr().map(|a| a.port()).unwrap_or(0);
    let app = clap::App::new("verif")
        .arg(clap::Arg::with_name("host").long("host").takes_value(true))
        .arg(clap::Arg::with_name("port").long("port").takes_value(true).default_value("3389"));
    let args = app.get_matches_from(vec!["verif".to_string(), "--host".into(), "127.0.0.1".into(), "--port".into(), port.to_string()]);
    let tcp = match crate::mstsc_plain::verif_export::tcp(&args) {
        Ok(t) => t,
        Err(e) => return Outcome::fail("machinery", "machinery", format!("tcp_from_args against a loopback listener: {:?}", e)),
    };
    let flags = unsafe { libc::fcntl(tcp.as_raw_fd(), libc::F_GETFL) };
    if let Ok(Some(t)) = tcp.read_timeout() {
        return Outcome::fail("mismatch", "receive-socket-gives-up-after-a-timeout", format!("tcp_from_args returns a socket with a read timeout of {:?}: a PDU whose parts arrive further apart makes the blocking read fail and the receive thread leave a live session", t));
    }
    if let Ok(Some(t)) = tcp.write_timeout() {
        return Outcome::fail("mismatch", "socket-write-gives-up-after-a-timeout", format!("tcp_from_args returns a socket with a write timeout of {:?}", t));
    }
    if flags >= 0 && flags & libc::O_NONBLOCK != 0 {
        return Outcome::fail("mismatch", "receive-socket-is-non-blocking", "tcp_from_args returns a non-blocking socket: a read between two parts of a PDU fails with WouldBlock".to_string());
    }
    Outcome::pass("socket-assumption:blocking-without-timeouts", true)
}

impl Prop for C20 {
    fn id(&self) -> &'static str {
        "C20"
    }
    fn level(&self) -> &'static str {
        "model_checking"
    }
    fn prepare(&mut self, tier: Tier) -> Result<(), String> {
        let all = scripts();
        self.cases.clear();
        // VERIF_C20_FILTER=<packing>[,<packing>..] (tooling only; the registered commands never set it): explore only the
        // scripts of these packings, at the bounds of the tier — to try a new packing without the whole tier
        let only: Option<Vec<String>> = std::env::var("VERIF_C20_FILTER").ok().map(|v| v.split(',').map(|x| x.trim().to_string()).collect());
        for (i, s) in all.iter().enumerate() {
            if let Some(o) = &only {
                if !o.contains(&format!("{:?}", s.packing)) {
                    continue;
                }
            }
            if s.end_after > 3 {
                self.cases.push((i, 0));
                continue;
            }
            match tier {
                Tier::Quick => {
                    if is_quick(s) {
                        self.cases.push((i, 1));
                    }
                }
                Tier::Thorough => {
                    // bound 2 on the core scripts, bound 1 on all the others
                    self.cases.push((i, if is_core(s) { 2 } else { 1 }));
                }
            }
        }
        // the workers take the cases round-robin: order them by their (measured, per packing) cost, heaviest first, every
        // second block of 16 reversed, so that every worker gets a similar share
        let weight = |c: &(usize, u32)| -> u32 {
            let s = &all[c.0];
            if c.1 == 0 {
                return 10;
            }
            let w = match s.packing {
                Packing::OnePerRecordWithPauses => 180,
                Packing::ReactivationPacked => 115,
                Packing::RecordAcrossTwoSegments => 75,
                Packing::EmptyPdusInside => 73,
                Packing::PduAcrossTwoRecords | Packing::TailWithNext => 72,
                Packing::BigSecondPdu => 68,
                Packing::OnePerRecord => 57,
                Packing::TwoThenOne => 51,
                _ => 48,
            };
            w * if c.1 >= 2 { 12 } else { 1 }
        };
        self.cases.sort_by_key(|c| std::cmp::Reverse(weight(c)));
        for (b, block) in self.cases.chunks_mut(16).enumerate() {
            if b % 2 == 1 {
                block.reverse();
            }
        }
        // last case: the environment assumption of the model, checked against the code (see `socket_assumption`)
        self.cases.push((usize::MAX, 0));
        Ok(())
    }
    fn n_cases(&self) -> u64 {
        self.cases.len() as u64
    }
    fn describe(&self, idx: u64) -> Value {
        let (si, b) = self.cases[idx as usize];
        if si == usize::MAX {
            return json!({"idx": idx, "environment_assumption": "the socket opened by tcp_from_args blocks in read and write without a timeout, as the modelled descriptor does"});
        }
        json!({"idx": idx, "script_index": si, "script": scripts()[si], "preemption_bound": b})
    }
    fn rule(&self) -> String {
        "one case per environment script; every interleaving of the script with the receive thread and the GUI actor within the preemption bound is executed".into()
    }
    fn assumptions(&self) -> Vec<String> {
        vec![]
    }
    fn case_timeout(&self, tier: Tier) -> u64 {
        match tier {
            Tier::Quick => 300,
            Tier::Thorough => 3600,
        }
    }
    fn mem_rule(&self, _p: usize, _m: usize, _b: u64) -> Option<String> {
        None
    }
    fn run_case(&mut self, idx: u64) -> Outcome {
        let (si, bound) = self.cases[idx as usize];
        if si == usize::MAX {
            let o = socket_assumption();
            let viol: Vec<Value> = match o.violation.as_ref().map(|v| (v.sig.clone(), v.detail.clone())) {
                Some((sig, detail)) => vec![json!({"sig": sig, "choices": [], "detail": detail, "schedules": 1})],
                None => vec![],
            };
            let _ = std::fs::create_dir_all(stats_dir());
            let _ = std::fs::write(stats_dir().join(format!("{}.json", idx)), json!({"idx": idx, "script_index": ASSUMPTION_INDEX, "bound": 0, "script": {"environment_assumption": "socket of tcp_from_args"}, "schedules": 0, "points": 0, "states": 0, "transitions": 0, "max_preemptions": 0, "violations": viol, "error": null}).to_string());
            return o;
        }
        let script = scripts()[si];
        let t0 = std::time::Instant::now();
        let st = explore(script, bound, None);
        let wall_ms = t0.elapsed().as_millis() as u64;
        let _ = std::fs::create_dir_all(stats_dir());
        let viol_json: Vec<Value> = st.violations.iter().map(|(k, v)| json!({"sig": k, "choices": v.0, "detail": v.1, "schedules": v.2})).collect();
        let _ = std::fs::write(
            stats_dir().join(format!("{}.json", idx)),
            json!({"idx": idx, "script_index": si, "bound": bound, "script": script, "schedules": st.schedules, "points": st.points, "states": st.states, "transitions": st.transitions, "max_preemptions": st.max_preemptions, "violations": viol_json, "error": st.error, "wall_ms": wall_ms}).to_string(),
        );
        if let Some(e) = st.error {
            return Outcome::fail("machinery", "machinery", e);
        }
        if let Some((sig, (choices, detail, n))) = st.violations.iter().next() {
            let all: Vec<&String> = st.violations.keys().collect();
            return Outcome::fail("violation", sig.clone(), format!("{} [{} of {} schedules; first schedule choices {:?}; all signatures for this script: {:?}]", detail, n, st.schedules, choices, all));
        }
        Outcome::pass(format!("{:?}:{:?}", script.packing, script.end), true)
    }
}
