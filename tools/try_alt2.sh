#!/bin/bash
# usage: try_alt2.sh <seeded-name> <ID> [tier] — like try_alt.sh for /verif/seeded/<name>/patch.diff, on a second track
# (/tmp/altrepo2, /verif/.target-alt2, current /verif sources) so that it can run next to a mutant_matrix --alt
set -u
name="$1"; id="$2"; tier="${3:-quick}"
alt=/tmp/altrepo2
git -C /repo worktree remove --force $alt 2>/dev/null
git -C /repo worktree add -q --detach $alt HEAD || exit 2
git -C $alt apply "/verif/seeded/$name/patch.diff" || { echo "PATCH DOES NOT APPLY"; git -C /repo worktree remove --force $alt; exit 3; }
VERIF_TARGET_DIR=/verif/.target-alt2 VERIF_REPO=$alt /verif/check "$id" "$tier" 2>&1 | grep -E "sig:|quick:|thorough:|MACHINERY|VIOLATION" | head -8 | cut -c1-260; rc=${PIPESTATUS[0]}
git -C /repo worktree remove --force $alt
echo "$name $id exit=$rc"
exit $rc
