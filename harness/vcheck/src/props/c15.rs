//! C15 — NTLMv2 AUTHENTICATE tokens are accepted by an independent MS-NLMP server.

use crate::runner::{Outcome, Prop, Tier};
use rdp::model::rnd::verif as rnd;
use rdp::nla::ntlm::Ntlm;
use rdp::nla::sspi::AuthenticationProtocol;
use serde::Serialize;
use serde_json::{json, Value};
use vref::bytes::{hex, utf16le};
use vref::ntlm::{self as rn, ServerCfg};

#[derive(Clone, Debug, Serialize)]
pub struct Case {
    domain: String,
    user: String,
    password: String,
    via_hash: bool,
    challenge: [u8; 8],
    nonce: u8,
    av: Vec<(u16, usize)>,
    flags: u32,
    block: &'static str,
    /// Some(flags): the same Ntlm object first answers a whole other handshake (negotiate + a challenge with these
    /// flags and another target-info block); the judged handshake is its second one
    earlier: Option<u32>,
    /// Some((TargetInfoMaxLen, TargetNameMaxLen)) written over the honest values (receivers must ignore MaxLen)
    maxlen: Option<(u16, u16)>,
    /// TargetName of the CHALLENGE (None: "SRV"); an empty name puts the target information first in the payload
    target_name: Option<String>,
    /// payload layout of the CHALLENGE (vref::ntlm::ServerCfg::layout)
    layout: u8,
    /// 1: create_negotiate_message is called twice before the CHALLENGE; 2: the first NEGOTIATE is answered by a CHALLENGE
    /// without timestamp (refused by this client), then the handshake starts again
    negotiate_again: u8,
}

pub struct C15 {
    cases: Vec<Case>,
}

impl C15 {
    pub fn new() -> C15 {
        C15 { cases: vec![] }
    }
}

pub fn string_alphabet() -> Vec<String> {
    let classes = ["a", "é", "日", "😀"];
    let mut v: Vec<String> = vec![];
    for c in classes {
        for len in [0usize, 1, 7, 8, 15, 16, 17, 31, 32, 64] {
            v.push(c.repeat(len));
        }
    }
    // every mixed string of <= 3 code points
    for a in classes {
        for b in classes {
            v.push(format!("{}{}", a, b));
            for c in classes {
                v.push(format!("{}{}{}", a, b, c));
            }
        }
    }
    v.extend(["AbC".to_string(), "ADMIN".to_string(), "Administrator".to_string(), "dom.example".to_string(), "Ünï".to_string(), "p@ss w0rd!".to_string(), "\u{10400}x".to_string(), "alice@corp.example".to_string(), "hunter2\n".to_string(), "pass phrase\r\n".to_string(), "\n".to_string(), "x\r".to_string(), " lead and trail ".to_string(), "tab\there".to_string()]);
    // the first and last code point of every UTF-8 / UTF-16 encoding length, alone and between ASCII letters
    for cp in ['\u{0}', '\u{1}', '\u{7F}', '\u{80}', '\u{7FF}', '\u{800}', '\u{D7FF}', '\u{E000}', '\u{FFFD}', '\u{FFFF}', '\u{10000}', '\u{10001}', '\u{FFFFF}', '\u{100000}', '\u{10FFFF}'] {
        v.push(cp.to_string());
        v.push(format!("a{}b", cp));
    }
    v.sort();
    v.dedup();
    v
}

fn av_value(id: u16, len: usize) -> Vec<u8> {
    match id {
        rn::AV_TIMESTAMP => vec![0x11, 0x22, 0x33, 0x44, 0x55, 0x66, 0x77, 0x01],
        rn::AV_FLAGS => vec![0, 0, 0, 0],
        rn::AV_SINGLE_HOST => vec![0x30; 48],
        rn::AV_CHANNEL_BINDINGS => vec![0; 16],
        _ => (0..len).map(|i| if i % 2 == 0 { b'A' + (i as u8 / 2) % 26 } else { 0 }).collect(),
    }
}

const CHALLENGES: [[u8; 8]; 4] = [[0; 8], [0xFF; 8], [0x01, 0x23, 0x45, 0x67, 0x89, 0xAB, 0xCD, 0xEF], [0x80, 0, 0, 0, 0, 0, 0, 0]];

/// several complete handshakes in the same thread, each on a fresh Ntlm object and each verified by the reference server
fn handshakes_in_a_row(c: &Case) -> Outcome {
    let real = c.block == "real-generator-130-handshakes";
    let accounts: Vec<(String, String, String)> = if real {
        (0..130).map(|i| ("DOM".to_string(), format!("user{}", i % 3), "S3cr3t".to_string())).collect()
    } else {
        [("Contoso", "alice", "pw"), ("CONTOSO", "alice", "pw"), ("contoso", "alice", "pw"), ("contoso", "Alice", "pw"), ("contoso", "Alice", "PW"), ("contoso", "Alice", "pw"), ("", "Alice", "pw"), ("contoso", "", "pw"), ("Contoso", "alice", "pw")]
            .iter()
            .map(|(d, u, p)| (d.to_string(), u.to_string(), p.to_string()))
            .collect()
    };
    let cfg = ServerCfg::windows_like();
    for (i, (domain, user, password)) in accounts.iter().enumerate() {
        let hash = rn::nt_hash(password);
        let mut ntlm = if c.via_hash { Ntlm::from_hash(domain.clone(), user.clone(), &hash) } else { Ntlm::new(domain.clone(), user.clone(), password.clone()) };
        if !real {
            let mut pattern = vec![i as u8 ^ 0x5A; 8];
            pattern.extend_from_slice(&[i as u8 ^ 0xC3; 16]);
            rnd::set_pattern(Some(pattern));
        }
        let negotiate = ntlm.create_negotiate_message();
        let challenge = rn::challenge_message(&cfg);
        let token = negotiate.and_then(|n| ntlm.read_challenge_message(&challenge).map(|t| (n, t)));
        rnd::set_pattern(None);
        let (negotiate, token) = match token {
            Ok(x) => x,
            Err(e) => return Outcome::fail("error", "conforming-challenge-rejected", format!("handshake #{} of the thread ({:?}\\{:?}): {:?}", i + 1, domain, user, e)),
        };
        if let Err(e) = rn::verify_authenticate(&negotiate, &challenge, &token, &cfg, user, domain, &hash) {
            let short = e.split(|ch: char| ch == ':' || ch.is_ascii_digit()).next().unwrap_or("").trim().to_string();
            return Outcome::fail("mismatch", format!("authenticate-rejected: {}", short), format!("handshake #{} of the thread, account {:?}\\{:?} (fresh object; earlier accounts {:?}): {}", i + 1, domain, user, &accounts[..i].iter().map(|a| format!("{}\\{}", a.0, a.1)).collect::<Vec<_>>(), e));
        }
    }
    Outcome::pass(format!("accepted-{}", c.block), true)
}

impl Prop for C15 {
    fn id(&self) -> &'static str {
        "C15"
    }
    fn level(&self) -> &'static str {
        "exploration"
    }
    fn prepare(&mut self, tier: Tier) -> Result<(), String> {
        let strings = string_alphabet();
        let default_av: Vec<(u16, usize)> = vec![(rn::AV_NB_DOMAIN, 6), (rn::AV_NB_COMPUTER, 6), (rn::AV_DNS_DOMAIN, 18), (rn::AV_DNS_COMPUTER, 18), (rn::AV_TIMESTAMP, 8)];
        let base = Case { domain: "DOM".into(), user: "user".into(), password: "S3cr3t-pässwörd".into(), via_hash: false, challenge: CHALLENGES[2], nonce: 2, av: default_av.clone(), flags: rn::DEFAULT_FLAGS, block: "base", earlier: None, maxlen: None, target_name: None, layout: 0, negotiate_again: 0 };
        let mut cs = vec![base.clone()];
        // strings: one dimension at a time, and all three together; password vs hash
        for s in &strings {
            for via_hash in [false, true] {
                if rn::uppercase_unambiguous(s) {
                    cs.push(Case { user: s.clone(), via_hash, block: "user", ..base.clone() });
                }
                cs.push(Case { domain: s.clone(), via_hash, block: "domain", ..base.clone() });
                cs.push(Case { password: s.clone(), via_hash, block: "password", ..base.clone() });
                if rn::uppercase_unambiguous(s) {
                    cs.push(Case { user: s.clone(), domain: s.clone(), password: s.clone(), via_hash, block: "all-three", ..base.clone() });
                }
            }
        }
        if tier == Tier::Thorough {
            for a in &strings {
                for b in &strings {
                    if rn::uppercase_unambiguous(a) {
                        cs.push(Case { user: a.clone(), domain: b.clone(), block: "user-x-domain", ..base.clone() });
                    }
                    cs.push(Case { password: a.clone(), domain: b.clone(), block: "password-x-domain", ..base.clone() });
                }
            }
        }
        // challenges x nonces
        for ch in CHALLENGES {
            for nonce in 0..3u8 {
                for via_hash in [false, true] {
                    cs.push(Case { challenge: ch, nonce, via_hash, block: "challenge", ..base.clone() });
                }
            }
        }
        // target info: every subset of the 9 optional ids in canonical order, timestamp at every position
        let optional = [rn::AV_NB_COMPUTER, rn::AV_NB_DOMAIN, rn::AV_DNS_COMPUTER, rn::AV_DNS_DOMAIN, rn::AV_DNS_TREE, rn::AV_FLAGS, rn::AV_SINGLE_HOST, rn::AV_TARGET_NAME, rn::AV_CHANNEL_BINDINGS];
        for mask in 0..(1u32 << optional.len()) {
            let subset: Vec<u16> = optional.iter().enumerate().filter(|(i, _)| mask & (1 << i) != 0).map(|(_, id)| *id).collect();
            let positions: Vec<usize> = if tier == Tier::Quick { vec![0, subset.len() / 2, subset.len()] } else { (0..=subset.len()).collect() };
            let mut seen = std::collections::BTreeSet::new();
            for pos in positions {
                if !seen.insert(pos) {
                    continue;
                }
                let mut av: Vec<(u16, usize)> = subset.iter().map(|id| (*id, 8)).collect();
                av.insert(pos, (rn::AV_TIMESTAMP, 8));
                cs.push(Case { av, block: "av-subsets", ..base.clone() });
            }
        }
        // every permutation of subsets of <= 3 name ids plus the timestamp
        let names = [rn::AV_NB_COMPUTER, rn::AV_NB_DOMAIN, rn::AV_DNS_COMPUTER, rn::AV_DNS_DOMAIN, rn::AV_TARGET_NAME];
        fn perms(items: &[u16], k: usize, cur: &mut Vec<u16>, out: &mut Vec<Vec<u16>>) {
            if cur.len() == k {
                out.push(cur.clone());
                return;
            }
            for i in items {
                if !cur.contains(i) {
                    cur.push(*i);
                    perms(items, k, cur, out);
                    cur.pop();
                }
            }
        }
        let mut with_ts = names.to_vec();
        with_ts.push(rn::AV_TIMESTAMP);
        for k in 1..=4 {
            let mut out = vec![];
            perms(&with_ts, k, &mut vec![], &mut out);
            for p in out {
                if p.contains(&rn::AV_TIMESTAMP) {
                    cs.push(Case { av: p.iter().map(|id| (*id, 4)).collect(), block: "av-permutations", ..base.clone() });
                }
            }
        }
        // value lengths
        for len in [0usize, 1, 2, 3, 5, 15, 16, 17, 255, 509, 510] {
            cs.push(Case { av: vec![(rn::AV_NB_DOMAIN, len), (rn::AV_TIMESTAMP, 8), (rn::AV_DNS_COMPUTER, len)], block: "av-lengths", ..base.clone() });
            // (a target information of odd total length: one value of this length, the other even)
            cs.push(Case { av: vec![(rn::AV_NB_DOMAIN, len), (rn::AV_TIMESTAMP, 8), (rn::AV_DNS_COMPUTER, 4)], block: "av-lengths", ..base.clone() });
        }
        // very large (but answerable) target information: the AUTHENTICATE payload then exceeds 64 KiB and its later
        // fields start beyond offset 65535 (the NT response echoes the block: 44 + len must fit 16 bits)
        for ti_len in [30000usize, 60000, 65000, 65400, 65467, 65468, 65480, 65491] {
            // one AV pair carries the bulk: 4 (its header) + 12 (timestamp) + 4 (EOL) + value = ti_len
            let bulk = ti_len - 20;
            for (domain, user) in [("DOM", "user"), ("d".repeat(1200).as_str(), "u".repeat(1800).as_str())] {
                if 44 + ti_len + 4 > 65535 {
                    continue;
                }
                cs.push(Case { av: vec![(rn::AV_DNS_TREE, bulk), (rn::AV_TIMESTAMP, 8)], domain: domain.to_string(), user: user.to_string(), block: "huge-target-info", ..base.clone() });
            }
        }
        // MaxLen fields that differ from Len (MS-NLMP: set to Len by senders, ignored by receivers)
        for ti_max in [0u16, 1, 8, 0x7FFF, 0xFFFF] {
            for tn_max in [0u16, 5, 0xFFFF] {
                for via_hash in [false, true] {
                    cs.push(Case { maxlen: Some((ti_max, tn_max)), via_hash, block: "maxlen-differs-from-len", ..base.clone() });
                }
            }
        }
        // both character-set bits set (Unicode wins), with and without VERSION; empty / long target names
        for version in [true, false] {
            for via_hash in [false, true] {
                let mut flags = rn::F_REQUEST_TARGET | rn::F_SIGN | rn::F_SEAL | rn::F_NTLM | rn::F_ESS | rn::F_TARGET_INFO | rn::F_128 | rn::F_KEY_EXCH | rn::F_UNICODE | rn::F_OEM;
                if version {
                    flags |= rn::F_VERSION;
                }
                cs.push(Case { flags, via_hash, block: "unicode-and-oem-bits", ..base.clone() });
                cs.push(Case { flags, via_hash, user: "é日😀".into(), domain: "日".into(), block: "unicode-and-oem-bits", ..base.clone() });
                for tn in ["", "S", "a-rather-long-target-name.example.org"] {
                    let f = if version { rn::DEFAULT_FLAGS } else { rn::DEFAULT_FLAGS & !rn::F_VERSION };
                    cs.push(Case { flags: f, via_hash, target_name: Some(tn.to_string()), block: "target-name", ..base.clone() });
                    // other legal payload layouts: info before name, bytes no field refers to after / before the fields
                    for layout in 1..=3u8 {
                        cs.push(Case { flags: f, via_hash, target_name: Some(tn.to_string()), layout, block: "payload-layout", ..base.clone() });
                    }
                }
            }
        }
        // OEM sessions with names that are not upper case already (ASCII: compared byte for byte; the three non-ASCII
        // ones: any NUL-free spelling that is not UTF-16, the code page being unspecified)
        for (domain, user) in [("Dom", "User"), ("dom", "user"), ("DOM", "USER"), ("", "user"), ("contoso.local", "Alice"), ("DOM", "JÉRÔME"), ("DÖM", "USER"), ("日", "日本")] {
            for version in [true, false] {
                for via_hash in [false, true] {
                    let mut flags = rn::F_REQUEST_TARGET | rn::F_SIGN | rn::F_SEAL | rn::F_NTLM | rn::F_ESS | rn::F_TARGET_INFO | rn::F_128 | rn::F_KEY_EXCH | rn::F_OEM;
                    if version {
                        flags |= rn::F_VERSION;
                    }
                    cs.push(Case { flags, via_hash, domain: domain.to_string(), user: user.to_string(), block: "oem-names", ..base.clone() });
                }
            }
        }
        // flags: with/without VERSION, UNICODE (OEM only with ASCII names), neutral bits
        for version in [true, false] {
            for unicode in [true, false] {
                for extra in [0u32, rn::F_56, rn::F_ALWAYS_SIGN, rn::F_TARGET_TYPE_SERVER, rn::F_56 | rn::F_ALWAYS_SIGN | rn::F_TARGET_TYPE_SERVER] {
                    let mut flags = rn::F_REQUEST_TARGET | rn::F_SIGN | rn::F_SEAL | rn::F_NTLM | rn::F_ESS | rn::F_TARGET_INFO | rn::F_128 | rn::F_KEY_EXCH | extra;
                    if version {
                        flags |= rn::F_VERSION;
                    }
                    flags |= if unicode { rn::F_UNICODE } else { rn::F_OEM };
                    for via_hash in [false, true] {
                        cs.push(Case { flags, via_hash, block: "flags", ..base.clone() });
                        if unicode {
                            cs.push(Case { flags, via_hash, user: "é日😀".into(), domain: "日".into(), block: "flags", ..base.clone() });
                        }
                    }
                }
            }
        }
        // every single flag bit the default set lacks, added alone (bits that say nothing about NTLMv2 key derivation:
        // reserved bits, OEM-supplied, LOCAL_CALL, TARGET_TYPE_DOMAIN, IDENTIFY, REQUEST_NON_NT_SESSION_KEY, LM_KEY, DATAGRAM ...)
        for bit in 0..32u32 {
            let extra = 1u32 << bit;
            if rn::DEFAULT_FLAGS & extra != 0 || extra == rn::F_OEM {
                continue;
            }
            for via_hash in [false, true] {
                cs.push(Case { flags: rn::DEFAULT_FLAGS | extra, via_hash, block: "one-more-flag-bit", ..base.clone() });
            }
        }
        // every PAIR of flag bits the default set lacks, added together (none of them changes how NTLMv2 keys are derived)
        {
            let extra: Vec<u32> = (0..32u32).map(|b| 1u32 << b).filter(|e| rn::DEFAULT_FLAGS & e == 0 && *e != rn::F_OEM).collect();
            for (i, a) in extra.iter().enumerate() {
                for b in extra.iter().skip(i + 1) {
                    cs.push(Case { flags: rn::DEFAULT_FLAGS | a | b, block: "two-more-flag-bits", ..base.clone() });
                }
            }
            cs.push(Case { flags: 0xFFFF_FFFF & !rn::F_OEM, block: "two-more-flag-bits", ..base.clone() });
            cs.push(Case { flags: 0xFFFF_FFFF & !rn::F_OEM, via_hash: true, block: "two-more-flag-bits", ..base.clone() });
        }
        // create_negotiate_message called twice (the first NEGOTIATE unanswered and sent again; or answered by a
        // CHALLENGE the client refuses) before the handshake that is judged: the MIC covers the last NEGOTIATE alone
        for via_hash in [false, true] {
            for again in [1u8, 2, 3] {
                cs.push(Case { via_hash, negotiate_again: again, block: "negotiate-sent-again", ..base.clone() });
            }
        }
        // no target name: REQUEST_TARGET clear and a zeroed / stale TargetName descriptor (to be ignored on receipt)
        for layout in [4u8, 5] {
            for version in [true, false] {
                for via_hash in [false, true] {
                    let mut flags = rn::DEFAULT_FLAGS & !rn::F_REQUEST_TARGET & !rn::F_TARGET_TYPE_SERVER;
                    if !version {
                        flags &= !rn::F_VERSION;
                    }
                    cs.push(Case { flags, via_hash, layout, target_name: Some(String::new()), block: "target-name-descriptor-to-be-ignored", ..base.clone() });
                }
            }
        }
        // state that outlives an object: accounts that differ minimally (domain case, user case, password, hash or
        // password logon) authenticate one after the other in the same thread, each with a fresh Ntlm object
        for via_hash in [false, true] {
            cs.push(Case { via_hash, block: "accounts-in-a-row", ..base.clone() });
        }
        // the real random generator instead of the hooked one: 130 handshakes in a row in the same thread
        cs.push(Case { block: "real-generator-130-handshakes", ..base.clone() });
        // a second handshake on the same object: every ordered pair of (VERSION, UNICODE) flag sets, both logon kinds
        let fl = |version: bool, unicode: bool| {
            let mut flags = rn::F_REQUEST_TARGET | rn::F_SIGN | rn::F_SEAL | rn::F_NTLM | rn::F_ESS | rn::F_TARGET_INFO | rn::F_128 | rn::F_KEY_EXCH;
            if version {
                flags |= rn::F_VERSION;
            }
            flags | if unicode { rn::F_UNICODE } else { rn::F_OEM }
        };
        for (v1, u1) in [(true, true), (true, false), (false, true), (false, false)] {
            for (v2, u2) in [(true, true), (true, false), (false, true), (false, false)] {
                for via_hash in [false, true] {
                    cs.push(Case { flags: fl(v2, u2), via_hash, earlier: Some(fl(v1, u1)), block: "second-handshake-same-object", ..base.clone() });
                }
            }
        }
        // the product of the dimensions above (what only shows when two of them coincide): flag set (VERSION x character set x
        // neutral bits) x payload layout x target-information shape x account strings x logon kind x MaxLen fields x
        // target name
        {
            let avs: Vec<Vec<(u16, usize)>> = vec![
                default_av.clone(),
                vec![(rn::AV_TIMESTAMP, 8), (rn::AV_NB_DOMAIN, 6)],
                vec![(rn::AV_TIMESTAMP, 8)],
                vec![(rn::AV_DNS_TREE, 3000), (rn::AV_TIMESTAMP, 8), (rn::AV_NB_COMPUTER, 2)],
                vec![(rn::AV_NB_DOMAIN, 0), (rn::AV_CHANNEL_BINDINGS, 16), (rn::AV_FLAGS, 4), (rn::AV_TIMESTAMP, 8), (rn::AV_TARGET_NAME, 30)],
                // odd total length
                vec![(rn::AV_NB_DOMAIN, 5), (rn::AV_TIMESTAMP, 8), (rn::AV_DNS_COMPUTER, 18)],
            ];
            for version in [true, false] {
                for unicode in [true, false] {
                    for extra in [0u32, rn::F_56 | rn::F_ALWAYS_SIGN, rn::F_TARGET_TYPE_SERVER] {
                        let mut flags = rn::F_REQUEST_TARGET | rn::F_SIGN | rn::F_SEAL | rn::F_NTLM | rn::F_ESS | rn::F_TARGET_INFO | rn::F_128 | rn::F_KEY_EXCH | extra;
                        if version {
                            flags |= rn::F_VERSION;
                        }
                        flags |= if unicode { rn::F_UNICODE } else { rn::F_OEM };
                        // thorough: every string of the alphabet as user and as domain (Unicode sessions), two layouts, all six
                        // target-information shapes, both logon kinds
                        if tier == Tier::Thorough && unicode {
                            for s in &strings {
                                for (domain, user) in [("DOM".to_string(), s.clone()), (s.clone(), "user".to_string())] {
                                    if domain == "DOM" && !rn::uppercase_unambiguous(&user) {
                                        continue;
                                    }
                                    for layout in [0u8, 1] {
                                        for av in &avs {
                                            for via_hash in [false, true] {
                                                cs.push(Case { flags, via_hash, layout, av: av.clone(), domain: domain.clone(), user: user.clone(), block: "product-x-alphabet", ..base.clone() });
                                            }
                                        }
                                    }
                                }
                            }
                        }
                        let accounts: Vec<(&str, &str, &str)> = if unicode { vec![("DOM", "user", "S3cr3t-pässwörd"), ("日", "é日😀", "pä$$ 😀"), ("", "user", ""), ("contoso.local", "Alice", "x"), ("corp", "rené", "pw"), ("straße.example", "😀x", "pw")] } else { vec![("DOM", "USER", "S3cr3t-pässwörd"), ("", "USER", ""), ("CONTOSO.LOCAL", "ALICE", "x")] };
                        for layout in 0..=3u8 {
                            for av in &avs {
                                for (domain, user, password) in &accounts {
                                    for via_hash in [false, true] {
                                        for maxlen in [None, Some((0xFFFFu16, 0u16))] {
                                            for tn in [None, Some(String::new()), Some("a-rather-long-target-name.example.org".to_string())] {
                                                cs.push(Case { flags, via_hash, layout, av: av.clone(), domain: domain.to_string(), user: user.to_string(), password: password.to_string(), maxlen, target_name: tn, block: "product", ..base.clone() });
                                            }
                                        }
                                    }
                                }
                            }
                        }
                    }
                }
            }
        }
        self.cases = cs;
        Ok(())
    }
    fn n_cases(&self) -> u64 {
        self.cases.len() as u64
    }
    fn describe(&self, idx: u64) -> Value {
        json!({"idx": idx, "case": self.cases[idx as usize]})
    }
    fn rule(&self) -> String {
        "cases = (domain, user, password | NT hash, server challenge, client nonce pattern, target-info block, negotiate flags). Strings: class^len for class in {a, é, 日, 😀} x len in {0,1,7,8,15,16,17,31,32,64}, every mixed string of <=3 code points over the four classes, the boundary code points of every UTF-8/UTF-16 encoding length (U+1, 7F, 80, 7FF, 800, D7FF, E000, FFFD, FFFF, 10000, 10001, FFFFF, 100000, 10FFFF) alone and between letters, a few practical names; varied one at a time and jointly (full user x domain and password x domain products in thorough); 4 challenges x 3 nonce patterns; every subset of the 9 optional AV ids with the timestamp at first/middle/last (every) position; every permutation of <=4 pairs including the timestamp; value lengths {0,2,16,510}; target information of 30000..65491 bytes (the largest the 16-bit NT response length can echo) with short and kilobyte-long names; OEM sessions with lower / mixed / upper case ASCII names; both character-set bits set; empty / 1-character / long target names (the target information then starts the payload); the target information placed before the target name, followed by 12 bytes that no field refers to, or preceded by an 8-byte gap after the header; TargetInfo / TargetName MaxLen fields set to 0, 1, 8, 0x7FFF, 0xFFFF while Len stays honest; flags with/without VERSION and UNICODE and neutral bits; every single flag bit outside the default set added alone; a NEGOTIATE sent again before the CHALLENGE (unanswered, or answered by a CHALLENGE the client refuses); REQUEST_TARGET clear with a zeroed or stale TargetName descriptor; nine accounts differing minimally (domain case, user case, password) authenticating one after the other in one thread on fresh objects; 130 handshakes in a row with the real random generator; and a second handshake on the same Ntlm object for every ordered pair of (VERSION, UNICODE) flag sets. Each AUTHENTICATE is verified by the reference MS-NLMP server: field descriptors, NTProofStr, LMv2, key-exchange unwrap, MIC, names; and hash-based == password-based. Non-trivial: every case except the base one. [product] 2 x 2 x 3 flag sets (VERSION, character set, neutral bits) x 4 payload layouts x 5 target-information shapes x 3-4 accounts x password | hash x MaxLen fields equal / 0xFFFF-and-0 x no / empty / long target name (10 080 cases): what only shows when two dimensions coincide. [two-more-flag-bits] every pair of flag bits the default set lacks, and all of them. Thorough: [product-x-alphabet] every alphabet string as user and as domain x the six Unicode flag sets x 2 layouts x 6 target-information shapes x password | hash.".into()
    }
    fn assumptions(&self) -> Vec<String> {
        vec![
            "user names are restricted to code points whose full (Rust) and simple (Windows) upper-case mappings agree".into(),
            "the server keeps KEY_EXCH, 128-bit and extended session security negotiated, as this client requests them; OEM encoding is compared byte for byte with ASCII names only; non-ASCII names in an OEM session must merely not be spelled in UTF-16".into(),
            "client nonce / exported session key come from the H1 hook: patterns 00.., FF.., counter".into(),
        ]
    }
    fn run_case(&mut self, idx: u64) -> Outcome {
        let c = self.cases[idx as usize].clone();
        if c.block == "accounts-in-a-row" || c.block == "real-generator-130-handshakes" {
            return handshakes_in_a_row(&c);
        }
        let cfg = ServerCfg {
            flags: c.flags,
            challenge: c.challenge,
            target_name: c.target_name.clone().unwrap_or_else(|| "SRV".into()),
            av_pairs: c.av.iter().map(|(id, len)| (*id, av_value(*id, *len))).collect(),
            maxlen_override: None,
            layout: c.layout,
        };
        let hash = rn::nt_hash(&c.password);
        let mut ntlm = if c.via_hash { Ntlm::from_hash(c.domain.clone(), c.user.clone(), &hash) } else { Ntlm::new(c.domain.clone(), c.user.clone(), c.password.clone()) };
        if let Some(f1) = c.earlier {
            let cfg1 = ServerCfg { flags: f1, challenge: [0x5a; 8], target_name: "OTHER".into(), av_pairs: vec![(rn::AV_DNS_DOMAIN, av_value(rn::AV_DNS_DOMAIN, 6)), (rn::AV_TIMESTAMP, av_value(rn::AV_TIMESTAMP, 8))], maxlen_override: None, layout: 0 };
            if let Err(e) = ntlm.create_negotiate_message() {
                return Outcome::fail("error", "negotiate-error", format!("{:?}", e));
            }
            if let Err(e) = ntlm.read_challenge_message(&rn::challenge_message(&cfg1)) {
                return Outcome::fail("error", "conforming-challenge-rejected", format!("earlier handshake: {:?}", e));
            }
        }
        if c.negotiate_again == 1 || c.negotiate_again == 2 {
            if let Err(e) = ntlm.create_negotiate_message() {
                return Outcome::fail("error", "negotiate-error", format!("{:?}", e));
            }
            if c.negotiate_again == 2 {
                let refused = ServerCfg { flags: rn::DEFAULT_FLAGS, challenge: [0x77; 8], target_name: "X".into(), av_pairs: vec![(rn::AV_NB_DOMAIN, av_value(rn::AV_NB_DOMAIN, 4))], maxlen_override: None, layout: 0 };
                let _ = ntlm.read_challenge_message(&rn::challenge_message(&refused));
            }
        }
        let negotiate = match ntlm.create_negotiate_message() {
            Ok(n) => n,
            Err(e) => return Outcome::fail("error", "negotiate-error", format!("{:?}", e)),
        };
        if c.negotiate_again == 3 {
            // the answer to THIS negotiate is first a CHALLENGE the client refuses (no timestamp), then — no new NEGOTIATE in
            // between — the one that is judged: the MIC still covers this NEGOTIATE
            let refused = ServerCfg { flags: rn::DEFAULT_FLAGS, challenge: [0x77; 8], target_name: "X".into(), av_pairs: vec![(rn::AV_NB_DOMAIN, av_value(rn::AV_NB_DOMAIN, 4))], maxlen_override: None, layout: 0 };
            let _ = ntlm.read_challenge_message(&rn::challenge_message(&refused));
            let mut broken = rn::challenge_message(&cfg);
            broken.truncate(broken.len() / 2);
            let _ = ntlm.read_challenge_message(&broken);
        }
        if let Err(e) = rn::parse_negotiate(&negotiate) {
            return Outcome::fail("mismatch", "negotiate-malformed", e);
        }
        let mut challenge = rn::challenge_message(&cfg);
        if let Some((ti_max, tn_max)) = c.maxlen {
            // TargetNameFields at 12 (Len, MaxLen, offset), TargetInfoFields at 40
            challenge[14..16].copy_from_slice(&tn_max.to_le_bytes());
            challenge[42..44].copy_from_slice(&ti_max.to_le_bytes());
        }
        let pattern: Vec<u8> = match c.nonce {
            0 => vec![0u8; 24],
            1 => vec![0xFF; 24],
            _ => (0..24u8).map(|i| i.wrapping_mul(37).wrapping_add(11)).collect(),
        };
        rnd::set_pattern(Some(pattern.clone()));
        let auth = ntlm.read_challenge_message(&challenge);
        rnd::set_pattern(None);
        let auth = match auth {
            Ok(a) => a,
            Err(e) => return Outcome::fail("error", "conforming-challenge-rejected", format!("{:?} (block {})", e, c.block)),
        };
        // OEM mode: names are compared as bytes; the reference decodes OEM as UTF-8 (ASCII in this alphabet)
        match rn::verify_authenticate(&negotiate, &challenge, &auth, &cfg, &c.user, &c.domain, &hash) {
            Err(e) => {
                let sig = e.split(|ch| ch == ':' || ch == '"' || ch == '[').next().unwrap_or("").trim().chars().take(40).collect::<String>();
                Outcome::fail("rejected", format!("authenticate-rejected: {}", sig), format!("{} (block {}, via_hash {}, token {}..)", e, c.block, c.via_hash, hex(&auth[..auth.len().min(96)])))
            }
            Ok(ok) => {
                if ok.exported_session_key[..] != pattern[8..24] {
                    return Outcome::fail("mismatch", "exported-session-key-differs", format!("unwrapped {} expected {}", hex(&ok.exported_session_key), hex(&pattern[8..24])));
                }
                if ok.client_challenge[..] != pattern[..8] {
                    return Outcome::fail("mismatch", "client-challenge-differs", "client challenge in the token is not the generated nonce".to_string());
                }
                // what CredSSP will later send as names must be the same strings in the negotiated encoding
                let want_user = if c.flags & rn::F_UNICODE != 0 { utf16le(&c.user) } else { c.user.as_bytes().to_vec() };
                let oem_non_ascii = c.flags & rn::F_UNICODE == 0 && !c.user.is_ascii();
                if oem_non_ascii {
                    let got = ntlm.get_user_name();
                    if got.is_empty() || got.contains(&0) || got == utf16le(&c.user) {
                        return Outcome::fail("mismatch", "get-user-name-encoding", "get_user_name() of an OEM session is a UTF-16 / NUL-bearing string".to_string());
                    }
                } else if ntlm.get_user_name() != want_user {
                    return Outcome::fail("mismatch", "get-user-name-encoding", "get_user_name() is not the user in the negotiated encoding".to_string());
                }
                let mut o = Outcome::pass(format!("accepted-{}", c.block), idx != 0);
                if let Some(n) = ok.notes.first() {
                    o = o.with_note(n.clone());
                }
                o
            }
        }
    }
}
