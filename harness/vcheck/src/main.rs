//! vcheck — bounded-exhaustive checks of rdp-rs properties (see /verif/DESIGN.md).
//!   vcheck <ID> quick|thorough      run the check for one property
//!   vcheck replay <file>            re-execute the case recorded in a replay file
//!   vcheck selftest                 validate the reference implementations
//! exit 0 = held on everything explored, 1 = violation (VIOLATION line printed), 2 = machinery error

mod alloc;
mod memlink;
mod props;
mod report;
mod runner;

use runner::Tier;
use std::path::PathBuf;

#[global_allocator]
static GLOBAL: alloc::Counting = alloc::Counting;

fn selftest() -> Result<(), String> {
    vref::crypto::self_test()?;
    vref::ntlm::self_test()?;
    vref::rle::self_test()?;
    Ok(())
}

fn main() {
    let args: Vec<String> = std::env::args().collect();
    if args.len() < 2 {
        eprintln!("usage: vcheck <ID> quick|thorough | replay <file> | selftest");
        std::process::exit(2);
    }
    match args[1].as_str() {
        "--worker" => {
            let id = &args[2];
            let tier = Tier::parse(&args[3]).unwrap();
            let w: u64 = args[4].parse().unwrap();
            let nw: u64 = args[5].parse().unwrap();
            let dir = PathBuf::from(&args[6]);
            let from: u64 = args[7].parse().unwrap();
            let inc: u64 = args[8].parse().unwrap();
            let prop = props::sweep_prop(id).expect("unknown property");
            std::process::exit(runner::worker_main(prop, tier, w, nw, &dir, from, inc));
        }
        "--one" => {
            let id = &args[2];
            let tier = Tier::parse(&args[3]).unwrap();
            let idx: u64 = args[4].parse().unwrap();
            let prop = props::sweep_prop(id).expect("unknown property");
            std::process::exit(runner::one_main(prop, tier, idx, false));
        }
        "selftest" => match selftest() {
            Ok(()) => println!("selftest ok"),
            Err(e) => {
                println!("SELFTEST FAILED: {}", e);
                std::process::exit(2);
            }
        },
        "replay" => {
            let text = std::fs::read_to_string(&args[2]).expect("replay file");
            let v: serde_json::Value = serde_json::from_str(&text).expect("replay json");
            let id = v["property"].as_str().unwrap().to_string();
            let tier = Tier::parse(v["tier"].as_str().unwrap()).unwrap();
            if let Some(prop) = props::sweep_prop(&id) {
                let idx = v["idx"].as_u64().unwrap();
                let code = runner::one_main(prop, tier, idx, true);
                if code == 1 {
                    println!("VIOLATION property={} replay={}", id, args[2]);
                } else if code == 0 {
                    println!("replay: no violation reproduced");
                }
                std::process::exit(code);
            }
            eprintln!("replay: unknown property {}", id);
            std::process::exit(2);
        }
        id => {
            let tier = match args.get(2).and_then(|s| Tier::parse(s)).or_else(|| std::env::var("VERIF_TIER").ok().and_then(|s| Tier::parse(&s))) {
                Some(t) => t,
                None => {
                    eprintln!("tier must be quick or thorough");
                    std::process::exit(2);
                }
            };
            if let Err(e) = selftest() {
                println!("SELFTEST FAILED: {}", e);
                std::process::exit(2);
            }
            if let Some(mut prop) = props::sweep_prop(id) {
                match runner::run_parent(prop.as_mut(), tier) {
                    Ok(rr) => std::process::exit(report::finish_sweep(prop.as_mut(), tier, &rr)),
                    Err(e) => {
                        println!("MACHINERY-ERROR property={} {}", id, e);
                        std::process::exit(2);
                    }
                }
            }
            eprintln!("unknown property {}", id);
            std::process::exit(2);
        }
    }
}
