//! C14 — outbound frames are exact and completely delivered, or refused.
//! Drives the real `tpkt::Client::write`, `x224::Client::write` and `Link::write` over an
//! adversarial `Write` (short writes, zero writes, injected errors at every byte position).

use crate::memlink::{MemLink, WritePlan};
use crate::runner::{Outcome, Prop, Tier};
use rdp::core::tpkt;
use rdp::core::x224;
use rdp::model::link::{Link, Stream};
use serde::Serialize;
use serde_json::{json, Value};
use vref::framing;

#[derive(Clone, Copy, Debug, Serialize, PartialEq)]
pub enum Layer {
    /// tpkt::Client::write of a structured message (records with size-dependent / skippable fields): `len` indexes
    /// c18::structured_messages()
    TpktStructured,
    Tpkt,
    X224,
    Link,
    /// a full real conversation over TLS whose transport accepts the writes in pieces (len = 1: NLA on)
    Conversation,
}

#[derive(Clone, Debug, Serialize)]
pub enum WP {
    All,
    Cap(usize),
    Seq(Vec<usize>),
    ErrAt(usize, usize),
    Interrupted(usize),
    /// one transient error at this position (kind index into ERR_KINDS), then the stream accepts again
    ErrOnce(usize, u8),
    /// before this message `shutdown()` is called on the layer object (a no-op on a raw link: the stream still accepts)
    AfterShutdown,
    /// before this message a read on the layer object hits the end of the inbound stream (the peer half-closed; the
    /// outbound direction still accepts)
    AfterReadEof,
    /// before this message the layer object reads one inbound frame of this kind (index into INBOUND): whatever the peer
    /// said, and whether the read succeeded or was refused, what the caller sends next goes out as one exact frame
    AfterInbound(u8),
}

#[derive(Clone, Debug, Serialize)]
pub struct Case {
    pub layer: Layer,
    pub len: usize,
    pub plan: WP,
    /// further messages written on the SAME layer object afterwards (payload length, write behaviour of the stream
    /// during that message; positions are relative to the start of that message)
    pub then: Vec<(usize, WP)>,
}

#[derive(Default)]
pub struct C14 {
    cases: Vec<Case>,
}

impl C14 {
    pub fn new() -> C14 {
        C14::default()
    }
}

/// kinds of the injected transient write error
const ERR_KINDS: [std::io::ErrorKind; 11] = [
    std::io::ErrorKind::WouldBlock,
    std::io::ErrorKind::TimedOut,
    std::io::ErrorKind::ConnectionReset,
    std::io::ErrorKind::Other,
    std::io::ErrorKind::ConnectionAborted,
    std::io::ErrorKind::BrokenPipe,
    std::io::ErrorKind::NotConnected,
    std::io::ErrorKind::UnexpectedEof,
    std::io::ErrorKind::WriteZero,
    std::io::ErrorKind::PermissionDenied,
    // (a short write followed by EINTR inside one frame: the standard library simply calls again)
    std::io::ErrorKind::Interrupted,
];

/// inbound frames for WP::AfterInbound: X.224 disconnect request, error, connection confirm, expedited data, a data TPDU
/// with payload, a data TPDU without payload, a fast-path frame, a TPKT body of one byte, an empty TPKT frame
fn inbound(k: u8) -> Vec<u8> {
    match k {
        0 => framing::tpkt(&[0x06, 0x80, 0, 0, 0, 0, 0]),
        1 => framing::tpkt(&[0x04, 0x70, 0, 0, 0]),
        2 => framing::tpkt(&[0x06, 0xD0, 0, 0, 0x12, 0x34, 0]),
        3 => framing::tpkt(&[0x02, 0x10, 0x80, 1, 2, 3]),
        4 => framing::tpkt(&framing::x224_dt(&[9, 8, 7, 6, 5])),
        5 => framing::tpkt(&framing::x224_dt(&[])),
        6 => framing::fastpath(0, &[1, 2, 3], false),
        7 => framing::tpkt(&[0x80]),
        _ => framing::tpkt(&[]),
    }
}
const N_INBOUND: u8 = 9;

fn payload(n: usize) -> Vec<u8> {
    (0..n).map(|i| ((i as u32 * 13 + 5) & 0xff) as u8).collect()
}

fn max_len(l: Layer) -> usize {
    match l {
        Layer::Tpkt | Layer::TpktStructured => 65531,
        Layer::X224 => 65528,
        Layer::Link | Layer::Conversation => usize::MAX,
    }
}

fn reference(l: Layer, p: &[u8]) -> Vec<u8> {
    match l {
        Layer::Tpkt | Layer::TpktStructured => framing::tpkt(p),
        Layer::X224 => framing::tpkt(&framing::x224_dt(p)),
        Layer::Link | Layer::Conversation => p.to_vec(),
    }
}

const BOUNDARY: &[usize] = &[0, 1, 2, 3, 123, 124, 127, 128, 251, 252, 255, 256, 16379, 16380, 16383, 16384, 32763, 32764, 32767, 32768, 65524, 65525, 65527, 65528, 65529, 65530, 65531, 65532, 65533, 65534, 65535, 65536, 65537, 65540, 70000];

impl Prop for C14 {
    fn id(&self) -> &'static str {
        "C14"
    }
    fn level(&self) -> &'static str {
        "fault_enumeration"
    }
    fn prepare(&mut self, tier: Tier) -> Result<(), String> {
        let mut cs = vec![];
        // A: every payload length 0..70000 on a fully accepting stream
        for len in 0..=70000usize {
            cs.push(Case { layer: Layer::Tpkt, len, plan: WP::All, then: vec![] });
        }
        for layer in [Layer::X224, Layer::Link] {
            for len in 0..=70000usize {
                if tier == Tier::Thorough || len % 97 == 0 || BOUNDARY.contains(&len) || len <= 300 {
                    cs.push(Case { layer, len, plan: WP::All, then: vec![] });
                }
            }
        }
        // B: short-write caps
        let mut lens: Vec<usize> = (0..=300).collect();
        lens.extend(BOUNDARY.iter().copied().filter(|l| *l > 300));
        for layer in [Layer::Tpkt, Layer::Link, Layer::X224] {
            for &len in &lens {
                for k in [1usize, 2, 3, 4, 5, 7, 8, 1024] {
                    if len > 1000 && k < 7 && tier == Tier::Quick && layer != Layer::Tpkt {
                        continue;
                    }
                    cs.push(Case { layer, len, plan: WP::Cap(k), then: vec![] });
                }
            }
        }
        // C: every composition of write sizes for frames of at most 12 bytes
        for layer in [Layer::Tpkt, Layer::Link] {
            let maxp = if layer == Layer::Tpkt { 8 } else { 12 };
            for len in 0..=maxp {
                let total = reference(layer, &payload(len)).len();
                if total == 0 {
                    continue;
                }
                for mask in 0..(1u32 << (total - 1)) {
                    let mut sizes = vec![];
                    let mut run = 1;
                    for i in 0..total - 1 {
                        if mask & (1 << i) != 0 {
                            sizes.push(run);
                            run = 1;
                        } else {
                            run += 1;
                        }
                    }
                    sizes.push(run);
                    cs.push(Case { layer, len, plan: WP::Seq(sizes), then: vec![] });
                }
            }
        }
        // C2: a message, then shutdown() / a read hitting the end of the inbound stream, then another message on the same object
        for layer in [Layer::Tpkt, Layer::Link, Layer::X224] {
            for len in [0usize, 1, 40, 300] {
                for pre in [WP::AfterShutdown, WP::AfterReadEof] {
                    cs.push(Case { layer, len, plan: WP::All, then: vec![(len + 3, pre.clone())] });
                    cs.push(Case { layer, len, plan: pre.clone(), then: vec![(5, WP::All)] });
                    cs.push(Case { layer, len, plan: WP::All, then: vec![(7, pre.clone()), (9, pre.clone())] });
                }
            }
        }
        // C2b: a message, one inbound frame of each kind read on the same object (accepted or refused), another message
        for layer in [Layer::Tpkt, Layer::Link, Layer::X224] {
            for k in 0..N_INBOUND {
                for len in [0usize, 1, 40] {
                    cs.push(Case { layer, len, plan: WP::All, then: vec![(len + 3, WP::AfterInbound(k)), (2, WP::All)] });
                    cs.push(Case { layer, len, plan: WP::AfterInbound(k), then: vec![(5, WP::Cap(2)), (len, WP::AfterInbound((k + 1) % N_INBOUND))] });
                }
            }
        }
        // C3: long runs on one layer object: 300 and 70 000 messages of 0..49 bytes, accepted whole / 3 bytes per write
        for layer in [Layer::Tpkt, Layer::X224, Layer::Link] {
            for n in [300usize, 70_000] {
                cs.push(Case { layer, len: 1, plan: WP::All, then: (0..n).map(|i| (i % 50, if n == 300 && i % 2 == 1 { WP::Cap(3) } else { WP::All })).collect() });
            }
        }
        // D: zero-then-progress
        for layer in [Layer::Tpkt, Layer::Link, Layer::X224] {
            for len in [0usize, 1, 5, 300] {
                cs.push(Case { layer, len, plan: WP::Seq(vec![0]), then: vec![] });
                cs.push(Case { layer, len, plan: WP::Seq(vec![2, 0]), then: vec![] });
                cs.push(Case { layer, len, plan: WP::Seq(vec![0, 0, 0]), then: vec![] });
            }
        }
        // E: write error injected at every byte position
        for layer in [Layer::Tpkt, Layer::Link, Layer::X224] {
            let mut ls: Vec<usize> = (0..=if tier == Tier::Thorough { 300 } else { 64 }).collect();
            ls.extend([255usize, 256, 65531, 65528, 65527]);
            ls.sort();
            ls.dedup();
            for &len in &ls {
                if len > max_len(layer) {
                    continue;
                }
                let total = reference(layer, &payload(len)).len();
                let positions: Vec<usize> = if total <= 80 || (tier == Tier::Thorough && total <= 320) { (0..total).collect() } else { vec![0, 1, 3, 4, 5, 7, total / 2, total - 2, total - 1] };
                for pos in positions {
                    for cap in [usize::MAX, 3] {
                        cs.push(Case { layer, len, plan: WP::ErrAt(pos, cap), then: vec![] });
                    }
                }
            }
        }
        // E2: one transient error (would-block, timed-out, reset, other) at every byte position, the stream accepts afterwards:
        // the call may fail (having delivered a prefix) or succeed (having delivered exactly the frame), nothing else
        for layer in [Layer::Tpkt, Layer::Link, Layer::X224] {
            for len in [0usize, 1, 7, 20, 300] {
                let total = reference(layer, &payload(len)).len();
                let positions: Vec<usize> = if total <= 40 { (0..total).collect() } else { vec![0, 1, 3, 4, 5, 7, total / 2, total - 1] };
                for pos in positions {
                    for kind in 0..ERR_KINDS.len() as u8 {
                        cs.push(Case { layer, len, plan: WP::ErrOnce(pos, kind), then: vec![] });
                        cs.push(Case { layer, len, plan: WP::ErrOnce(pos, kind), then: vec![(5, WP::All)] });
                    }
                }
            }
        }
        // E3: the same for frames longer than one TLS record / one 16 KiB block: one transient error in each part of the frame
        for layer in [Layer::Tpkt, Layer::Link, Layer::X224] {
            for len in [16380usize, 16381, 16384, 20000, 40000, 65528] {
                if len > max_len(layer) {
                    continue;
                }
                let total = reference(layer, &payload(len)).len();
                for pos in [0usize, 1, 100, 16383, 16384, 16385, total / 2, 32768, total - 1] {
                    if pos >= total {
                        continue;
                    }
                    for kind in [0u8, 2, 3, 10] {
                        cs.push(Case { layer, len, plan: WP::ErrOnce(pos, kind), then: vec![(5, WP::All)] });
                    }
                }
            }
        }
        // F: EINTR once
        for layer in [Layer::Tpkt, Layer::Link, Layer::X224] {
            for len in [0usize, 1, 100] {
                for k in [0usize, 1] {
                    cs.push(Case { layer, len, plan: WP::Interrupted(k), then: vec![] });
                }
            }
        }
        // G: whole conversations with a short-writing transport (end to end through OpenSSL and CredSSP)
        for nla in [1usize, 0] {
            for k in [1usize, 2, 3, 5, 7, 16, 1024] {
                cs.push(Case { layer: Layer::Conversation, len: nla, plan: WP::Cap(k), then: vec![] });
            }
            cs.push(Case { layer: Layer::Conversation, len: nla, plan: WP::Seq(vec![1, 2, 3, 1, 1, 5, 7, 1, 2]), then: vec![] });
            cs.push(Case { layer: Layer::Conversation, len: nla, plan: WP::Interrupted(3), then: vec![] });
        }
        // A2: structured messages (not only byte blocks): the frame header must announce what is really emitted
        for i in 0..crate::props::c18::structured_messages().len() {
            cs.push(Case { layer: Layer::TpktStructured, len: i, plan: WP::All, then: vec![] });
            cs.push(Case { layer: Layer::TpktStructured, len: i, plan: WP::Cap(1), then: vec![] });
        }
        // H: sequences of messages on the same layer object: whatever happened to a message (error before the
        // first byte, in mid-frame, short writes, zero-length write, EINTR), the next one is exact again
        let firsts = |total: usize| -> Vec<WP> {
            let mut v = vec![WP::All, WP::ErrAt(0, usize::MAX), WP::Cap(1), WP::Seq(vec![0]), WP::Interrupted(0)];
            for pos in [1, total / 2, total.saturating_sub(1)] {
                if pos > 0 && pos < total {
                    v.push(WP::ErrAt(pos, usize::MAX));
                }
            }
            v
        };
        for layer in [Layer::Tpkt, Layer::X224, Layer::Link] {
            for len1 in [0usize, 1, 5, 300] {
                let total1 = reference(layer, &payload(len1)).len();
                for p1 in firsts(total1) {
                    for len2 in [0usize, 1, 7, 300] {
                        let total2 = reference(layer, &payload(len2)).len();
                        for p2 in [WP::All, WP::Cap(1), WP::ErrAt(total2 / 2, usize::MAX)] {
                            cs.push(Case { layer, len: len1, plan: p1.clone(), then: vec![(len2, p2.clone())] });
                            if tier == Tier::Thorough {
                                for len3 in [0usize, 3, 200] {
                                    for p3 in [WP::All, WP::Cap(2)] {
                                        cs.push(Case { layer, len: len1, plan: p1.clone(), then: vec![(len2, p2.clone()), (len3, p3)] });
                                    }
                                }
                            }
                        }
                    }
                }
            }
        }
        // H2: over-long messages inside sequences on one layer object: an ordinary message after a refused over-long one
        // is exact; a message L + 65536 bytes long after one of L bytes (same low 16 bits) is refused; and back again
        for layer in [Layer::Tpkt, Layer::X224] {
            let m = max_len(layer);
            for l in [0usize, 1, 4, 5, 300, 3000, 4464] {
                cs.push(Case { layer, len: l, plan: WP::All, then: vec![(l + 65536, WP::All), (l, WP::All)] });
                cs.push(Case { layer, len: l + 65536, plan: WP::All, then: vec![(l, WP::All), (l + 65536, WP::All)] });
                cs.push(Case { layer, len: l, plan: WP::All, then: vec![(l + 65532, WP::All), (l + 65529, WP::All), (l, WP::Cap(3))] });
            }
            for big in [m + 1, m + 2, m + 4, m + 7, 65535, 65536, 65537, 70000, 131072, 200000] {
                for small in [0usize, 1, 7, 300, m] {
                    cs.push(Case { layer, len: big, plan: WP::All, then: vec![(small, WP::All)] });
                    cs.push(Case { layer, len: small, plan: WP::All, then: vec![(big, WP::All), (small, WP::All), (big, WP::All), (small + 1, WP::Cap(2))] });
                }
            }
        }
        self.cases = cs;
        Ok(())
    }
    fn n_cases(&self) -> u64 {
        self.cases.len() as u64
    }
    fn describe(&self, idx: u64) -> Value {
        json!({"idx": idx, "case": self.cases[idx as usize]})
    }
    fn rule(&self) -> String {
        "cases = (layer in {tpkt, x224, link}, payload length, write behaviour of the stream); lengths 0..70000 all enumerated on an accepting stream; structured messages (every one-field and several three-field shapes of the C18 message model: size-dependent, skippable, optional, nested fields) framed by tpkt::Client::write; short-write caps {1,2,3,4,5,7,8,1024} for every length <= 300 and every 16-bit boundary length; every composition of write sizes for frames <= 12 bytes; zero-length writes; an error injected at every byte position for lengths <= 64 (<= 300 in thorough) and boundary lengths; EINTR once; one transient error of 11 kinds (WouldBlock, TimedOut, ConnectionReset, ConnectionAborted, BrokenPipe, NotConnected, UnexpectedEof, WriteZero, PermissionDenied, Interrupted, Other) at every byte position after which the stream accepts again (frames of 16 380..65 528 bytes: in each 16 KiB part of the frame); sequences of 2 (3 in thorough) messages on the same layer object, the first one meeting an error before its first byte / after one byte / in mid-frame / on its last byte, one-byte writes, a zero-length write or EINTR, the later ones judged like a first message; runs of 300 and 70 000 messages on one layer object; over-long messages (limit + 1 .. 200000, and L + 65536 after L) before, between and after ordinary ones on one layer object; a message written after one inbound frame of nine kinds was read on the same object (X.224 disconnect request / error / connection confirm / expedited data, data TPDUs, a fast-path frame, one-byte and empty TPKT bodies), after shutdown() or after a read that hit the end of the inbound stream (raw link: the outbound direction still accepts, the frame must go out); plus 18 full real conversations over TLS (NLA on/off) with a transport accepting k bytes per write, k in {1,2,3,5,7,16,1024}, an irregular size sequence, and EINTR. Non-trivial: the stream deviates from accepting everything, or the length is within 8 of a 7/14/15/16-bit boundary or above the frame limit.".into()
    }
    fn assumptions(&self) -> Vec<String> {
        vec![
            "Write::write returning Ok(0) for a non-empty buffer is treated like any other inability to make progress: the call may fail, but must then have delivered a prefix".into(),
            "an over-long message must be refused before anything is written".into(),
        ]
    }
    fn mem_rule(&self, _peak: usize, maxreq: usize, _bytes_in: u64) -> Option<String> {
        if maxreq > (4 << 20) {
            Some(format!("single allocation of {} bytes for a message of at most 70000 bytes", maxreq))
        } else {
            None
        }
    }
    fn run_case(&mut self, idx: u64) -> Outcome {
        let c = crate::alloc::exempt(|| self.cases[idx as usize].clone());
        if c.layer == Layer::Conversation {
            let nla = c.len == 1;
            let wp = match &c.plan {
                WP::Cap(k) => WritePlan::Cap(*k),
                WP::Seq(v) => WritePlan::Seq(v.clone()),
                WP::Interrupted(k) => WritePlan::InterruptedAt(*k),
                _ => WritePlan::All,
            };
            let cfg = crate::tls::ConnCfg { use_nla: nla, ..Default::default() };
            let p = crate::peer::ServerParams { selected: if nla { 2 } else { 1 }, reactivations: 1, ..Default::default() };
            return match crate::wire::converse_fragmented(&cfg, &p, crate::tls::Cert::A, true, crate::memlink::ReadPlan::All, wp) {
                Err(e) => Outcome::fail("setup", "machinery", e),
                Ok(t) => match crate::wire::check_c03(&t) {
                    Some(f) => Outcome::fail("mismatch", format!("conversation-fails-with-short-writing-transport: {}", f.sig), format!("{:?}: {}", c.plan, f.detail)),
                    None => Outcome::pass("conversation-with-short-writes", true),
                },
            };
        }
        if c.layer == Layer::TpktStructured {
            let (desc, msg, bytes) = crate::props::c18::structured_messages().swap_remove(c.len);
            let link = MemLink::scripted(&[]);
            let sh = link.sh.clone();
            sh.borrow_mut().write_plan = match &c.plan {
                WP::Cap(k) => WritePlan::Cap(*k),
                _ => WritePlan::All,
            };
            let r = tpkt::Client::new(Link::new(Stream::Raw(link))).write(msg);
            let delivered = sh.borrow().from_client.clone();
            if bytes.len() > max_len(Layer::Tpkt) {
                // too large for one frame: refused, nothing sent
                return match r {
                    Err(_) if delivered.is_empty() => Outcome::pass("structured-refused-oversize", true),
                    Err(_) => Outcome::fail("oversize", "oversize-message-partially-sent", format!("{}: {} bytes emitted for a refused message", desc, delivered.len())),
                    Ok(()) => Outcome::fail("oversize", "oversize-message-accepted", format!("{}: {} byte message accepted", desc, bytes.len())),
                };
            }
            let want = framing::tpkt(&bytes);
            return match r {
                Ok(()) if delivered == want => Outcome::pass("structured-ok", true),
                Ok(()) => Outcome::fail("mismatch", "structured-message-frame-differs", format!("{}: header says {} bytes, {} bytes emitted, reference frame {} bytes", desc, if delivered.len() >= 4 { u16::from_be_bytes([delivered[2], delivered[3]]) as usize } else { 0 }, delivered.len(), want.len())),
                Err(e) => Outcome::fail("mismatch", "spurious-error", format!("{}: {:?}", desc, e)),
            };
        }
        let link = MemLink::scripted(&[]);
        let sh = link.sh.clone();
        enum Obj {
            L(Link<MemLink>),
            T(tpkt::Client<MemLink>),
            X(x224::Client<MemLink>),
        }
        let l = Link::new(Stream::Raw(link));
        let mut obj = match c.layer {
            Layer::Link => Obj::L(l),
            Layer::Tpkt => Obj::T(tpkt::Client::new(l)),
            Layer::X224 => Obj::X(x224::Client::verif_new_raw(tpkt::Client::new(l), x224::Protocols::ProtocolSSL)),
            Layer::Conversation | Layer::TpktStructured => unreachable!(),
        };
        let msgs = crate::alloc::exempt(|| {
            let mut msgs = vec![(c.len, c.plan.clone())];
            msgs.extend(c.then.iter().cloned());
            msgs
        });
        let n_msgs = msgs.len();
        let mut last = Outcome::pass("empty", false);
        for (mi, (len, plan)) in msgs.into_iter().enumerate() {
            let p = payload(len);
            let start = sh.borrow().from_client.len();
            {
                let mut shm = sh.borrow_mut();
                shm.write_seq_pos = 0;
                shm.write_calls = 0;
                shm.write_plan = match &plan {
                    WP::All => WritePlan::All,
                    WP::Cap(k) => WritePlan::Cap(*k),
                    WP::Seq(v) => WritePlan::Seq(v.clone()),
                    WP::ErrAt(pos, cap) => WritePlan::ErrAt { pos: start + *pos, cap: *cap },
                    WP::Interrupted(k) => WritePlan::InterruptedAt(*k),
                    WP::ErrOnce(pos, kind) => WritePlan::ErrOnceAt { pos: start + *pos, kind: ERR_KINDS[*kind as usize % ERR_KINDS.len()] },
                    WP::AfterShutdown | WP::AfterReadEof | WP::AfterInbound(_) => WritePlan::All,
                };
            }
            match (&plan, &mut obj) {
                (WP::AfterShutdown, Obj::L(l)) => drop(l.shutdown()),
                (WP::AfterShutdown, Obj::T(t)) => drop(t.shutdown()),
                (WP::AfterShutdown, Obj::X(x)) => drop(x.shutdown()),
                (WP::AfterReadEof, Obj::L(l)) => {
                    let _ = l.read(0);
                    let _ = l.read(4);
                }
                (WP::AfterReadEof, Obj::T(t)) => drop(t.read()),
                (WP::AfterReadEof, Obj::X(x)) => drop(x.read()),
                (WP::AfterInbound(k), o) => {
                    crate::alloc::exempt(|| sh.borrow_mut().push_to_client(&inbound(*k)));
                    match o {
                        Obj::L(l) => drop(l.read(4)),
                        Obj::T(t) => drop(t.read()),
                        Obj::X(x) => drop(x.read()),
                    }
                    crate::alloc::exempt(|| sh.borrow_mut().to_client.clear());
                }
                _ => {}
            }
            let start = sh.borrow().from_client.len();
            let res = match &mut obj {
                Obj::L(l) => l.write(&p.clone()).is_ok(),
                Obj::T(t) => t.write(p.clone()).is_ok(),
                Obj::X(x) => x.write(p.clone()).is_ok(),
            };
            let o = judge(c.layer, len, &plan, res, &sh.borrow().from_client[start..], &p);
            if o.violation.is_some() {
                if mi == 0 {
                    return o;
                }
                let v = o.violation.unwrap();
                return Outcome::fail("mismatch", format!("after-earlier-message:{}", v.sig), format!("message #{} on the same {:?} object (earlier: {:?}): {}", mi + 1, c.layer, c.plan, v.detail));
            }
            last = o;
        }
        if n_msgs > 1 {
            last.class = format!("seq{}:{}", n_msgs, last.class);
            last.nontrivial = true;
        }
        last
    }
}

fn judge(layer: Layer, len: usize, plan: &WP, res: bool, delivered: &[u8], p: &[u8]) -> Outcome {
    let near = |b: usize| len + 8 >= b && len <= b + 8;
    let nontrivial = !matches!(plan, WP::All) || near(127) || near(16383) || near(32767) || near(65535) || len > max_len(layer);
    if len > max_len(layer) {
        if res {
            return Outcome::fail("oversize", "oversize-message-accepted", format!("{} byte message accepted by {:?}; {} bytes emitted, header {:02x?}", len, layer, delivered.len(), &delivered[..delivered.len().min(4)]));
        }
        if !delivered.is_empty() {
            return Outcome::fail("oversize", "oversize-message-partially-sent", format!("{} bytes emitted for a refused message", delivered.len()));
        }
        return Outcome::pass("refused-oversize", true);
    }
    let want = reference(layer, p);
    if res {
        if delivered != &want[..] {
            let sig = if delivered.len() < want.len() && want.starts_with(delivered) { "ok-but-bytes-lost" } else { "ok-but-wrong-bytes" };
            return Outcome::fail("mismatch", sig, format!("write returned Ok; {} bytes reached the stream for a frame of {} (plan {:?})", delivered.len(), want.len(), plan));
        }
        Outcome::pass("ok-complete", nontrivial)
    } else {
        if !want.starts_with(delivered) {
            return Outcome::fail("mismatch", "err-with-non-prefix", format!("write failed and the {} delivered bytes are not a prefix of the frame", delivered.len()));
        }
        match plan {
            WP::All | WP::Cap(_) => Outcome::fail("mismatch", "spurious-error", format!("write failed although the stream makes progress (plan {:?}, len {})", plan, len)),
            WP::Seq(v) if !v.contains(&0) => Outcome::fail("mismatch", "spurious-error", format!("write failed although the stream makes progress (plan {:?}, len {})", plan, len)),
            _ => Outcome::pass("err-prefix", nontrivial),
        }
    }
}
