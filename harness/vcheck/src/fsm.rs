//! C12 — activation state machine. Explicit-state search (stateright) over the product of the REAL
//! `global::Client` (driven through `RdpClient::read/write/try_write` on the raw stack) and a
//! reference automaton, plus all unmerged histories to a depth (differential check of the state key).

use crate::fixture::{raw_connect, ClientCfg};
use crate::memlink::MemLink;
use crate::peer::ServerParams;
use crate::runner::{Outcome, Prop, Tier};
use rdp::core::client::RdpClient;
use rdp::core::event::{PointerButton, PointerEvent, RdpEvent};

use serde_json::{json, Value};
use stateright::{Checker, Model, Property};
use std::collections::BTreeSet;
use std::hash::{Hash, Hasher};
use vref::fastpath::{self, Rect, Update};
use vref::{framing, mcs, share};

pub const EVENTS: [&str; 12] = [
    "demand-active(A)",
    "demand-active(B)",
    "synchronize",
    "control-cooperate",
    "control-granted",
    "control-other",
    "font-map",
    "set-error-info",
    "unknown-data-pdu",
    "deactivate-all",
    "fast-path-bitmap",
    "fast-path-other",
];
pub const SHARE_A: u32 = 0x000103EA;
pub const SHARE_B: u32 = 0x77665544;
const USER_ID: u16 = 1007;

fn sdi(data: &[u8]) -> Vec<u8> {
    framing::tpkt(&framing::x224_dt(&mcs::send_data_indication(1002, 1003, data)))
}

/// the slow-path letters that may be packed two to a frame (BFS only): the ten slow-path letters of EVENTS and a
/// Set Error Info carrying a non-zero code
pub const INNER: [usize; 15] = [0, 1, 2, 3, 4, 5, 6, 7, 8, 9, 12, 13, 14, 15, 16];

/// first event id of the packed frames (letters 0..SINGLE-1 are single PDUs)
pub const SINGLE: usize = 18;

/// number of events explored per state by the BFS: the 12 letters, letter 12 (set-error-info with a non-zero code),
/// letter 13 (deactivate-all naming another share id), letter 14 (a font list sent by the server), letter 15 (a font map whose mapFlags are 0) and every ordered pair of INNER letters packed into ONE frame
pub fn n_bfs_events() -> usize {
    // (event ids are u8 in the histories: the alphabet must stay below 256)
    let n = SINGLE + INNER.len() * INNER.len();
    assert!(n <= 255, "VERIF: the BFS alphabet no longer fits the u8 event ids");
    n
}

/// letters carried by an event: one for 0..=12, two for a packed frame
pub fn decompose(ev: usize) -> Vec<usize> {
    if ev >= BIG_BASE {
        let (count, filler, last) = big_of(ev);
        let mut v = vec![filler; count];
        v.push(last);
        return v;
    }
    if ev < SINGLE {
        vec![ev]
    } else {
        let k = ev - SINGLE;
        vec![INNER[k / INNER.len()], INNER[k % INNER.len()]]
    }
}

/// event ids from here on: one frame packing `count` copies of a filler letter followed by a last letter
pub const BIG_BASE: usize = 100_000;
pub const BIG_COUNTS: [usize; 8] = [31, 32, 255, 256, 1023, 1024, 1025, 1400];
pub const BIG_FILLERS: [usize; 3] = [7, 5, 12];
pub const BIG_LASTS: [usize; 2] = [9, 13];
pub fn big_event(count_i: usize, filler_i: usize, last_i: usize) -> usize {
    BIG_BASE + (count_i * BIG_FILLERS.len() + filler_i) * BIG_LASTS.len() + last_i
}
fn big_of(ev: usize) -> (usize, usize, usize) {
    let k = ev - BIG_BASE;
    (BIG_COUNTS[k / (BIG_FILLERS.len() * BIG_LASTS.len())], BIG_FILLERS[(k / BIG_LASTS.len()) % BIG_FILLERS.len()], BIG_LASTS[k % BIG_LASTS.len()])
}

pub fn event_name(ev: usize) -> String {
    if ev >= BIG_BASE {
        let (count, filler, last) = big_of(ev);
        return format!("one frame [{} x {} + {}]", count, event_name(filler), event_name(last));
    }
    match ev {
        0..=11 => EVENTS[ev].to_string(),
        12 => "set-error-info(non-zero)".to_string(),
        13 => "deactivate-all(naming another share id)".to_string(),
        14 => "font-list(a client PDU, same layout as the font map, sent by the server)".to_string(),
        15 => "font-map(mapFlags 0)".to_string(),
        16 => "share-control PDU of a type the client does not implement (server redirection, 0x1A)".to_string(),
        17 => "demand-active(B) with an empty capability list".to_string(),
        _ => {
            let d = decompose(ev);
            format!("one frame [{} + {}]", event_name(d[0]), event_name(d[1]))
        }
    }
}

fn event_inner(ev: usize, sid: u32) -> Vec<u8> {
    match ev {
        0 => share::demand_active(SHARE_A, 1002, b"RDP\0", &share::minimal_caps(), 0),
        1 => share::demand_active(SHARE_B, 1002, b"RDP\0", &share::minimal_caps(), 0),
        2 => share::synchronize(sid, 1002, USER_ID),
        3 => share::control(sid, 1002, share::CTRLACTION_COOPERATE, 0, 0),
        4 => share::control(sid, 1002, share::CTRLACTION_GRANTED_CONTROL, USER_ID, 0x03EA),
        5 => share::control(sid, 1002, share::CTRLACTION_DETACH, 0, 0),
        6 => share::font_map(sid, 1002),
        7 => share::set_error_info(sid, 1002, 0),
        8 => share::save_session_info(sid, 1002),
        9 => share::deactivate_all(sid, 1002),
        13 => share::deactivate_all(sid ^ 0x0001_0001, 1002),
        14 => share::font_list_from_server(sid, 1002),
        15 => share::font_map_flags(sid, 1002, 0),
        16 => share::share_control(0x1A, 1002, &[0u8; 12]),
        17 => share::demand_active(SHARE_B, 1002, b"RDP\0", &[], 0),
        _ => share::set_error_info(sid, 1002, 5),
    }
}

pub fn event_frame(ev: usize, current_share: u32) -> Vec<u8> {
    let sid = if current_share == 0 { SHARE_A } else { current_share };
    match ev {
        10 => {
            let r = Rect { left: 1, top: 2, right: 2, bottom: 2, width: 2, height: 1, bpp: 16, flags: 0, data: vec![1, 2, 3, 4] };
            framing::fastpath(0, &fastpath::updates_payload(&[Update::Bitmap(vec![r])]), false)
        }
        11 => framing::fastpath(0, &fastpath::updates_payload(&[fastpath::other_update(fastpath::UPD_SYNCHRONIZE), fastpath::other_update(fastpath::UPD_PTR_POSITION)]), false),
        _ => {
            // the second PDU of a packed frame that follows a demand-active carries the new share id
            let mut sid = sid;
            let mut body = vec![];
            for l in decompose(ev) {
                body.extend(event_inner(l, sid));
                if l == 0 {
                    sid = SHARE_A;
                } else if l == 1 || l == 17 {
                    sid = SHARE_B;
                }
            }
            sdi(&body)
        }
    }
}

/// canonical product state: (implementation state id, implementation share id, input window open)
#[derive(Clone, Debug, PartialEq, Eq, Hash, PartialOrd, Ord)]
pub struct Key {
    pub impl_state: u8,
    pub share: Option<u32>,
}

/// reference automaton: states 0..5 as in the specification order
/// returns the set of permitted next states
fn permitted(r: u8, ev: usize) -> Vec<u8> {
    match (r, ev) {
        (0, 0) | (0, 1) => vec![1],
        (1, 2) => vec![2],
        (2, 3) => vec![3],
        (3, 4) => vec![4],
        (4, 6) => vec![5],
        (5, 9) => vec![0],
        // the statement is silent about a deactivate-all during activation: both readings permitted
        (1..=4, 9) => vec![r, 0],
        _ => vec![r],
    }
}

#[derive(Clone, Debug, PartialEq, Eq)]
pub enum ClientPdu {
    ConfirmActive { share: u32, source: u16 },
    Synchronize { share: u32 },
    Control { share: u32, action: u16 },
    FontList { share: u32 },
    Input { share: u32, n: usize },
    Other(String),
}

/// decode everything the client wrote (TPKT frames) into PDUs
pub fn decode_client_bytes(b: &[u8]) -> Vec<ClientPdu> {
    let mut out = vec![];
    let mut pos = 0;
    while pos < b.len() {
        match framing::deframe(&b[pos..]) {
            framing::Deframe::Frame(framing::Frame::Tpkt(p), n) => {
                pos += n;
                out.push(decode_one(&p));
            }
            _ => {
                out.push(ClientPdu::Other("unframed bytes".into()));
                break;
            }
        }
    }
    out
}

fn decode_one(tpkt_payload: &[u8]) -> ClientPdu {
    let r = (|| -> Result<ClientPdu, String> {
        let dt = framing::parse_x224_dt(tpkt_payload)?;
        let data = match mcs::parse_client_domain_pdu(dt)? {
            mcs::DomainPdu::SendDataRequest { data, .. } => data,
            other => return Ok(ClientPdu::Other(format!("{:?}", other))),
        };
        let sc = share::parse_share_control(&data)?;
        match sc.pdu_type {
            share::PDUTYPE_CONFIRMACTIVE => {
                let ca = share::parse_confirm_active(&sc.body)?;
                Ok(ClientPdu::ConfirmActive { share: ca.share_id, source: sc.pdu_source })
            }
            share::PDUTYPE_DATA => {
                let sd = share::parse_share_data(&sc.body)?;
                Ok(match share::parse_client_data(&sd)? {
                    share::ClientData::Synchronize { .. } => ClientPdu::Synchronize { share: sd.share_id },
                    share::ClientData::Control { action, .. } => ClientPdu::Control { share: sd.share_id, action },
                    share::ClientData::FontList { .. } => ClientPdu::FontList { share: sd.share_id },
                    share::ClientData::Input(ev) => ClientPdu::Input { share: sd.share_id, n: ev.len() },
                    share::ClientData::Other(t, _) => ClientPdu::Other(format!("data pdu {:#x}", t)),
                })
            }
            t => Ok(ClientPdu::Other(format!("pdu type {:#x}", t))),
        }
    })();
    r.unwrap_or_else(|e| ClientPdu::Other(format!("undecodable: {}", e)))
}

pub struct Live {
    pub client: RdpClient<MemLink>,
    pub sh: std::rc::Rc<std::cell::RefCell<crate::memlink::Shared>>,
    pub ref_state: u8,
    pub ref_share: u32,
    pub window_opened: u64,
}

pub fn fresh() -> Result<Live, String> {
    fresh_with(&ClientCfg::default())
}

/// the same with another client configuration (screen size, name, layout: what the client writes depends on them)
pub fn fresh_with(cfg: &ClientCfg) -> Result<Live, String> {
    let p = ServerParams { manual: true, user_id: USER_ID, ..Default::default() };
    let c = raw_connect(cfg, p, vec![]);
    if let Some((st, e)) = c.error {
        return Err(format!("honest connect failed at {}: {}", st, e));
    }
    Ok(Live { client: c.client.unwrap(), sh: c.sh, ref_state: 0, ref_share: 0, window_opened: 0 })
}

/// the kinds of input a user produces: a click, a pointer move, a key press, a key release
fn probe_event(k: usize) -> RdpEvent {
    match k {
        0 => RdpEvent::Pointer(PointerEvent { x: 3, y: 4, button: PointerButton::Left, down: true }),
        1 => RdpEvent::Pointer(PointerEvent { x: 5, y: 6, button: PointerButton::None, down: false }),
        2 => RdpEvent::Key(rdp::core::event::KeyboardEvent { code: 0x1E, down: true }),
        _ => RdpEvent::Key(rdp::core::event::KeyboardEvent { code: 0x1E, down: false }),
    }
}

/// execute one event on the live client and check every clause of the property. Err(sig, detail) on violation.
pub fn step(l: &mut Live, ev: usize) -> Result<Key, (String, String)> {
    let frame = event_frame(ev, l.ref_share);
    let before = l.sh.borrow().from_client.len();
    l.sh.borrow_mut().push_to_client(&frame);
    let mut callbacks = 0;
    let res = l.client.read(|e| {
        if let RdpEvent::Bitmap(_) = e {
            callbacks += 1;
        }
    });
    let left = l.sh.borrow().to_client.len();
    if left != 0 {
        // drain so that the next event starts at a frame boundary (an error may stop before the end)
        l.sh.borrow_mut().to_client.clear();
    }
    let written = l.sh.borrow().from_client[before..].to_vec();
    let pdus = decode_client_bytes(&written);
    let post = l.client.verif_global().verif_state_id();
    let share_now = l.client.verif_global().verif_share_id();
    let r = l.ref_state;
    let name = event_name(ev);
    // (a)+(b) emissions and state: every outcome the reference automaton allows for this frame
    let finalization = |x: u32| {
        vec![
            ClientPdu::ConfirmActive { share: x, source: USER_ID },
            ClientPdu::Synchronize { share: x },
            ClientPdu::Control { share: x, action: share::CTRLACTION_COOPERATE },
            ClientPdu::Control { share: x, action: share::CTRLACTION_REQUEST_CONTROL },
            ClientPdu::FontList { share: x },
        ]
    };
    let ref_one = |st: u8, sh: u32, e: usize| -> Vec<(u8, u32, Vec<ClientPdu>)> {
        // a demand-active is a demand-active whatever its capability list holds
        let e = if e == 17 { 1 } else { e };
        if st == 0 && e <= 1 {
            let x = if e == 0 { SHARE_A } else { SHARE_B };
            return vec![(1, x, finalization(x))];
        }
        // a Set Error Info is a Set Error Info whatever its code; a deactivate-all ends the share whatever id it names
        let e = match e {
            12 => 7,
            13 => 9,
            // a font list is not the font map: like any data PDU the state does not expect
            14 => 8,
            // a font map is a font map whatever its mapFlags
            15 => 6,
            // a share-control PDU of another type changes nothing (the read may report it as an error)
            16 => 8,
            _ => e,
        };
        permitted(st, e).into_iter().map(|s2| (s2, sh, vec![])).collect()
    };
    let letters = decompose(ev);
    let mut outs: Vec<(u8, u32, Vec<ClientPdu>)> = vec![(r, l.ref_share, vec![])];
    for (i, e) in letters.iter().enumerate() {
        let mut next = vec![];
        for (st, sh, em) in &outs {
            for (s2, sh2, em2) in ref_one(*st, *sh, *e) {
                let mut em_all = em.clone();
                em_all.extend(em2);
                next.push((s2, sh2, em_all));
            }
        }
        if i >= 1 {
            // the statement quantifies over sequences of server messages, not over their packing into frames. Only
            // the active state has a reader that walks through every PDU of a frame, so only there must every PDU
            // count (a deactivate-all must not get lost behind another PDU). Once the frame has taken the client
            // out of the active state — or if the frame did not start in it — ignoring the rest of the frame is as good as
            // handling it.
            next.extend(outs.iter().filter(|o| r != 5 || o.0 != 5).cloned());
            // a reader that stops with an error at a PDU it does not implement does not see what follows it in the frame:
            // everything BEFORE that PDU counts, what comes after it may be lost
            if letters[..i].contains(&16) {
                next.extend(outs.iter().cloned());
            }
        }
        outs = next;
    }
    match outs.iter().find(|(s2, _, em)| *s2 == post && *em == pdus) {
        Some((_, sh, _)) => l.ref_share = *sh,
        None => {
            let expects_emission = outs.iter().any(|o| !o.2.is_empty());
            if !outs.iter().any(|o| o.0 == post) {
                return Err(("illegal-state-transition".into(), format!("event {} in state {} moved the client to state {} (permitted {:?}, read result ok={})", name, r, post, outs.iter().map(|o| o.0).collect::<Vec<_>>(), res.is_ok())));
            }
            if expects_emission {
                return Err(("wrong-finalization-sequence".into(), format!("after {} in state {} the client sent {:?}, expected one of {:?}", name, r, pdus, outs.iter().map(|o| &o.2).collect::<Vec<_>>())));
            }
            return Err(("unexpected-emission".into(), format!("event {} in reference state {} made the client send {:?}", name, r, pdus)));
        }
    }
    if r == 0 && ev <= 1 && res.is_err() {
        return Err(("demand-active-answered-with-error".into(), format!("{:?}", res.err())));
    }
    // (e) bitmap delivery only inside the window
    let want_cb = if r == 5 && ev == 10 { 1 } else { 0 };
    if callbacks != want_cb {
        return Err(("bitmap-callback-outside-window-or-lost".into(), format!("event {} in state {}: {} bitmap callbacks, expected {}", name, r, callbacks, want_cb)));
    }
    l.ref_state = post;
    if post == 5 && r != 5 {
        l.window_opened += 1;
    }
    // (c)/(d) input probe with both write flavours
    for (lenient, pk) in [(false, 0usize), (true, 0), (false, 1), (true, 1), (false, 2), (true, 2), (false, 3), (true, 3)] {
        let b0 = l.sh.borrow().from_client.len();
        let wr = if lenient { l.client.try_write(probe_event(pk)) } else { l.client.write(probe_event(pk)) };
        let bytes = l.sh.borrow().from_client[b0..].to_vec();
        let sent = decode_client_bytes(&bytes);
        if post == 5 {
            if wr.is_err() {
                return Err(("input-refused-inside-window".into(), format!("after {} (state 5) write returned {:?}", name, wr.err())));
            }
            let sid = l.ref_share;
            if sent != vec![ClientPdu::Input { share: sid, n: 1 }] {
                return Err(("input-not-transmitted-exactly-once".into(), format!("after {} the probe produced {:?}", name, sent)));
            }
        } else {
            if !bytes.is_empty() {
                return Err(("input-outside-window-reached-the-wire".into(), format!("after {} (state {}) the {} produced {:?}", name, post, if lenient { "try_write" } else { "write" }, sent)));
            }
            match (lenient, &wr) {
                (true, Ok(())) => {}
                // "refused": any error will do (the statement does not name the kind)
                (false, Err(_)) => {}
                _ => return Err(("input-outside-window-wrong-result".into(), format!("after {} (state {}) {} returned {:?}", name, post, if lenient { "try_write" } else { "write" }, wr.map_err(|e| format!("{:?}", e))))),
            }
        }
    }
    Ok(Key { impl_state: post, share: share_now })
}

/// replay a history from a fresh client; a panic of the code under test is a violation
/// inverse of event_name over every event id in use
pub fn event_code(name: &str) -> Option<usize> {
    let n_big = BIG_COUNTS.len() * BIG_FILLERS.len() * BIG_LASTS.len();
    (0..n_bfs_events()).chain(BIG_BASE..BIG_BASE + n_big).find(|e| event_name(*e) == name)
}

pub fn run_history(h: &[u8]) -> Result<Vec<Key>, (String, String)> {
    run_history_codes(&h.iter().map(|e| *e as usize).collect::<Vec<_>>())
}

pub fn run_history_codes(h: &[usize]) -> Result<Vec<Key>, (String, String)> {
    let _ = crate::runner::take_panic();
    match std::panic::catch_unwind(|| run_history_inner(h)) {
        Ok(r) => r,
        Err(_) => {
            let p = crate::runner::take_panic().unwrap_or_else(|| "? :: panic".into());
            Err((format!("panic@{}", crate::runner::panic_sig(&p)), format!("history {:?}: {}", h, p)))
        }
    }
}

fn run_history_inner(h: &[usize]) -> Result<Vec<Key>, (String, String)> {
    let mut l = fresh().map_err(|e| ("machinery".to_string(), e))?;
    let mut keys = vec![];
    for (i, ev) in h.iter().enumerate() {
        match step(&mut l, *ev) {
            Ok(k) => keys.push(k),
            Err((sig, d)) => return Err((sig, format!("step {} of history {:?}: {}", i, h.iter().map(|e| event_name(*e)).collect::<Vec<_>>(), d))),
        }
    }
    Ok(keys)
}

// ------------------------------------------------------------------ stateright model

#[derive(Clone, Debug)]
pub struct St {
    pub hist: Vec<u8>,
    pub key: Key,
    pub viol: Option<(String, String)>,
}
impl PartialEq for St {
    fn eq(&self, o: &Self) -> bool {
        self.key == o.key && self.viol.is_some() == o.viol.is_some()
    }
}
impl Eq for St {}
impl Hash for St {
    fn hash<H: Hasher>(&self, h: &mut H) {
        self.key.hash(h);
        self.viol.is_some().hash(h);
    }
}

pub struct FsmModel {
    pub transitions: std::sync::atomic::AtomicU64,
    pub replays: std::sync::atomic::AtomicU64,
}

impl Model for FsmModel {
    type State = St;
    type Action = u8;
    fn init_states(&self) -> Vec<St> {
        vec![St { hist: vec![], key: Key { impl_state: 0, share: None }, viol: None }]
    }
    fn actions(&self, s: &St, actions: &mut Vec<u8>) {
        if s.viol.is_none() {
            for e in 0..n_bfs_events() as u8 {
                actions.push(e);
            }
        }
    }
    fn next_state(&self, s: &St, a: u8) -> Option<St> {
        use std::sync::atomic::Ordering::Relaxed;
        let mut h = s.hist.clone();
        h.push(a);
        self.transitions.fetch_add(1, Relaxed);
        self.replays.fetch_add(1, Relaxed);
        // the real client is rebuilt and the whole history replayed (live objects do not clone)
        Some(match run_history(&h) {
            Ok(keys) => St { hist: h, key: keys.last().unwrap().clone(), viol: None },
            Err(v) => St { hist: h, key: s.key.clone(), viol: Some(v) },
        })
    }
    fn properties(&self) -> Vec<Property<Self>> {
        vec![
            Property::<Self>::always("every clause of C12 holds on every transition", |_, s| s.viol.is_none()),
            Property::<Self>::sometimes("input window opens", |_, s| s.key.impl_state == 5),
        ]
    }
}

pub struct BfsResult {
    pub states: BTreeSet<Key>,
    pub transitions: u64,
    pub replays: u64,
    pub violation: Option<(Vec<u8>, String, String)>,
    pub max_depth: usize,
}

pub fn bfs() -> BfsResult {
    use std::sync::atomic::Ordering::Relaxed;
    let model = FsmModel { transitions: 0.into(), replays: 0.into() };
    let checker = model.checker().threads(1).spawn_bfs().join();
    let mut violation = None;
    if let Some(path) = checker.discovery("every clause of C12 holds on every transition") {
        let last = path.last_state().clone();
        if let Some((sig, d)) = last.viol {
            violation = Some((last.hist.clone(), sig, d));
        }
    }
    // enumerate the reachable keys ourselves (stateright does not expose its visited set): closure by our own BFS, reusing the same step function
    let mut states: BTreeSet<Key> = BTreeSet::new();
    let mut frontier: Vec<(Vec<u8>, Key)> = vec![(vec![], Key { impl_state: 0, share: None })];
    states.insert(frontier[0].1.clone());
    let mut transitions = 0u64;
    let mut max_depth = 0;
    while let Some((h, _k)) = frontier.pop() {
        for e in 0..n_bfs_events() as u8 {
            let mut h2 = h.clone();
            h2.push(e);
            transitions += 1;
            match run_history(&h2) {
                Ok(keys) => {
                    let k = keys.last().unwrap().clone();
                    if states.insert(k.clone()) {
                        max_depth = max_depth.max(h2.len());
                        frontier.insert(0, (h2, k));
                    }
                }
                Err((sig, d)) => {
                    if violation.is_none() {
                        violation = Some((h2, sig, d));
                    }
                }
            }
        }
    }
    let checker_states = checker.unique_state_count() as u64;
    let _ = checker_states;
    BfsResult { states, transitions: transitions + checker.model().transitions.load(Relaxed), replays: transitions + checker.model().replays.load(Relaxed), violation, max_depth }
}

// ------------------------------------------------------------------ unmerged histories (sweep)

pub struct C12Histories {
    /// (prefix executed first, maximal suffix length): every suffix of length 1..=depth over the alphabet follows the prefix
    blocks: Vec<(Vec<u8>, usize)>,
}

/// a complete activation with share id A / B
pub const ACT_A: [u8; 5] = [0, 2, 3, 4, 6];
pub const ACT_B: [u8; 5] = [1, 2, 3, 4, 6];

fn block_size(depth: usize) -> u64 {
    let n = EVENTS.len() as u64;
    (1..=depth as u32).map(|d| n.pow(d)).sum()
}

impl C12Histories {
    pub fn new() -> Self {
        C12Histories { blocks: vec![] }
    }
    pub fn blocks_for(tier: Tier) -> Vec<(Vec<u8>, usize)> {
        let reactivated: Vec<u8> = ACT_A.iter().chain([9u8].iter()).chain(ACT_B.iter()).copied().collect();
        let d = if tier == Tier::Quick { [5, 4, 3] } else { [7, 5, 5] };
        let mut v = vec![(vec![], d[0]), (ACT_A.to_vec(), d[1]), (reactivated, d[2])];
        // many activation / deactivation cycles on one connection (state that only accumulates shows late), each
        // followed by every single letter, and by every pair after 40 cycles
        for cycles in [3usize, 8, 16, 33, 40, 70] {
            let mut p: Vec<u8> = vec![];
            for k in 0..cycles {
                p.extend(if k % 2 == 0 { ACT_A.iter() } else { ACT_B.iter() });
                if k + 1 < cycles {
                    p.push(9);
                }
            }
            v.push((p, if cycles == 40 { 2 } else { 1 }));
        }
        // 300 cycles (anything counted per re-activation in 8 bits wraps or saturates)
        {
            let mut p: Vec<u8> = vec![];
            for k in 0..300 {
                p.extend(if k % 2 == 0 { ACT_A.iter() } else { ACT_B.iter() });
                if k + 1 < 300 {
                    p.push(9);
                }
            }
            v.push((p, 1));
        }
        // 40 cycles whose finalizations are interleaved with PDUs the client has to skip (a Set Error Info, an unknown data
        // PDU, another control PDU): 120 skipped PDUs over the life of the connection
        {
            let mut p: Vec<u8> = vec![];
            for k in 0..40 {
                let act = if k % 2 == 0 { ACT_A } else { ACT_B };
                p.extend([act[0], 7, act[1], 8, act[2], 5, act[3], act[4]]);
                if k + 1 < 40 {
                    p.push(9);
                }
            }
            v.push((p, 1));
        }
        v
    }
    /// frames packing many PDUs in front of a deactivate-all, received by an active client (after one activation / after
    /// a re-activation)
    fn n_big() -> u64 {
        (2 * BIG_COUNTS.len() * BIG_FILLERS.len() * BIG_LASTS.len()) as u64
    }
    fn big_case(i: u64) -> (Vec<u8>, usize) {
        let per = (BIG_COUNTS.len() * BIG_FILLERS.len() * BIG_LASTS.len()) as u64;
        let prefix: Vec<u8> = if i / per == 0 { ACT_A.to_vec() } else { ACT_A.iter().chain([9u8].iter()).chain(ACT_B.iter()).chain([9u8].iter()).chain(ACT_A.iter()).copied().collect() };
        (prefix, BIG_BASE + (i % per) as usize)
    }
    fn history(&self, idx: u64) -> Vec<u8> {
        let mut i = idx;
        for (prefix, depth) in &self.blocks {
            let size = block_size(*depth);
            if i >= size {
                i -= size;
                continue;
            }
            // all suffixes of length 1..=depth, shortest first
            let n = EVENTS.len() as u64;
            let mut len = 1;
            let mut count = n;
            while i >= count {
                i -= count;
                len += 1;
                count *= n;
            }
            let mut h = vec![0u8; len];
            for k in (0..len).rev() {
                h[k] = (i % n) as u8;
                i /= n;
            }
            let mut full = prefix.clone();
            full.extend(h);
            return full;
        }
        panic!("VERIF: history index out of range");
    }
}

impl Prop for C12Histories {
    fn id(&self) -> &'static str {
        "C12"
    }
    fn level(&self) -> &'static str {
        "model_checking"
    }
    fn prepare(&mut self, tier: Tier) -> Result<(), String> {
        self.blocks = Self::blocks_for(tier);
        Ok(())
    }
    fn n_cases(&self) -> u64 {
        self.blocks.iter().map(|(_, d)| block_size(*d)).sum::<u64>() + Self::n_big()
    }
    fn describe(&self, idx: u64) -> Value {
        let plain: u64 = self.blocks.iter().map(|(_, d)| block_size(*d)).sum();
        if idx >= plain {
            let (prefix, ev) = Self::big_case(idx - plain);
            return json!({"idx": idx, "history": prefix.iter().map(|e| EVENTS[*e as usize].to_string()).chain([event_name(ev)]).chain(ACT_B.iter().map(|e| EVENTS[*e as usize].to_string())).collect::<Vec<_>>()});
        }
        let h = self.history(idx);
        json!({"idx": idx, "history": h.iter().map(|e| EVENTS[*e as usize]).collect::<Vec<_>>()})
    }
    fn rule(&self) -> String {
        "every history of server PDUs of length <= depth over the 12-letter alphabet, replayed on a fresh real client with four input attempts (a click, a pointer move, a key press, a key release; each through write and try_write) after every step, from three starting points: the fresh client (depth 5, 7 in thorough), a client that completed an activation (depth 4 / 5), and a client that completed an activation, was deactivated and completed a second activation with another share id (depth 3 / 5); and clients that went through 3, 8, 16, 33, 40, 70 or 300 activation / deactivation cycles (depth 1; 2 after 40 cycles), or through 40 cycles whose finalizations are interleaved with three PDUs to be skipped each; an active client (first activation / third) receiving ONE frame that packs 31, 32, 255, 256, 1023, 1024, 1025 or 1400 Set Error Info (code 0 or not) / other control PDUs in front of a deactivate-all (naming the share or another id), followed by a complete activation; the prefixes are executed and checked like any other step; non-trivial: histories in which the input window opens at least once".into()
    }
    fn assumptions(&self) -> Vec<String> {
        vec![]
    }
    fn run_case(&mut self, idx: u64) -> Outcome {
        let plain: u64 = self.blocks.iter().map(|(_, d)| block_size(*d)).sum();
        if idx >= plain {
            let (prefix, ev) = Self::big_case(idx - plain);
            let _ = crate::runner::take_panic();
            if decompose(ev).iter().map(|l| event_inner(*l, SHARE_A).len()).sum::<usize>() > 0x7fff {
                return Outcome::pass("packed:does-not-fit-one-send-data-indication", false);
            }
            let r = std::panic::catch_unwind(|| -> Result<Key, (String, String)> {
                let mut l = fresh().map_err(|e| ("machinery".to_string(), e))?;
                for e in &prefix {
                    step(&mut l, *e as usize).map_err(|(s, d)| (s, format!("prefix: {}", d)))?;
                }
                step(&mut l, ev).map_err(|(s, d)| (s, format!("after {:?}: {}", prefix, d)))?;
                // the connection goes on: a complete activation with the other share id must work as usual
                let mut k = None;
                for e in ACT_B {
                    k = Some(step(&mut l, e as usize).map_err(|(s, d)| (s, format!("activation after {}: {}", event_name(ev), d)))?);
                }
                Ok(k.unwrap())
            });
            return match r {
                Ok(Ok(k)) => Outcome::pass(format!("packed:key:{}", k.impl_state), true),
                Ok(Err((sig, d))) => Outcome::fail("violation", sig, d),
                Err(_) => {
                    let p = crate::runner::take_panic().unwrap_or_else(|| "? :: panic".into());
                    Outcome::fail("violation", format!("panic@{}", crate::runner::panic_sig(&p)), format!("{}: {}", event_name(ev), p))
                }
            };
        }
        let h = self.history(idx);
        match run_history(&h) {
            Ok(keys) => {
                let k = keys.last().unwrap();
                let opened = keys.iter().any(|k| k.impl_state == 5);
                // class = final key: the parent compares the set of keys with the BFS fixpoint
                Outcome::pass(format!("key:{}:{}", k.impl_state, k.share.map(|s| format!("{:#x}", s)).unwrap_or_else(|| "none".into())), opened)
            }
            Err((sig, d)) => Outcome::fail("violation", sig, d),
        }
    }
}
