//! Reference bitmap codecs.
//!  * Interleaved RLE, 16 bpp: decoder transcribed from the MS-RDPBCGR 3.1.9 pseudo-code
//!    (per-order first-line test), plus an order model with an emitter for every spelling.
//!  * RDP 6.0 planar codec (MS-RDPEGDI 3.1.9) at 32 bpp: encoder over every row segmentation.
//!  * 5-6-5 widening by exact rounding.

use crate::bytes::*;

// ------------------------------------------------------------------ interleaved RLE 16 bpp

#[derive(Clone, Debug, PartialEq, Eq, Hash, serde::Serialize, serde::Deserialize)]
pub enum Kind {
    BgRun,
    FgRun,
    FgBgImage,
    ColorRun,
    ColorImage,
    SetFgRun,
    SetFgFgBgImage,
    DitheredRun,
    SpecialFgBg1,
    SpecialFgBg2,
    White,
    Black,
}

#[derive(Clone, Debug, PartialEq, Eq, Hash, serde::Serialize, serde::Deserialize)]
pub enum Form {
    /// run length in the order byte
    Short,
    /// order byte with zero length bits + one extension byte ("MEGA")
    Extended,
    /// 0xF? order byte + 16-bit length ("MEGA MEGA")
    MegaMega,
}

#[derive(Clone, Debug, PartialEq, Eq, Hash, serde::Serialize, serde::Deserialize)]
pub struct Order {
    pub kind: Kind,
    pub form: Form,
    /// pixels (pairs for dithered runs)
    pub run: u32,
    pub fg: u16,
    pub a: u16,
    pub b: u16,
    /// bitmasks (FGBG) — one byte per started group of 8 pixels
    pub masks: Vec<u8>,
    /// raw pixels (colour image)
    pub pixels: Vec<u16>,
}

impl Order {
    pub fn simple(kind: Kind, form: Form, run: u32) -> Order {
        Order { kind, form, run, fg: 0, a: 0, b: 0, masks: vec![], pixels: vec![] }
    }
    /// number of destination pixels this order produces
    pub fn pixels_out(&self) -> u32 {
        match self.kind {
            Kind::DitheredRun => self.run * 2,
            Kind::SpecialFgBg1 | Kind::SpecialFgBg2 => 8,
            Kind::White | Kind::Black => 1,
            _ => self.run,
        }
    }
}

/// can this (kind, form, run) be spelled at all? (MS-RDPBCGR 2.2.9.1.1.3.1.2.4)
pub fn spellable(kind: &Kind, form: &Form, run: u32) -> bool {
    use Kind::*;
    let regular = matches!(kind, BgRun | FgRun | FgBgImage | ColorRun | ColorImage);
    let lite = matches!(kind, SetFgRun | SetFgFgBgImage | DitheredRun);
    let fgbg = matches!(kind, FgBgImage | SetFgFgBgImage);
    match kind {
        SpecialFgBg1 | SpecialFgBg2 | White | Black => return *form == Form::Short,
        _ => {}
    }
    match form {
        Form::Short => {
            if fgbg {
                // stored as run/8 in the length bits
                let max = if regular { 31 } else { 15 };
                run % 8 == 0 && run / 8 >= 1 && run / 8 <= max
            } else if regular {
                (1..=31).contains(&run)
            } else {
                lite && (1..=15).contains(&run)
            }
        }
        Form::Extended => {
            if fgbg {
                (1..=256).contains(&run)
            } else if regular {
                (32..=287).contains(&run)
            } else {
                (16..=271).contains(&run)
            }
        }
        Form::MegaMega => (1..=0xffff).contains(&run),
    }
}

pub fn emit(o: &Order, w: &mut W) {
    use Kind::*;
    let (reg_code, lite_code, mega_code): (Option<u8>, Option<u8>, Option<u8>) = match o.kind {
        BgRun => (Some(0x0), None, Some(0xF0)),
        FgRun => (Some(0x1), None, Some(0xF1)),
        FgBgImage => (Some(0x2), None, Some(0xF2)),
        ColorRun => (Some(0x3), None, Some(0xF3)),
        ColorImage => (Some(0x4), None, Some(0xF4)),
        SetFgRun => (None, Some(0xC), Some(0xF6)),
        SetFgFgBgImage => (None, Some(0xD), Some(0xF7)),
        DitheredRun => (None, Some(0xE), Some(0xF8)),
        SpecialFgBg1 => {
            w.u8(0xF9);
            return;
        }
        SpecialFgBg2 => {
            w.u8(0xFA);
            return;
        }
        White => {
            w.u8(0xFD);
            return;
        }
        Black => {
            w.u8(0xFE);
            return;
        }
    };
    let fgbg = matches!(o.kind, FgBgImage | SetFgFgBgImage);
    assert!(spellable(&o.kind, &o.form, o.run), "unspellable order {:?}", o);
    match o.form {
        Form::Short => {
            let l = if fgbg { o.run / 8 } else { o.run } as u8;
            if let Some(c) = reg_code {
                w.u8((c << 5) | l);
            } else {
                w.u8((lite_code.unwrap() << 4) | l);
            }
        }
        Form::Extended => {
            if let Some(c) = reg_code {
                w.u8(c << 5);
                w.u8(if fgbg { o.run - 1 } else { o.run - 32 } as u8);
            } else {
                w.u8(lite_code.unwrap() << 4);
                w.u8(if fgbg { o.run - 1 } else { o.run - 16 } as u8);
            }
        }
        Form::MegaMega => {
            w.u8(mega_code.unwrap());
            w.u16le(o.run as u16);
        }
    }
    match o.kind {
        SetFgRun => {
            w.u16le(o.fg);
        }
        SetFgFgBgImage => {
            w.u16le(o.fg);
            w.bytes(&o.masks);
        }
        FgBgImage => {
            w.bytes(&o.masks);
        }
        ColorRun => {
            w.u16le(o.a);
        }
        DitheredRun => {
            w.u16le(o.a).u16le(o.b);
        }
        ColorImage => {
            for p in &o.pixels {
                w.u16le(*p);
            }
        }
        _ => {}
    }
}

pub fn emit_all(orders: &[Order]) -> Vec<u8> {
    let mut w = W::new();
    for o in orders {
        emit(o, &mut w);
    }
    w.done()
}

#[derive(Clone, Debug, PartialEq, Eq)]
pub enum Decoded {
    /// complete image, rows top-down
    Image(Vec<u16>),
    /// a background/foreground/FGBG order straddles the end of the first scan line: the prose of
    /// MS-RDPBCGR and its pseudo-code disagree, "conformant" is undefined
    Ambiguous,
    /// stream malformed, overruns or does not fill the image
    Invalid(String),
}

fn extract_run(hdr: u8, r: &mut R) -> PResult<(Kind, u32)> {
    use Kind::*;
    if hdr & 0xF0 == 0xF0 {
        let k = match hdr {
            0xF0 => BgRun,
            0xF1 => FgRun,
            0xF2 => FgBgImage,
            0xF3 => ColorRun,
            0xF4 => ColorImage,
            0xF6 => SetFgRun,
            0xF7 => SetFgFgBgImage,
            0xF8 => DitheredRun,
            0xF9 => return Ok((SpecialFgBg1, 8)),
            0xFA => return Ok((SpecialFgBg2, 8)),
            0xFD => return Ok((White, 1)),
            0xFE => return Ok((Black, 1)),
            _ => return Err(format!("undefined order byte {:#x}", hdr)),
        };
        return Ok((k, r.u16le()? as u32));
    }
    if hdr & 0xC0 == 0xC0 {
        // lite
        let k = match hdr >> 4 {
            0xC => SetFgRun,
            0xD => SetFgFgBgImage,
            0xE => DitheredRun,
            _ => unreachable!(),
        };
        let l = (hdr & 0x0f) as u32;
        let run = if k == SetFgFgBgImage {
            if l == 0 {
                r.u8()? as u32 + 1
            } else {
                l * 8
            }
        } else if l == 0 {
            r.u8()? as u32 + 16
        } else {
            l
        };
        return Ok((k, run));
    }
    let k = match hdr >> 5 {
        0 => BgRun,
        1 => FgRun,
        2 => FgBgImage,
        3 => ColorRun,
        4 => ColorImage,
        _ => return Err(format!("undefined order byte {:#x}", hdr)),
    };
    let l = (hdr & 0x1f) as u32;
    let run = if k == FgBgImage {
        if l == 0 {
            r.u8()? as u32 + 1
        } else {
            l * 8
        }
    } else if l == 0 {
        r.u8()? as u32 + 32
    } else {
        l
    };
    Ok((k, run))
}

/// MS-RDPBCGR 3.1.9 RleDecompress for 16 bpp, rowDelta = width pixels.
pub fn decode16(src: &[u8], width: usize, height: usize) -> Decoded {
    use Kind::*;
    let total = width * height;
    let mut dst: Vec<u16> = Vec::with_capacity(total);
    let mut r = R::new(src);
    let mut first_line = true;
    let mut insert_fg = false;
    let mut fg: u16 = 0xffff;
    macro_rules! put {
        ($v:expr) => {{
            if dst.len() >= total {
                return Decoded::Invalid("overruns the destination".into());
            }
            let v = $v;
            dst.push(v);
        }};
    }
    macro_rules! tr {
        ($e:expr) => {
            match $e {
                Ok(v) => v,
                Err(e) => return Decoded::Invalid(e),
            }
        };
    }
    while !r.at_end() {
        if first_line && dst.len() >= width {
            first_line = false;
            insert_fg = false;
        }
        let hdr = tr!(r.u8());
        let (kind, run) = tr!(extract_run(hdr, &mut r));
        let produces = match kind {
            DitheredRun => run as usize * 2,
            _ => run as usize,
        };
        // an order whose semantics depend on the line (bg / fg / fgbg) and that starts in the first line
        // but extends beyond it has two readings
        let line_dependent = matches!(kind, BgRun | FgRun | SetFgRun | FgBgImage | SetFgFgBgImage | SpecialFgBg1 | SpecialFgBg2);
        if first_line && line_dependent && dst.len() + produces > width && height > 1 {
            return Decoded::Ambiguous;
        }
        if kind == BgRun {
            let mut n = run;
            if n == 0 {
                return Decoded::Invalid("zero run".into());
            }
            if first_line {
                if insert_fg {
                    put!(fg);
                    n -= 1;
                }
                for _ in 0..n {
                    put!(0);
                }
            } else {
                if insert_fg {
                    if dst.len() < width {
                        return Decoded::Invalid("no previous line".into());
                    }
                    put!(dst[dst.len() - width] ^ fg);
                    n -= 1;
                }
                for _ in 0..n {
                    put!(dst[dst.len() - width]);
                }
            }
            insert_fg = true;
            continue;
        }
        insert_fg = false;
        match kind {
            FgRun | SetFgRun => {
                if kind == SetFgRun {
                    fg = tr!(r.u16le());
                }
                for _ in 0..run {
                    if first_line {
                        put!(fg);
                    } else {
                        put!(dst[dst.len() - width] ^ fg);
                    }
                }
            }
            DitheredRun => {
                let a = tr!(r.u16le());
                let b = tr!(r.u16le());
                for _ in 0..run {
                    put!(a);
                    put!(b);
                }
            }
            ColorRun => {
                let a = tr!(r.u16le());
                for _ in 0..run {
                    put!(a);
                }
            }
            FgBgImage | SetFgFgBgImage | SpecialFgBg1 | SpecialFgBg2 => {
                if kind == SetFgFgBgImage {
                    fg = tr!(r.u16le());
                }
                let mut left = run;
                while left > 0 {
                    let bits = left.min(8);
                    let mask = match kind {
                        SpecialFgBg1 => 0x03,
                        SpecialFgBg2 => 0x05,
                        _ => tr!(r.u8()),
                    };
                    for i in 0..bits {
                        let set = mask & (1 << i) != 0;
                        if first_line {
                            put!(if set { fg } else { 0 });
                        } else {
                            let above = dst[dst.len() - width];
                            put!(if set { above ^ fg } else { above });
                        }
                    }
                    left -= bits;
                }
            }
            ColorImage => {
                for _ in 0..run {
                    put!(tr!(r.u16le()));
                }
            }
            White => put!(0xffff),
            Black => put!(0),
            BgRun => unreachable!(),
        }
    }
    if dst.len() != total {
        return Decoded::Invalid(format!("fills {} of {} pixels", dst.len(), total));
    }
    // decoded rows are bottom-up; deliver top-down
    let mut out = Vec::with_capacity(total);
    for row in (0..height).rev() {
        out.extend_from_slice(&dst[row * width..(row + 1) * width]);
    }
    Decoded::Image(out)
}

// ------------------------------------------------------------------ 5-6-5 widening

pub fn widen565(v: u16) -> [u8; 4] {
    let r5 = ((v >> 11) & 0x1f) as u32;
    let g6 = ((v >> 5) & 0x3f) as u32;
    let b5 = (v & 0x1f) as u32;
    // exact rounding of c*255/max
    let r = (r5 * 255 * 2 + 31) / 62;
    let g = (g6 * 255 * 2 + 63) / 126;
    let b = (b5 * 255 * 2 + 31) / 62;
    [b as u8, g as u8, r as u8, 0xff]
}

pub fn image16_to_bgra(px: &[u16]) -> Vec<u8> {
    px.iter().flat_map(|p| widen565(*p)).collect()
}

/// uncompressed 16 bpp wire form: rows bottom-up, each row padded to a multiple of four bytes
pub fn raw16(px: &[u16], width: usize, height: usize) -> Vec<u8> {
    let mut w = W::new();
    for row in (0..height).rev() {
        for x in 0..width {
            w.u16le(px[row * width + x]);
        }
        let pad = (4 - (width * 2) % 4) % 4;
        w.zeros(pad);
    }
    w.done()
}

/// uncompressed 32 bpp wire form: rows bottom-up, BGRA (or BGRX) pixels
pub fn raw32(bgra: &[u8], width: usize, height: usize) -> Vec<u8> {
    let mut out = Vec::with_capacity(bgra.len());
    for row in (0..height).rev() {
        out.extend_from_slice(&bgra[row * width * 4..(row + 1) * width * 4]);
    }
    out
}

// ------------------------------------------------------------------ RDP 6.0 planar, 32 bpp, RLE, with alpha

/// one scan-line segment: `raw` literal values followed by a run of `run` repeats (run == 0 or run >= 3)
#[derive(Clone, Debug, PartialEq, Eq)]
pub struct Seg {
    pub raw: Vec<u8>,
    pub run: usize,
}

fn emit_seg(s: &Seg, w: &mut W) {
    // a segment carries at most 15 raw bytes; runs: 0, 3..15 in the nibble, 16..47 through the two escapes
    assert!(s.raw.len() <= 15);
    assert!(s.run == 0 || (3..=47).contains(&s.run));
    if s.run >= 16 {
        // long run escape: raw bytes must go into a preceding segment
        if !s.raw.is_empty() {
            w.u8((s.raw.len() as u8) << 4);
            w.bytes(&s.raw);
        }
        if s.run >= 32 {
            w.u8((((s.run - 32) as u8) << 4) | 2);
        } else {
            w.u8((((s.run - 16) as u8) << 4) | 1);
        }
    } else {
        w.u8(((s.raw.len() as u8) << 4) | s.run as u8);
        w.bytes(&s.raw);
    }
}

/// all ways to cut one scan line of (absolute or delta) values into raw/run segments.
/// `start_run_value` is the value a run repeats when no raw byte preceded it in this scan line (0).
pub fn segmentations(vals: &[u8]) -> Vec<Vec<Seg>> {
    fn rec(vals: &[u8], pos: usize, last: u8, cur: &mut Vec<Seg>, out: &mut Vec<Vec<Seg>>) {
        if pos == vals.len() {
            out.push(cur.clone());
            return;
        }
        // choose number of raw bytes k (0..=15) then a run length r (0 or >=3) such that the run matches
        let maxk = (vals.len() - pos).min(15);
        for k in 0..=maxk {
            let run_val = if k > 0 { vals[pos + k - 1] } else { last };
            // maximal available run
            let mut avail = 0;
            while pos + k + avail < vals.len() && vals[pos + k + avail] == run_val {
                avail += 1;
            }
            let mut runs: Vec<usize> = vec![];
            if k > 0 {
                runs.push(0);
            }
            for r in 3..=avail.min(47) {
                runs.push(r);
            }
            for r in runs {
                if k == 0 && r == 0 {
                    continue;
                }
                cur.push(Seg { raw: vals[pos..pos + k].to_vec(), run: r });
                rec(vals, pos + k + r, run_val, cur, out);
                cur.pop();
            }
        }
    }
    let mut out = vec![];
    rec(vals, 0, 0, &mut vec![], &mut out);
    out
}

fn delta_encode(d: i32) -> u8 {
    // d in -128..=127 (mod 256 arithmetic): positive -> 2d, negative -> 2|d|-1
    let d = ((d + 128).rem_euclid(256)) - 128;
    if d >= 0 {
        if d <= 127 {
            (d as u8) << 1
        } else {
            unreachable!()
        }
    } else {
        ((((-d) as u32) << 1) - 1) as u8
    }
}

/// the four planes (A, R, G, B) of a top-down BGRA image as per-scan-line value lists in encoding order
/// (bottom row first; rows after the first are delta-coded against the previously encoded row)
pub fn planar_lines(bgra: &[u8], width: usize, height: usize) -> Vec<Vec<Vec<u8>>> {
    let mut planes = vec![];
    for &chan in &[3usize, 2, 1, 0] {
        let mut lines = vec![];
        for (k, row) in (0..height).rev().enumerate() {
            let mut vals = vec![];
            for x in 0..width {
                let v = bgra[(row * width + x) * 4 + chan] as i32;
                if k == 0 {
                    vals.push(v as u8);
                } else {
                    let above = bgra[((row + 1) * width + x) * 4 + chan] as i32;
                    vals.push(delta_encode(v - above));
                }
            }
            lines.push(vals);
        }
        planes.push(lines);
    }
    planes
}

/// deterministic segmentation strategies for scan lines too long to enumerate exhaustively
///  0: greedy maximal runs (up to 47, i.e. both long-run escapes)   1: no runs, raw chunks of 15
///  2: runs capped at 15 (no escapes)   3: raw chunks of 1   4: runs capped at 16 (smallest escape)
///  5: runs capped at 32 (second escape boundary)   6: runs capped at 31   7: raw chunks of 7, runs capped at 33
pub fn strategy_segs(vals: &[u8], strategy: usize) -> Vec<Seg> {
    let (max_run, raw_chunk): (usize, usize) = match strategy % 8 {
        0 => (47, 15),
        1 => (0, 15),
        2 => (15, 15),
        3 => (47, 1),
        4 => (16, 15),
        5 => (32, 15),
        6 => (31, 4),
        _ => (33, 7),
    };
    let mut out: Vec<Seg> = vec![];
    let mut pos = 0;
    let mut last: u8 = 0;
    let mut raw: Vec<u8> = vec![];
    while pos < vals.len() {
        let run_val = if let Some(l) = raw.last() { *l } else { last };
        let mut avail = 0;
        while pos + avail < vals.len() && vals[pos + avail] == run_val {
            avail += 1;
        }
        let take = avail.min(max_run);
        if take >= 3 {
            out.push(Seg { raw: raw.clone(), run: take });
            last = run_val;
            raw.clear();
            pos += take;
            continue;
        }
        raw.push(vals[pos]);
        pos += 1;
        if raw.len() == raw_chunk {
            last = *raw.last().unwrap();
            out.push(Seg { raw: raw.clone(), run: 0 });
            raw.clear();
        }
    }
    if !raw.is_empty() {
        out.push(Seg { raw, run: 0 });
    }
    out
}

/// encode with an explicit segmentation per (plane, line)
pub fn planar_encode_with<F: FnMut(usize, usize, &[u8]) -> Vec<Seg>>(bgra: &[u8], width: usize, height: usize, mut segs_for: F) -> Vec<u8> {
    let mut w = W::new();
    w.u8(0x10);
    for (pi, plane) in planar_lines(bgra, width, height).iter().enumerate() {
        for (li, line) in plane.iter().enumerate() {
            for s in &segs_for(pi, li, line) {
                emit_seg(s, &mut w);
            }
        }
    }
    w.done()
}

/// encode with a chooser that picks, for (plane, line), one of all possible segmentations (short lines only)
pub fn planar_encode<F: FnMut(usize, usize, &[Vec<Seg>]) -> usize>(bgra: &[u8], width: usize, height: usize, mut choose: F) -> Vec<u8> {
    planar_encode_with(bgra, width, height, |pi, li, line| {
        let segs = segmentations(line);
        let pick = choose(pi, li, &segs);
        segs[pick].clone()
    })
}

/// Reference planar decoder (used only to validate the encoder in the self test)
pub fn planar_decode(src: &[u8], width: usize, height: usize) -> PResult<Vec<u8>> {
    let mut r = R::new(src);
    if r.u8()? != 0x10 {
        return Err("planar: header".into());
    }
    let mut out = vec![0u8; width * height * 4];
    for &chan in &[3usize, 2, 1, 0] {
        for (k, row) in (0..height).rev().enumerate() {
            let mut x = 0;
            let mut last: i32 = 0;
            while x < width {
                let c = r.u8()?;
                let mut run = (c & 0x0f) as usize;
                let mut raw = (c >> 4) as usize;
                if run == 1 {
                    run = 16 + raw;
                    raw = 0;
                } else if run == 2 {
                    run = 32 + raw;
                    raw = 0;
                }
                if x + raw + run > width {
                    return Err("planar: segment overruns scan line".into());
                }
                for _ in 0..raw {
                    let b = r.u8()?;
                    last = if k == 0 {
                        b as i32
                    } else if b & 1 != 0 {
                        -(((b >> 1) as i32) + 1)
                    } else {
                        (b >> 1) as i32
                    };
                    let v = if k == 0 { last } else { out[((row + 1) * width + x) * 4 + chan] as i32 + last };
                    out[(row * width + x) * 4 + chan] = v as u8;
                    x += 1;
                }
                for _ in 0..run {
                    let v = if k == 0 { last } else { out[((row + 1) * width + x) * 4 + chan] as i32 + last };
                    out[(row * width + x) * 4 + chan] = v as u8;
                    x += 1;
                }
            }
        }
    }
    r.expect_end("planar")?;
    Ok(out)
}

pub fn self_test() -> Result<(), String> {
    // widening: monotone, endpoints exact, within 0.5 of the real value
    for v in 0..=0xffffu32 {
        let p = widen565(v as u16);
        let r5 = (v >> 11) & 0x1f;
        let exact = r5 as f64 * 255.0 / 31.0;
        if (p[2] as f64 - exact).abs() > 0.5 + 1e-9 {
            return Err(format!("widen565 rounding {:#x}", v));
        }
    }
    // emit ∘ decode identity on a handful of streams
    let img = vec![1u16, 2, 3, 4, 5, 6];
    let o = Order { kind: Kind::ColorImage, form: Form::Short, run: 6, fg: 0, a: 0, b: 0, masks: vec![], pixels: vec![5, 6, 3, 4, 1, 2] };
    match decode16(&emit_all(&[o]), 2, 3) {
        Decoded::Image(i) if i == img => {}
        other => return Err(format!("rle self-test colour image: {:?}", other)),
    }
    // MS-RDPBCGR style: bg run on first line = black, fg run = white, then second line copies/xors
    let s = emit_all(&[
        Order::simple(Kind::BgRun, Form::Short, 2),
        Order::simple(Kind::FgRun, Form::Short, 2),
        Order::simple(Kind::BgRun, Form::Short, 2),
        Order::simple(Kind::BgRun, Form::Short, 2),
    ]);
    // first line: 0 0 ffff ffff ; second line: bg(2) copies 0 0 ; second bg run inserts fg xor above(ffff)=0 then copies ffff
    match decode16(&s, 4, 2) {
        Decoded::Image(i) if i == vec![0, 0, 0, 0xffff, 0, 0, 0xffff, 0xffff] => {}
        other => return Err(format!("rle self-test bg/fg: {:?}", other)),
    }
    // planar: every segmentation of a small image decodes back
    let bgra: Vec<u8> = vec![1, 2, 3, 4, 1, 2, 3, 4, 1, 2, 3, 4, 9, 9, 9, 9, 0, 0, 0, 0xff, 0x80, 0x7f, 1, 0, 5, 5, 5, 5, 5, 5, 5, 5];
    let mut n = 0;
    for pick in 0..4 {
        let enc = planar_encode(&bgra, 4, 2, |_, _, segs| pick % segs.len());
        let dec = planar_decode(&enc, 4, 2)?;
        if dec != bgra {
            return Err(format!("planar self-test pick {}", pick));
        }
        n += 1;
    }
    if n == 0 {
        return Err("planar self-test vacuous".into());
    }
    for (w, h) in [(40usize, 2usize), (64, 1), (5, 3)] {
        let img: Vec<u8> = (0..w * h * 4).map(|i| if (i / 4) % w < 3 { i as u8 } else { 0x80 }).collect();
        for st in 0..8 {
            let enc = planar_encode_with(&img, w, h, |_, _, line| strategy_segs(line, st));
            if planar_decode(&enc, w, h)? != img {
                return Err(format!("planar strategy {} self-test {}x{}", st, w, h));
            }
        }
    }
    Ok(())
}

#[cfg(test)]
mod t {
    #[test]
    fn st() {
        super::self_test().unwrap();
    }
}

// ------------------------------------------------------------------ a greedy reference *encoder* (interleaved RLE, 16 bpp)

/// deterministic encoding strategies: which order kinds the encoder may use and which spelling it prefers
#[derive(Clone, Copy, Debug, PartialEq, Eq, serde::Serialize, serde::Deserialize)]
pub struct EncStrategy {
    pub bg: bool,
    pub fg: bool,
    pub fgbg: bool,
    pub color_run: bool,
    pub dithered: bool,
    pub special: bool,
    /// 0: shortest spelling, 1: prefer mega-mega, 2: prefer extended where spellable
    pub form: u8,
    /// cap on run lengths (exercises run splitting)
    pub max_run: u32,
}

fn pick_form(kind: &Kind, run: u32, pref: u8) -> Option<Form> {
    let order: [Form; 3] = match pref {
        1 => [Form::MegaMega, Form::Extended, Form::Short],
        2 => [Form::Extended, Form::Short, Form::MegaMega],
        _ => [Form::Short, Form::Extended, Form::MegaMega],
    };
    order.iter().find(|f| spellable(kind, f, run)).cloned()
}

/// Encode a top-down image into a conformant order sequence. Orders whose meaning depends on the scan
/// line never straddle the end of the first line.
pub fn encode16(img: &[u16], width: usize, height: usize, st: &EncStrategy) -> Vec<Order> {
    // pixels in decode order (bottom row first)
    let mut px: Vec<u16> = Vec::with_capacity(img.len());
    for row in (0..height).rev() {
        px.extend_from_slice(&img[row * width..(row + 1) * width]);
    }
    let total = px.len();
    let mut out: Vec<Order> = vec![];
    let mut pos = 0usize;
    let mut fg: u16 = 0xffff;
    let mut last_was_bg = false;
    while pos < total {
        let first_line = pos < width;
        // line-dependent orders may not cross the end of the first line
        let limit = if first_line { width - pos } else { total - pos };
        let limit = limit.min(st.max_run as usize).max(1);
        let above = |i: usize| if i < width { 0u16 } else { px[i - width] };
        // candidates: (pixels covered, order)
        let mut best: Option<(usize, Order)> = None;
        let mut consider = |n: usize, o: Order, best: &mut Option<(usize, Order)>| {
            if n > 0 && best.as_ref().map(|b| n > b.0).unwrap_or(true) {
                *best = Some((n, o));
            }
        };
        // background run (never directly after another one unless the first line just ended: the decoder would insert a pel)
        if st.bg && !(last_was_bg && pos != width) {
            let mut n = 0;
            while n < limit && px[pos + n] == above(pos + n) {
                n += 1;
            }
            if n > 0 {
                if let Some(f) = pick_form(&Kind::BgRun, n as u32, st.form) {
                    consider(n, Order::simple(Kind::BgRun, f, n as u32), &mut best);
                }
            }
        }
        if st.fg {
            // foreground run with the current or a new foreground colour
            let want = px[pos] ^ above(pos);
            let mut n = 0;
            while n < limit && (px[pos + n] ^ above(pos + n)) == want {
                n += 1;
            }
            if n > 0 && want != 0 {
                let kind = if want == fg { Kind::FgRun } else { Kind::SetFgRun };
                if let Some(f) = pick_form(&kind, n as u32, st.form) {
                    let mut o = Order::simple(kind, f, n as u32);
                    o.fg = want;
                    consider(n, o, &mut best);
                }
            }
        }
        if st.fgbg {
            // FGBG image: every pixel is either background or background xor fg
            let mut f2 = 0u16;
            let mut n = 0;
            while n < limit {
                let d = px[pos + n] ^ above(pos + n);
                if d != 0 {
                    if f2 == 0 {
                        f2 = d;
                    } else if d != f2 {
                        break;
                    }
                }
                n += 1;
            }
            if n >= 4 && f2 != 0 {
                let kind = if f2 == fg { Kind::FgBgImage } else { Kind::SetFgFgBgImage };
                // the short form only spells multiples of 8
                let mut nn = n;
                let mut form = pick_form(&kind, nn as u32, st.form);
                if form.is_none() {
                    nn = n - n % 8;
                    form = if nn > 0 { pick_form(&kind, nn as u32, st.form) } else { None };
                }
                if let Some(f) = form {
                    let mut masks = vec![0u8; (nn + 7) / 8];
                    for i in 0..nn {
                        if px[pos + i] ^ above(pos + i) != 0 {
                            masks[i / 8] |= 1 << (i % 8);
                        }
                    }
                    let mut o = Order::simple(kind, f, nn as u32);
                    o.fg = f2;
                    o.masks = masks;
                    // an FGBG image is less compact than a run of the same length: prefer it only when strictly longer
                    consider(nn.saturating_sub(1), o, &mut best);
                }
            }
        }
        let free_limit = (total - pos).min(st.max_run as usize).max(1);
        if st.color_run {
            let mut n = 0;
            while n < free_limit && px[pos + n] == px[pos] {
                n += 1;
            }
            if n >= 2 {
                if let Some(f) = pick_form(&Kind::ColorRun, n as u32, st.form) {
                    let mut o = Order::simple(Kind::ColorRun, f, n as u32);
                    o.a = px[pos];
                    consider(n, o, &mut best);
                }
            }
        }
        if st.dithered && pos + 1 < total {
            let (a, b) = (px[pos], px[pos + 1]);
            let mut pairs = 0;
            while 2 * (pairs + 1) <= free_limit && pos + 2 * pairs + 1 < total && px[pos + 2 * pairs] == a && px[pos + 2 * pairs + 1] == b {
                pairs += 1;
            }
            if pairs >= 2 && a != b {
                if let Some(f) = pick_form(&Kind::DitheredRun, pairs as u32, st.form) {
                    let mut o = Order::simple(Kind::DitheredRun, f, pairs as u32);
                    o.a = a;
                    o.b = b;
                    consider(2 * pairs, o, &mut best);
                }
            }
        }
        let (n, o) = match best {
            Some(b) if b.0 >= 2 || !matches!(b.1.kind, Kind::FgBgImage | Kind::SetFgFgBgImage) => {
                let cover = b.1.pixels_out() as usize;
                (cover, b.1)
            }
            _ => {
                // literal pixels up to the next position where something better may start (at most 8 here)
                if st.special && px[pos] == 0xffff {
                    (1, Order::simple(Kind::White, Form::Short, 1))
                } else if st.special && px[pos] == 0 {
                    (1, Order::simple(Kind::Black, Form::Short, 1))
                } else {
                    let n = free_limit.min(3);
                    let f = pick_form(&Kind::ColorImage, n as u32, st.form).unwrap_or(Form::MegaMega);
                    let mut o = Order::simple(Kind::ColorImage, f, n as u32);
                    o.pixels = px[pos..pos + n].to_vec();
                    (n, o)
                }
            }
        };
        match o.kind {
            Kind::SetFgRun | Kind::SetFgFgBgImage => fg = o.fg,
            _ => {}
        }
        last_was_bg = o.kind == Kind::BgRun;
        out.push(o);
        pos += n;
    }
    out
}
