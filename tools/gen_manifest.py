#!/usr/bin/env python3
"""Generate /verif/MANIFEST.json from the table below (single source of truth for the check registry)."""
import json, subprocess

# id -> (category, engine, technique, text, note, design_ref)
CHECKS = {
 "C02": ("fault_enumeration", "E-wire", "exhaustive enumeration of negotiation replies (kind x selected value x flags x length) x configurations x certificates on the real Connector::connect / x224::Client::connect over real TLS, with trace oracles on the raw and decrypted byte streams",
         "Every selected-protocol value in the low byte, every single bit above it and mixed patterns, every reply kind (response, failure, echoed request, absent, every other type byte), every flag byte, wrong length fields, offered masks {0,1,2,3,8,0xB}, with NLA on/off, certificate checking on/off and a trusted RSA, trusted EC and untrusted certificate, are answered by the reference peer to the real client. Oracle: an unoffered/invalid selection ends in Err with nothing further written; an acceptable one is followed only by TLS records on the raw transport and (vacuity guard) the conforming conversation completes; no NTLMSSP/password/user bytes on the raw transport; no CredSSP or Client Info message outside TLS; with checking on, an untrusted certificate yields Err and zero application bytes at the server.",
         "Trust is decided through OpenSSL's SSL_CERT_FILE seam; host-name matching is not exercised (rdp-rs connects with an empty name). Trusted: OpenSSL/native-tls, reference peer.", "§4 C02"),
 "C03": ("exploration", "E-wire", "deviation-bounded exhaustive enumeration (<=2 alternatives; <=3 thorough) over 21 configuration/server-parameter dimensions; each case is a full real connect + activation + input + shutdown over real TLS checked against the mandated sequence",
         "The default configuration, every single alternative and every pair (every triple in thorough) of: NLA, restricted admin, blank credentials, auto logon, password|hash, client names, screen sizes, layouts, credential sets, selected protocol, user ids 1001..65535, share ids, versions, optional SC_CORE fields, block orders, unknown blocks, SC_NET padding, licence variants, capability lists (Windows capture, unknown and empty sets), source descriptors, 0..2 reactivations. Oracle: connect succeeds; the reference peer sees exactly the mandated message sequence; no request is written while the reply it depends on is still unread; user id, channel 1003, share id, selected protocol and configured values are echoed; per demand-active exactly confirm-active + synchronize + cooperate + request-control + font-list; shutdown sends the disconnect-provider ultimatum.",
         "NTLM challenge fixed to the Windows-like default here. Joins compared as a set. Trusted: reference peer (validated against the captures embedded in rdp-rs's tests).", "§4 C03"),
 "C04": ("exploration", "E-wire", "every client PDU of full real conversations (configuration alternatives and a Unicode string alphabet for name/domain/user/password) parsed by strict independent parsers at every layer",
         "Conversations as C03 (default, every single alternative; every pair in thorough) plus every string of the 4-class Unicode alphabet x boundary lengths as client name, domain, user and password with NLA on and off. Every message the client writes is parsed strictly: TPKT/X.224, DER connect-initial, PER conference-create-request, CS_* block lengths, 32-byte clientName (<=15 UTF-16 units + NUL), info packet counts/terminators/extended info, share control/data lengths, confirm-active counts and per-type capability sizes, input PDU numEvents, NTLM descriptor triples, DER TSRequest/TSCredentials; the strings must equal the configured ones.",
         "Lenient fields: uncompressedLength spellings, sourceDescriptor NUL. Trusted: vref strict parsers.", "§4 C04"),
 "C05": ("fault_enumeration", "E-wire", "deviation-bounded exhaustive fault enumeration (1 deviation; 2 in thorough) over an honest setup conversation with the reference peer, plus all short byte strings at every parser entry, executed on the real connect path",
         "The real x224::Client::connect, mcs::Client::connect and sec::connect (licence) are run against the reference peer with every single deviation of every server message: every byte offset x value set (all 256 in thorough), every offset as 16/32-bit field in both byte orders x boundary set, every truncation, extensions; every message payload and every parser entry (gcc response, licence, per primitives) additionally receives every byte string of length <=2 (<=3) and every string of length 3..5 (..6) over 8 boundary bytes; thorough adds all pairs of {00, FF, truncate} faults. Oracle: the call returns (panic caught and attributed), no abort, allocation rule, read-count bound, no hang (per-case journal + timeout).",
         "Post-negotiation layers run over Stream::Raw via hook H3 (the TLS path is C02/C07). The checked build (overflow checks on) decides; the wrapping build is part of thorough. Trusted: reference peer, counting allocator.", "§4 C05"),
 "C06": ("fault_enumeration", "E-wire", "deviation-bounded exhaustive fault enumeration over every server PDU kind in each of the six client states reached by the honest prefix, plus all short strings at the PDU parser entries, executed on the real RdpClient::read",
         "For each activation state (reached through the real RdpClient::read on the raw stack) one server frame of each of 13 PDU kinds is delivered with every single deviation (byte x value set, 16/32-bit boundary fields at every offset in both byte orders, every truncation, extensions); the MCS, share-control and fast-path parser entries receive every byte string of length <=2 (<=3) and every 3..5 (..6) byte string over 8 boundary values; thorough adds all pairs of {00, FF, truncate} faults in states 0 and 5. An honest PDU is read afterwards to expose desynchronisation loops. Oracle as C05.",
         "Raw stack via hooks H3/H4. Trusted: reference builders, counting allocator.", "§4 C06"),
 "C08": ("exploration", "E-codec", "bounded-exhaustive enumeration of (dimensions, depth, flag, data) incl. all 2-byte (3-byte thorough) strings and grammar-aware order sequences on the real decompress, with an allocation bound",
         "Every data string of length <=2 (<=3 thorough) for every small dimension pair (0..4 squared plus 8x1,1x8,9x2,255x1,256x256), grammar-aware sequences of interleaved-RLE orders (every order kind x form x boundary run length, undefined codes, truncated headers) and of planar control segments, all 256 planar header bytes, and uncompressed data lengths around the exact size are executed on the real BitmapEvent::decompress. Oracle: returns (no panic), Ok => exactly w*h*4 bytes, peak allocation <= 4*(w*h*4)+8*len+64KiB.",
         "Dimensions above 256x256 and longer unstructured strings are outside the bound. Trusted: counting allocator, reference order emitter.", "§4 C08"),
 "C09": ("exploration", "E-codec", "bounded-exhaustive enumeration of conformant encodings (order sequences, plane segmentations, raw layouts) decoded by the real code and by a reference decoder transcribed from the specification",
         "Enumerates encodings, not images: every sequence of <=3 (<=4 thorough) interleaved-RLE orders over all 12 order kinds x short/extended/mega-mega forms x every fitting run length x a 3-colour palette that the MS-RDPBCGR 3.1.9 reference decoder maps onto a complete tiny image; larger shapes with <=2 orders for extended forms and special orders; every plane vector over five values x every scan-line segmentation for planar 32 bpp plus wide lines for both long-run escapes; raw 16/32 bpp bottom-up layouts; all 65536 5-6-5 values. Oracle: decompress() == reference image, top-down BGRA.",
         "Order sequences where a bg/fg/FGBG order straddles the end of the first scan line are excluded (spec prose and pseudo-code disagree) and counted in the evidence. Trusted: vref::rle (self-tested at start-up).", "§4 C09"),
 "C15": ("exploration", "E-codec", "bounded-exhaustive enumeration of credentials x challenges x target-info blocks x flag sets; every AUTHENTICATE token verified by an independent MS-NLMP server implementation",
         "Every case drives the real Ntlm::new / from_hash -> create_negotiate_message -> read_challenge_message (client nonce and exported key fixed through hook H1) against a CHALLENGE built by the reference server, and the resulting AUTHENTICATE is verified by vref::ntlm (own MD4/MD5/HMAC/RC4, validated on the MS-NLMP 4.2.4 example): descriptor triples inside the token and non-overlapping, NTProofStr, LMv2, RC4 key-exchange unwrap (must equal the generated key), MIC over the three messages, names in the negotiated encoding; hash-based and password-based logons are verified with the same account key.",
         "Strings come from a 4-class Unicode alphabet x boundary lengths; cryptographic inputs from boundary patterns. KEY_EXCH/128/ESS stay negotiated. Trusted: vref::ntlm + vref::crypto.", "§4 C15"),
 "C16": ("exploration", "E-codec", "exhaustive enumeration of operation sequences (wrap/unwrap x lengths) and of all single-bit flips/truncations/extensions of sealed messages against reference MS-NLMP sealing",
         "All sequences of <=3 (<=4 thorough) wrap/unwrap operations over 10 message lengths and 5 session keys run on the real NTLMv2SecurityInterface (constructed directly and via a real handshake) and compared byte for byte with reference SEAL+SIGN carrying cipher state and sequence numbers; every single-bit flip of every peer-sealed message of length 0..17, 100, 256 (at stream positions 0 and 1), truncations, extensions, reflection and rewritten sequence numbers must be rejected.",
         "Session keys are 5 boundary/pattern values. Trusted: vref::ntlm::SealCtx (reproduces MS-NLMP 4.2.4.4 at start-up).", "§4 C16"),
 "C17": ("exploration", "E-wire", "exhaustive enumeration of all 32 mode combinations x credential sets x selectable protocols on full real connects over real TLS, with decrypted-credential and byte-search oracles",
         "All combinations of {NLA, restricted admin, blank credentials, auto logon, password|hash} x 3 credential sets (every alphabet string as password in thorough) x every protocol the server may select. Oracle: the TSCredentials the reference server unseals and the Client Info it parses match the mode table; RDP_NEG_REQ announces restricted admin; auto-logon bit iff requested; password (UTF-8/UTF-16LE) neither on the raw transport nor in NTLM tokens; credential-bearing messages only inside TLS; password at most once in the decrypted stream.",
         "Trusted: reference CredSSP/NTLM server, OpenSSL.", "§4 C17"),
 "C18": ("exploration", "E-codec", "bounded-exhaustive enumeration of message-model shapes and of PER/ASN.1/GCC value domains, each encoded and decoded by the real code and by independent reference codecs",
         "Every message shape of <=4 nodes (<=5 thorough) over the library's model (integers of both endianness, byte blocks, Check, Trame, nested Component, size-dependent and skippable fields, trailing Option, trailing array) is written, measured and read back; every PER length 0..0x7FFF, PER integers (all u16, u32 boundaries; all 2^32 in thorough), integer16 (value,minimum) pairs and rows (all 2^31 pairs in thorough), every nibble-valid 6-arc OID over 7 values, octet and numeric strings; ASN.1 INTEGER/ENUMERATED/OCTET STRING boundaries and the tagged shapes of MCS/CredSSP against an independent DER codec; GCC request and every response of the reference encoder (versions x optional fields x 0..31 channels x block orders x unknown block).",
         "PER integer agreement is value-level (non-minimal 0xFF/0xFFFF spelling noted). Trusted: vref::{per,der,gcc}.", "§4 C18"),
 "C10": ("exploration", "E-codec", "bounded-exhaustive enumeration of fast-path PDU sequences / update mixes / rectangle fields delivered to a really activated client; callback list compared with a reference parser",
         "Sequences of <=2 (<=3 thorough) fast-path PDUs of 0..3 updates over a 19-letter update alphabet (bitmap updates with 0..3 rectangles, with/without TS_CD_HEADER, 13 other/unknown update codes), every rectangle field at its boundaries, depth x flag x data-length combinations, short/long length forms, reserved header bits, data lengths up to and beyond the 15-bit frame limit, are read by the real RdpClient::read on the raw stack; the bitmap callbacks must equal the reference parser's rectangle list in count, order, all fields and data bytes.",
         "Scope as the statement: unfragmented, uncompressed updates with consistent numberRectangles. Trusted: vref::fastpath.", "§4 C10"),
 "C11": ("exploration", "E-codec", "bounded-exhaustive enumeration of input event values and sequences on a really activated client, decoded by the reference peer",
         "Every x, y and scancode in 0..65535, 4 buttons x 2 press states x boundary coordinates, every sequence of <=3 (<=4) events over a 9-letter alphabet (incl. an unsendable kind) alone and with a server PDU interleaved at every position, and server-assigned user/share ids are submitted through the real RdpClient::write; the reference peer strictly decodes each input PDU (identifiers, numEvents=1, exact fields and flag table) and checks count and order; refused kinds must put nothing on the wire.",
         "PointerButton::None with down=true accepted as 0x0800 or 0x8800. Trusted: vref::{mcs,share}.", "§4 C11"),
 "C12": ("model_checking", "E-fsm", "explicit-state BFS to fixpoint (stateright + closure) over the product of the real global::Client and a reference automaton, every transition executed on the real code; plus all unmerged histories to depth 5 (6 thorough)",
         "Canonical state = (real automaton state id, share id) read through hook H2; from every reachable state all 12 server events are applied by replaying the history on a fresh real RdpClient (raw stack) with an input attempt via write and try_write after every step; clauses checked on every transition: exactly one confirm-active+finalization per demand-active in the awaiting state and nothing emitted otherwise, state advance only on the expected PDU, input accepted iff inside the font-map..deactivate-all window, refused input leaves no bytes, bitmap callbacks only inside the window. The merge is validated by exploring every history of length <=5 (<=6) unmerged and requiring every final key to lie in the BFS fixpoint.",
         "Server PDUs are well-formed representatives (one encoding per letter). Deactivate-all during activation may be ignored or restart activation. Trusted: stateright, vref builders/parsers, hooks H2-H4.", "§4 C12, §3.1"),
 "C13": ("exploration", "E-codec", "bounded-exhaustive enumeration of frame streams x read schedules against a reference deframer, executed on the real tpkt/x224 readers",
         "Every TPKT length field (65536), every short fast-path length x first byte, every 15-bit long-form length, and every read schedule within the bound (caps, every single split, all pairs of splits inside headers, all 2^(n-1) compositions of short streams) is executed on the real tpkt::Client::read / x224::Client::read over an in-memory transport and compared frame by frame (kind, security flags, payload, bytes left in the transport) with an independent reference deframer. Exhaustive within these bounds, no sampling.",
         "Trusted: the reference deframer (vref::framing, validated by unit vectors), the in-memory Read. Undefined first bytes (action bits 1/2) are executed for totality only. Streams are three frames long; payload contents are position-coded, not enumerated.", "§4 C13"),
 "C14": ("fault_enumeration", "E-codec", "bounded-exhaustive enumeration of payload lengths x short-write / zero-write / injected-error schedules on the real write path, compared with a reference framer",
         "Every payload length 0..70000 through tpkt::Client::write (x224 and Link layers: all lengths in thorough, boundaries + stride in quick), every short-write cap in {1,2,3,4,5,7,8,1024} for lengths <=300 and all 16-bit boundary lengths, every composition of accepted write sizes for frames <=12 bytes, zero-length writes, a write error injected at every byte position for lengths <=64 and boundary lengths, EINTR once. Oracle: Ok => delivered bytes == reference frame; Err => delivered is a prefix; over-long => refused with nothing written; never a panic.",
         "Trusted: reference framer (vref::framing), in-memory Write. A Write returning Ok(0) is treated as inability to progress (error allowed, prefix required).", "§4 C14"),
}

TODO_REASON = "check not built yet in this round (planned: see DESIGN.md §4/§11); not claimed until its check exists and passes on the repaired tree"

props = [json.loads(l) for l in open('/verif/properties.jsonl')]
commits = subprocess.run(['git','-C','/repo','log','--format=%h %s'],capture_output=True,text=True).stdout.splitlines()
hook_commits = [c.split()[0] for c in commits if c.split(' ',1)[1].startswith('verif hook')]

m = {
 "version": 1,
 "setup_cmd": "./check build",
 "hooks": {
   "guard": "--cfg rdp_rs_verif",
   "enable": "RUSTFLAGS=\"--cfg rdp_rs_verif\" (set by /verif/check; rdp-rs is a path dependency of /verif/harness, rebuilt from /repo's working tree on every run)",
   "baseline_off_cmd": "cd /repo && cargo test --workspace --no-fail-fast --offline --lib",
   "source_commits": hook_commits,
   "add_only": True
 },
 "engines": [
   {"name":"E-codec","path":"harness/vcheck/src/props","serves_properties":["C08","C09","C10","C11","C13","C14","C15","C16","C18"],"kind_free_text":"bounded-exhaustive enumeration (values, shapes, sequences, read/write schedules) executed on the real code in 16 journalled worker subprocesses, compared with independent reference codecs (harness/vref)"},
   {"name":"E-wire","path":"harness/vcheck/src/props","serves_properties":["C01","C02","C03","C04","C05","C06","C07","C17"],"kind_free_text":"deviation-bounded exploration (0,1,2 deviations from an honest reference peer) of the real connect/read paths over an in-memory link with a real OpenSSL peer"},
   {"name":"E-fsm","path":"harness/vcheck/src/fsm.rs","serves_properties":["C12"],"kind_free_text":"explicit-state BFS (stateright) over the product of the real global::Client and a reference automaton"},
   {"name":"E-sched","path":"harness/vgui","serves_properties":["C19","C20"],"kind_free_text":"preemption-bounded DFS over schedules of the real receive-thread code on shuttle's runtime; red-zone allocator for the blit"}
 ],
 "checks": [],
 "not_applicable": [],
 "notes": "All checks: `./check <ID> quick|thorough` (cwd /verif). Exit 0 held / 1 violation (VIOLATION line + replay file under /verif/replays) / 2 machinery error. Known findings: /verif/known_findings.json."
}
for p in props:
    pid = p['id']
    if pid in CHECKS:
        cat, eng, tech, text, note, ref = CHECKS[pid]
        m["checks"].append({
          "property_id": pid,
          "quick_cmd": f"./check {pid} quick",
          "thorough_cmd": f"./check {pid} thorough",
          "evidence_file": f"/verif/evidence/{pid}.json",
          "replay_cmd_template": "./check replay {path}",
          "engine": eng,
          "level_claimed": {"category": cat, "text": text, "design_ref": ref},
          "level_note": note,
          "technique": tech,
        })
    else:
        m["not_applicable"].append({"property_id": pid, "reason": TODO_REASON})
json.dump(m, open('/verif/MANIFEST.json','w'), indent=1)
print("checks:", [c["property_id"] for c in m["checks"]], "todo:", len(m["not_applicable"]))
