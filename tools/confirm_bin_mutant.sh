#!/bin/bash
# usage: confirm_bin_mutant.sh <ID> <change.patch> <full.diff (change + appended demo module in src/bin/mstsc-rs.rs)> [suffix]
set -u
id="$1"; change="$2"; full="$3"; suf="${4:-}"; wt=/tmp/cwt-$id$suf; out=/verif/seeded/$id$suf
low=$(echo $id | tr A-Z a-z)
export CARGO_TARGET_DIR=/tmp/mut-target-$id$suf CARGO_NET_OFFLINE=true
git -C /repo worktree remove --force $wt 2>/dev/null
git -C /repo worktree add -q --detach $wt HEAD || exit 2
cd $wt && git apply "$full" || { echo "full diff does not apply"; exit 3; }
flags=""; grep -q 'verif_' src/bin/mstsc-rs.rs && flags="--cfg rdp_rs_verif"
echo "== unit tests with change"; cargo test --offline --lib 2>&1 | grep -E '^test result' | tee /tmp/cm-$id$suf.unit
echo "== demo with change (expect FAIL)"; RUSTFLAGS="$flags" timeout 600 cargo test --offline --features mstsc-rs --bin mstsc-rs demo_$low 2>&1 | grep -E '^test result|error(\[|:)' | head -3 | tee /tmp/cm-$id$suf.with
git apply -R "$change" || { echo "change does not reverse"; exit 3; }
echo "== demo without change (expect PASS)"; RUSTFLAGS="$flags" timeout 600 cargo test --offline --features mstsc-rs --bin mstsc-rs demo_$low 2>&1 | grep -E '^test result|error(\[|:)' | head -3 | tee /tmp/cm-$id$suf.without
git diff -- src > /tmp/cm-$id$suf.demo.diff
ok=1
grep -q '39 passed; 0 failed' /tmp/cm-$id$suf.unit || ok=0
grep -q 'FAILED' /tmp/cm-$id$suf.with || ok=0
grep -q 'test result: ok' /tmp/cm-$id$suf.without || ok=0
echo "CONFIRMED=$ok flags='$flags'"
if [ $ok = 1 ]; then
  mkdir -p "$out"; cp "$change" "$out/patch.diff"; cp /tmp/cm-$id$suf.demo.diff "$out/demo_module.diff"; echo "$flags" > "$out/.flags"
fi
cd /; git -C /repo worktree remove --force $wt; rm -rf "$CARGO_TARGET_DIR"
