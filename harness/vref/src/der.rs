//! A small strict DER reader/writer (X.690) — enough for MCS Connect-Initial/Response and CredSSP.
//! `strict=true` enforces DER (definite minimal lengths, minimal integers); `strict=false` accepts BER
//! definite long-form lengths that are non-minimal (what T.125 peers may send).

use crate::bytes::*;

#[derive(Clone, Debug, PartialEq, Eq)]
pub struct Tlv {
    /// identifier octets as a single number: class<<6 | constructed<<5 | tag for low tags,
    /// or 0x7f00|tag for the two-byte application tags 101/102 used by MCS
    pub id: u32,
    pub content: Vec<u8>,
    /// total encoded size (identifier + length + content)
    pub size: usize,
}

pub const UNIV_BOOL: u32 = 0x01;
pub const UNIV_INT: u32 = 0x02;
pub const UNIV_OCTET: u32 = 0x04;
pub const UNIV_ENUM: u32 = 0x0a;
pub const UNIV_SEQ: u32 = 0x30;
pub fn ctx(n: u32) -> u32 {
    0xa0 | n
}
pub fn app(n: u32) -> u32 {
    0x7f00 | n
}

pub fn enc_len(n: usize) -> Vec<u8> {
    if n < 0x80 {
        vec![n as u8]
    } else if n < 0x100 {
        vec![0x81, n as u8]
    } else if n < 0x10000 {
        vec![0x82, (n >> 8) as u8, n as u8]
    } else {
        vec![0x83, (n >> 16) as u8, (n >> 8) as u8, n as u8]
    }
}

/// non-minimal (BER) length encoding with `width` length octets
pub fn enc_len_wide(n: usize, width: usize) -> Vec<u8> {
    let mut v = vec![0x80 | width as u8];
    for i in (0..width).rev() {
        v.push((n >> (8 * i)) as u8);
    }
    v
}

pub fn enc_id(id: u32) -> Vec<u8> {
    if id > 0xff {
        vec![(id >> 8) as u8, id as u8]
    } else {
        vec![id as u8]
    }
}

pub fn tlv(id: u32, content: &[u8]) -> Vec<u8> {
    let mut v = enc_id(id);
    v.extend(enc_len(content.len()));
    v.extend_from_slice(content);
    v
}

pub fn tlv_wide(id: u32, content: &[u8], width: usize) -> Vec<u8> {
    let mut v = enc_id(id);
    v.extend(enc_len_wide(content.len(), width));
    v.extend_from_slice(content);
    v
}

pub fn int_content(v: u64) -> Vec<u8> {
    let mut b = v.to_be_bytes().to_vec();
    while b.len() > 1 && b[0] == 0 && b[1] & 0x80 == 0 {
        b.remove(0);
    }
    if b[0] & 0x80 != 0 {
        b.insert(0, 0);
    }
    b
}

pub fn integer(v: u64) -> Vec<u8> {
    tlv(UNIV_INT, &int_content(v))
}
pub fn enumerated(v: u64) -> Vec<u8> {
    tlv(UNIV_ENUM, &int_content(v))
}
pub fn boolean(v: bool) -> Vec<u8> {
    tlv(UNIV_BOOL, &[if v { 0xff } else { 0 }])
}
pub fn octets(v: &[u8]) -> Vec<u8> {
    tlv(UNIV_OCTET, v)
}
pub fn seq(items: &[Vec<u8>]) -> Vec<u8> {
    tlv(UNIV_SEQ, &items.concat())
}
pub fn explicit(n: u32, inner: &[u8]) -> Vec<u8> {
    tlv(ctx(n), inner)
}

pub fn read_tlv(r: &mut R, strict: bool) -> PResult<Tlv> {
    let start = r.p;
    let b0 = r.u8()? as u32;
    let id = if b0 & 0x1f == 0x1f {
        let b1 = r.u8()? as u32;
        if b1 & 0x80 != 0 {
            return Err("DER: tag numbers above 127 unsupported".into());
        }
        if strict && b1 < 31 {
            return Err("DER: high-tag form used for a low tag".into());
        }
        (b0 << 8) | b1
    } else {
        b0
    };
    let l0 = r.u8()?;
    let len = if l0 < 0x80 {
        l0 as usize
    } else if l0 == 0x80 {
        return Err("DER: indefinite length".into());
    } else {
        let n = (l0 & 0x7f) as usize;
        if n > 4 {
            return Err(format!("DER: {} length octets", n));
        }
        let mut v = 0usize;
        let bytes = r.take(n)?;
        for &b in bytes {
            v = (v << 8) | b as usize;
        }
        if strict && (bytes[0] == 0 || v < 0x80) {
            return Err(format!("DER: non-minimal length encoding for {}", v));
        }
        v
    };
    let content = r.take(len)?.to_vec();
    Ok(Tlv { id, content, size: r.p - start })
}

pub fn expect(r: &mut R, id: u32, strict: bool, what: &str) -> PResult<Tlv> {
    let t = read_tlv(r, strict).map_err(|e| format!("{}: {}", what, e))?;
    if t.id != id {
        return Err(format!("{}: identifier {:#x}, expected {:#x}", what, t.id, id));
    }
    Ok(t)
}

pub fn parse_uint(content: &[u8], strict: bool, what: &str) -> PResult<u64> {
    if content.is_empty() {
        return Err(format!("{}: empty INTEGER", what));
    }
    if content[0] & 0x80 != 0 {
        return Err(format!("{}: negative INTEGER", what));
    }
    if strict && content.len() > 1 && content[0] == 0 && content[1] & 0x80 == 0 {
        return Err(format!("{}: non-minimal INTEGER", what));
    }
    if content.len() > 9 {
        return Err(format!("{}: INTEGER too large", what));
    }
    let mut v: u64 = 0;
    for &b in content {
        v = (v << 8) | b as u64;
    }
    Ok(v)
}

pub fn read_uint(r: &mut R, strict: bool, what: &str) -> PResult<u64> {
    let t = expect(r, UNIV_INT, strict, what)?;
    parse_uint(&t.content, strict, what)
}

pub fn read_bool(r: &mut R, strict: bool, what: &str) -> PResult<bool> {
    let t = expect(r, UNIV_BOOL, strict, what)?;
    if t.content.len() != 1 {
        return Err(format!("{}: BOOLEAN of {} bytes", what, t.content.len()));
    }
    if strict && t.content[0] != 0 && t.content[0] != 0xff {
        return Err(format!("{}: BOOLEAN value {:#x} not DER", what, t.content[0]));
    }
    Ok(t.content[0] != 0)
}

pub fn read_octets(r: &mut R, strict: bool, what: &str) -> PResult<Vec<u8>> {
    Ok(expect(r, UNIV_OCTET, strict, what)?.content)
}

#[cfg(test)]
mod t {
    use super::*;
    #[test]
    fn ints() {
        assert_eq!(integer(0), vec![2, 1, 0]);
        assert_eq!(integer(0xffff), vec![2, 3, 0, 0xff, 0xff]);
        assert_eq!(integer(34), vec![2, 1, 34]);
        let v = octets(&[7; 200]);
        assert_eq!(&v[..3], &[4, 0x81, 200]);
        let mut r = R::new(&v);
        assert_eq!(read_octets(&mut r, true, "x").unwrap().len(), 200);
    }
}

/// the subjectPublicKey BIT STRING contents (without the unused-bits octet) of an X.509 certificate
pub fn spki_key_bits(cert_der: &[u8]) -> PResult<Vec<u8>> {
    let mut r = R::new(cert_der);
    let cert = expect(&mut r, UNIV_SEQ, false, "Certificate")?;
    let mut c = R::new(&cert.content);
    let tbs = expect(&mut c, UNIV_SEQ, false, "TBSCertificate")?;
    let mut t = R::new(&tbs.content);
    let mut first = read_tlv(&mut t, false)?;
    if first.id == ctx(0) {
        // explicit version present; next is the serial number
        first = read_tlv(&mut t, false)?;
    }
    let _serial = first;
    let _sigalg = read_tlv(&mut t, false)?;
    let _issuer = read_tlv(&mut t, false)?;
    let _validity = read_tlv(&mut t, false)?;
    let _subject = read_tlv(&mut t, false)?;
    let spki = expect(&mut t, UNIV_SEQ, false, "SubjectPublicKeyInfo")?;
    let mut s = R::new(&spki.content);
    let _alg = read_tlv(&mut s, false)?;
    let bits = expect(&mut s, 0x03, false, "subjectPublicKey")?;
    if bits.content.is_empty() {
        return Err("empty BIT STRING".into());
    }
    Ok(bits.content[1..].to_vec())
}

pub fn pem_to_der(pem: &str) -> Vec<u8> {
    let b64: String = pem.lines().filter(|l| !l.starts_with("-----")).collect();
    let mut out = vec![];
    let mut acc: u32 = 0;
    let mut n = 0;
    for ch in b64.bytes() {
        let v = match ch {
            b'A'..=b'Z' => ch - b'A',
            b'a'..=b'z' => ch - b'a' + 26,
            b'0'..=b'9' => ch - b'0' + 52,
            b'+' => 62,
            b'/' => 63,
            _ => continue,
        } as u32;
        acc = (acc << 6) | v;
        n += 6;
        if n >= 8 {
            n -= 8;
            out.push((acc >> n) as u8);
        }
    }
    out
}
