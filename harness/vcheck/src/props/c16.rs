//! C16 — NTLM session security seals per MS-NLMP, round-trips, and rejects tampering.
//! All operation sequences up to a depth against the reference SEAL/SIGN, and every single-bit
//! flip / truncation / extension of peer-sealed messages.

use crate::runner::{Outcome, Prop, Tier};
use rdp::model::rnd::verif as rnd;
use rdp::nla::ntlm::{NTLMv2SecurityInterface, Ntlm};
use rdp::nla::rc4::Rc4;
use rdp::nla::sspi::{AuthenticationProtocol, GenericSecurityService};
use serde::Serialize;
use serde_json::{json, Value};
use vref::bytes::hex;
use vref::crypto::md5;
use vref::ntlm::{self as rn, SealCtx, ServerCfg};

#[derive(Clone, Debug, Serialize)]
enum Op {
    Wrap(usize),
    Unwrap(usize),
}

#[derive(Clone, Debug, Serialize)]
enum Tamper {
    Flip(usize),
    Truncate(usize),
    Extend(usize),
    /// sealed by the client-to-server keys instead (reflection)
    Reflect,
    /// sequence number field rewritten (with the checksum left as is)
    Seq(u32),
}

#[derive(Clone, Debug, Serialize)]
enum Case {
    Sequence { key: usize, ops: Vec<Op>, via_handshake: bool },
    Tamper { key: usize, len: usize, prior: usize, t: Tamper },
}

pub struct C16 {
    cases: Vec<Case>,
}

impl C16 {
    pub fn new() -> C16 {
        C16 { cases: vec![] }
    }
}

const LENS: [usize; 10] = [0, 1, 2, 3, 15, 16, 17, 255, 256, 1000];

fn keys() -> Vec<[u8; 16]> {
    let mut pat = [0u8; 16];
    for (i, b) in pat.iter_mut().enumerate() {
        *b = (i as u8).wrapping_mul(0x1d).wrapping_add(7);
    }
    vec![[0u8; 16], [0xFF; 16], pat, [0x55; 16], [0x80, 0, 0, 0, 0, 0, 0, 0, 0, 0, 0, 0, 0, 0, 0, 1]]
}

fn plaintext(len: usize, salt: usize) -> Vec<u8> {
    (0..len).map(|i| ((i * 31 + salt * 7 + 3) & 0xff) as u8).collect()
}

const C2S_SIGN: &[u8] = b"session key to client-to-server signing key magic constant\0";
const S2C_SIGN: &[u8] = b"session key to server-to-client signing key magic constant\0";
const C2S_SEAL: &[u8] = b"session key to client-to-server sealing key magic constant\0";
const S2C_SEAL: &[u8] = b"session key to server-to-client sealing key magic constant\0";

/// the client's security context for exported session key `k`, built through the public constructor
fn lib_ctx(k: &[u8; 16]) -> Box<dyn GenericSecurityService> {
    let d = |m: &[u8]| md5(&[&k[..], m].concat()).to_vec();
    Box::new(NTLMv2SecurityInterface::new(Rc4::new(&d(C2S_SEAL)), Rc4::new(&d(S2C_SEAL)), d(C2S_SIGN), d(S2C_SIGN)))
}

/// the same context obtained from a real handshake (exercises the library's own key derivation)
/// `earlier`: the same Ntlm object first completes another handshake (other session key, a CHALLENGE without VERSION
/// and with other AV pairs) and builds a context from it; the judged context is that of its second handshake
fn lib_ctx_handshake(k: &[u8; 16], earlier: bool) -> Result<Box<dyn GenericSecurityService>, String> {
    let mut n = Ntlm::new("dom".into(), "user".into(), "pw".into());
    if earlier {
        n.create_negotiate_message().map_err(|e| format!("{:?}", e))?;
        let mut cfg1 = ServerCfg::windows_like();
        cfg1.flags &= !rn::F_VERSION;
        cfg1.challenge = [0x5a; 8];
        let mut pattern = vec![0x11; 8];
        pattern.extend_from_slice(&[0xC3; 16]);
        rnd::set_pattern(Some(pattern));
        let r = n.read_challenge_message(&rn::challenge_message(&cfg1));
        rnd::set_pattern(None);
        r.map_err(|e| format!("earlier handshake: {:?}", e))?;
        let mut first = n.build_security_interface();
        let _ = first.gss_wrapex(b"first session");
    }
    n.create_negotiate_message().map_err(|e| format!("{:?}", e))?;
    let cfg = ServerCfg::windows_like();
    // random(8) = client challenge, random(16) = exported session key
    let mut pattern = vec![0xAA; 8];
    pattern.extend_from_slice(k);
    rnd::set_pattern(Some(pattern));
    let r = n.read_challenge_message(&rn::challenge_message(&cfg));
    rnd::set_pattern(None);
    r.map_err(|e| format!("{:?}", e))?;
    Ok(n.build_security_interface())
}

impl Prop for C16 {
    fn id(&self) -> &'static str {
        "C16"
    }
    fn level(&self) -> &'static str {
        "exploration"
    }
    fn prepare(&mut self, tier: Tier) -> Result<(), String> {
        let mut cs = vec![];
        let nk = keys().len();
        let depth = if tier == Tier::Quick { 3 } else { 4 };
        let mut ops = vec![];
        for l in LENS {
            ops.push(Op::Wrap(l));
            ops.push(Op::Unwrap(l));
        }
        fn rec(ops: &[Op], depth: usize, cur: &mut Vec<Op>, out: &mut Vec<Vec<Op>>) {
            if !cur.is_empty() {
                out.push(cur.clone());
            }
            if depth == 0 {
                return;
            }
            for o in ops {
                cur.push(o.clone());
                rec(ops, depth - 1, cur, out);
                cur.pop();
            }
        }
        let mut seqs = vec![];
        rec(&ops, depth, &mut vec![], &mut seqs);
        if tier != Tier::Quick {
            // depth 5 and 6 over the lengths {0, 1, 16, 256}
            let small: Vec<Op> = [0usize, 1, 16, 256].iter().flat_map(|l| [Op::Wrap(*l), Op::Unwrap(*l)]).collect();
            let mut deep = vec![];
            rec(&small, 6, &mut vec![], &mut deep);
            seqs.extend(deep.into_iter().filter(|s| s.len() >= 5));
        }
        for key in 0..nk {
            for s in &seqs {
                // the handshake-derived context for the shorter sequences (for every second session key the Ntlm object has completed an earlier handshake with another key before), the constructor for all
                cs.push(Case::Sequence { key, ops: s.clone(), via_handshake: false });
                if s.len() <= 2 {
                    cs.push(Case::Sequence { key, ops: s.clone(), via_handshake: true });
                }
            }
        }
        // long-lived contexts (the sequence number passes 255 / 256 / 257 in each direction) and very large messages
        for key in [2usize, 1] {
            for via_handshake in [false, true] {
                cs.push(Case::Sequence { key, ops: vec![Op::Wrap(1); 300], via_handshake });
                cs.push(Case::Sequence { key, ops: vec![Op::Unwrap(2); 300], via_handshake });
                cs.push(Case::Sequence { key, ops: (0..600).map(|i| if i % 2 == 0 { Op::Wrap(3) } else { Op::Unwrap(0) }).collect(), via_handshake });
                cs.push(Case::Sequence { key, ops: (0..520).map(|i| if i < 260 { Op::Unwrap(1) } else { Op::Wrap(1) }).collect(), via_handshake });
            }
            for big in [65519usize, 65520, 65521, 65535, 65536, 70000, 200000] {
                cs.push(Case::Sequence { key, ops: vec![Op::Wrap(big), Op::Wrap(3), Op::Unwrap(2)], via_handshake: false });
                cs.push(Case::Sequence { key, ops: vec![Op::Unwrap(big), Op::Wrap(3), Op::Unwrap(big), Op::Wrap(big)], via_handshake: false });
            }
        }
        // every message length 0..1100 (and around the powers of two up to 64 KiB), sealed one after the other by one
        // context, then unsealed one after the other
        {
            let mut lens: Vec<usize> = (0..=1100).collect();
            for k in 11..=16u32 {
                let p = 1usize << k;
                lens.extend([p - 5, p - 4, p - 3, p - 1, p, p + 1, p + 4]);
            }
            for key in [2usize, 3] {
                cs.push(Case::Sequence { key, ops: lens.iter().map(|l| Op::Wrap(*l)).collect(), via_handshake: false });
                cs.push(Case::Sequence { key, ops: lens.iter().map(|l| Op::Unwrap(*l)).collect(), via_handshake: false });
                cs.push(Case::Sequence { key, ops: lens.iter().flat_map(|l| [Op::Wrap(*l), Op::Unwrap(*l)]).collect(), via_handshake: key == 2 });
            }
        }
        let mut tlens: Vec<usize> = (0..=17).collect();
        tlens.extend([100, 256]);
        if tier == Tier::Thorough {
            tlens.extend([64, 500, 1000]);
        }
        for key in 0..nk {
            for &len in &tlens {
                for prior in [0usize, 1] {
                    let total = 16 + len;
                    for bit in 0..total * 8 {
                        cs.push(Case::Tamper { key, len, prior, t: Tamper::Flip(bit) });
                    }
                    for cut in 0..total {
                        if cut < 40 || cut + 3 > total || cut % 16 == 0 {
                            cs.push(Case::Tamper { key, len, prior, t: Tamper::Truncate(cut) });
                        }
                    }
                    for n in 1..=3 {
                        cs.push(Case::Tamper { key, len, prior, t: Tamper::Extend(n) });
                    }
                    cs.push(Case::Tamper { key, len, prior, t: Tamper::Reflect });
                    for s in [0u32, 1, 2, 0xFFFF_FFFF] {
                        if s != prior as u32 {
                            cs.push(Case::Tamper { key, len, prior, t: Tamper::Seq(s) });
                        }
                    }
                }
            }
        }
        self.cases = cs;
        Ok(())
    }
    fn n_cases(&self) -> u64 {
        self.cases.len() as u64
    }
    fn describe(&self, idx: u64) -> Value {
        json!({"idx": idx, "case": self.cases[idx as usize], "keys": keys().iter().map(|k| hex(k)).collect::<Vec<_>>()})
    }
    fn rule(&self) -> String {
        "cases: [sequence] every sequence of <=3 (<=4 thorough; thorough also every sequence of 5 and 6 operations with len in {0,1,16,256}) operations over {wrap(len), unwrap(peer-sealed len)} with len in {0,1,2,3,15,16,17,255,256,1000}, for 5 exported session keys, on the context built by the public constructor and (sequences <=2) on the one built by a real NEGOTIATE/CHALLENGE handshake (for every second session key the same Ntlm object has completed an earlier handshake, with another key, before): every wrap output must be byte-identical to reference MS-NLMP SEAL+SIGN with carried-over cipher state and sequence numbers, every unwrap must return the plaintext; every tampered message is refused, and refused again when presented a second time to the same context; plus long-lived contexts (300 wraps, 300 unwraps, 600 alternating, 260 unwraps then 260 wraps: the sequence numbers pass 256 in each direction) and messages of 65519..200000 bytes followed by further traffic; every length 0..1100 and 2^k-5..2^k+4 (k = 11..16) sealed / unsealed / both in one context; [tamper] for every peer-sealed message of length 0..17, 100, 256 at stream position 0 and 1: every single-bit flip, truncations, extensions by 1..3 bytes, reflection, rewritten sequence numbers: all must be rejected. Non-trivial: sequences of >=2 operations and all tamper cases.".into()
    }
    fn assumptions(&self) -> Vec<String> {
        vec![
            "session keys are covered by 5 boundary/pattern values (the code does not branch on key bytes)".into(),
            "the reference sealing (vref::ntlm::SealCtx) reproduces the MS-NLMP 4.2.4.4 example at start-up".into(),
            "extended session security + key exchange + 128-bit keys, as this client always requests".into(),
        ]
    }
    fn run_case(&mut self, idx: u64) -> Outcome {
        match self.cases[idx as usize].clone() {
            Case::Sequence { key, ops, via_handshake } => {
                let k = keys()[key];
                let mut lib = if via_handshake {
                    match lib_ctx_handshake(&k, key % 2 == 1) {
                        Ok(c) => c,
                        Err(e) => return Outcome::fail("error", "handshake-failed", e),
                    }
                } else {
                    lib_ctx(&k)
                };
                let mut ref_c2s = SealCtx::new(&k, true);
                let mut ref_s2c = SealCtx::new(&k, false);
                for (i, op) in ops.iter().enumerate() {
                    match op {
                        Op::Wrap(len) => {
                            let pt = plaintext(*len, i);
                            let want = ref_c2s.wrap(&pt);
                            match lib.gss_wrapex(&pt) {
                                Ok(got) if got == want => {}
                                Ok(got) => {
                                    let sig = if via_handshake { "handshake-context-seals-differently" } else { "wrap-differs-from-ms-nlmp" };
                                    return Outcome::fail("mismatch", sig, format!("op {} wrap({}): got {}.. want {}..", i, len, hex(&got[..got.len().min(24)]), hex(&want[..want.len().min(24)])));
                                }
                                Err(e) => return Outcome::fail("mismatch", "wrap-error", format!("{:?}", e)),
                            }
                        }
                        Op::Unwrap(len) => {
                            let pt = plaintext(*len, i + 100);
                            let sealed = ref_s2c.wrap(&pt);
                            match lib.gss_unwrapex(&sealed) {
                                Ok(got) if got == pt => {}
                                Ok(got) => return Outcome::fail("mismatch", "unwrap-wrong-plaintext", format!("op {} unwrap({}): got {}..", i, len, hex(&got[..got.len().min(16)]))),
                                Err(e) => return Outcome::fail("mismatch", "unwrap-rejects-conforming-peer", format!("op {} unwrap({}): {:?}", i, len, e)),
                            }
                        }
                    }
                }
                Outcome::pass(if via_handshake { "sequence-handshake" } else { "sequence" }, ops.len() >= 2)
            }
            Case::Tamper { key, len, prior, t } => {
                let k = keys()[key];
                let mut lib = lib_ctx(&k);
                let mut ref_s2c = SealCtx::new(&k, false);
                for p in 0..prior {
                    let pt = plaintext(5, p);
                    let sealed = ref_s2c.wrap(&pt);
                    if lib.gss_unwrapex(&sealed).ok() != Some(pt) {
                        return Outcome::fail("mismatch", "unwrap-rejects-conforming-peer", "prior message".to_string());
                    }
                }
                let pt = plaintext(len, 9);
                let honest = ref_s2c.wrap(&pt);
                let mut msg = honest.clone();
                let class;
                match &t {
                    Tamper::Flip(bit) => {
                        msg[bit / 8] ^= 1 << (bit % 8);
                        class = match bit / 8 {
                            0..=3 => "flip-version",
                            4..=11 => "flip-checksum",
                            12..=15 => "flip-seqnum",
                            _ => "flip-ciphertext",
                        };
                    }
                    Tamper::Truncate(n) => {
                        msg.truncate(*n);
                        class = "truncate";
                    }
                    Tamper::Extend(n) => {
                        msg.extend(std::iter::repeat(0x41).take(*n));
                        class = "extend";
                    }
                    Tamper::Reflect => {
                        let mut c2s = SealCtx::new(&k, true);
                        c2s.seq = prior as u32;
                        msg = c2s.wrap(&pt);
                        class = "reflect";
                    }
                    Tamper::Seq(s) => {
                        msg[12..16].copy_from_slice(&s.to_le_bytes());
                        class = "seqnum";
                    }
                }
                if msg == honest {
                    return Outcome::pass("tamper-noop", false);
                }
                match lib.gss_unwrapex(&msg) {
                    Err(_) => {
                        // the same forgery presented again to the same context is refused again (a refusal must not
                        // teach the context to expect what it just refused)
                        match lib.gss_unwrapex(&msg) {
                            Err(_) => Outcome::pass(format!("rejected-{}", class), true),
                            Ok(p) => Outcome::fail("mismatch", format!("tampered-message-accepted-at-the-second-presentation-{}", class), format!("key {} len {} prior {} {:?}: refused once, then accepted, plaintext {}..", key, len, prior, t, hex(&p[..p.len().min(16)]))),
                        }
                    }
                    Ok(p) => Outcome::fail("mismatch", format!("tampered-message-accepted-{}", class), format!("key {} len {} prior {} {:?}: accepted, plaintext {}..", key, len, prior, t, hex(&p[..p.len().min(16)]))),
                }
            }
        }
    }
}
