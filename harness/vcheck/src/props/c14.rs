//! C14 — outbound frames are exact and completely delivered, or refused.
//! Drives the real `tpkt::Client::write`, `x224::Client::write` and `Link::write` over an
//! adversarial `Write` (short writes, zero writes, injected errors at every byte position).

use crate::memlink::{MemLink, WritePlan};
use crate::runner::{Outcome, Prop, Tier};
use rdp::core::tpkt;
use rdp::core::x224;
use rdp::model::link::{Link, Stream};
use serde::Serialize;
use serde_json::{json, Value};
use vref::framing;

#[derive(Clone, Copy, Debug, Serialize, PartialEq)]
pub enum Layer {
    Tpkt,
    X224,
    Link,
    /// a full real conversation over TLS whose transport accepts the writes in pieces (len = 1: NLA on)
    Conversation,
}

#[derive(Clone, Debug, Serialize)]
pub enum WP {
    All,
    Cap(usize),
    Seq(Vec<usize>),
    ErrAt(usize, usize),
    Interrupted(usize),
}

#[derive(Clone, Debug, Serialize)]
pub struct Case {
    pub layer: Layer,
    pub len: usize,
    pub plan: WP,
}

#[derive(Default)]
pub struct C14 {
    cases: Vec<Case>,
}

impl C14 {
    pub fn new() -> C14 {
        C14::default()
    }
}

fn payload(n: usize) -> Vec<u8> {
    (0..n).map(|i| ((i as u32 * 13 + 5) & 0xff) as u8).collect()
}

fn max_len(l: Layer) -> usize {
    match l {
        Layer::Tpkt => 65531,
        Layer::X224 => 65528,
        Layer::Link | Layer::Conversation => usize::MAX,
    }
}

fn reference(l: Layer, p: &[u8]) -> Vec<u8> {
    match l {
        Layer::Tpkt => framing::tpkt(p),
        Layer::X224 => framing::tpkt(&framing::x224_dt(p)),
        Layer::Link | Layer::Conversation => p.to_vec(),
    }
}

const BOUNDARY: &[usize] = &[0, 1, 2, 3, 123, 124, 127, 128, 251, 252, 255, 256, 16379, 16380, 16383, 16384, 32763, 32764, 32767, 32768, 65524, 65525, 65527, 65528, 65529, 65530, 65531, 65532, 65533, 65534, 65535, 65536, 65537, 65540, 70000];

impl Prop for C14 {
    fn id(&self) -> &'static str {
        "C14"
    }
    fn level(&self) -> &'static str {
        "fault_enumeration"
    }
    fn prepare(&mut self, tier: Tier) -> Result<(), String> {
        let mut cs = vec![];
        // A: every payload length 0..70000 on a fully accepting stream
        for len in 0..=70000usize {
            cs.push(Case { layer: Layer::Tpkt, len, plan: WP::All });
        }
        for layer in [Layer::X224, Layer::Link] {
            for len in 0..=70000usize {
                if tier == Tier::Thorough || len % 97 == 0 || BOUNDARY.contains(&len) || len <= 300 {
                    cs.push(Case { layer, len, plan: WP::All });
                }
            }
        }
        // B: short-write caps
        let mut lens: Vec<usize> = (0..=300).collect();
        lens.extend(BOUNDARY.iter().copied().filter(|l| *l > 300));
        for layer in [Layer::Tpkt, Layer::Link, Layer::X224] {
            for &len in &lens {
                for k in [1usize, 2, 3, 4, 5, 7, 8, 1024] {
                    if len > 1000 && k < 7 && tier == Tier::Quick && layer != Layer::Tpkt {
                        continue;
                    }
                    cs.push(Case { layer, len, plan: WP::Cap(k) });
                }
            }
        }
        // C: every composition of write sizes for frames of at most 12 bytes
        for layer in [Layer::Tpkt, Layer::Link] {
            let maxp = if layer == Layer::Tpkt { 8 } else { 12 };
            for len in 0..=maxp {
                let total = reference(layer, &payload(len)).len();
                if total == 0 {
                    continue;
                }
                for mask in 0..(1u32 << (total - 1)) {
                    let mut sizes = vec![];
                    let mut run = 1;
                    for i in 0..total - 1 {
                        if mask & (1 << i) != 0 {
                            sizes.push(run);
                            run = 1;
                        } else {
                            run += 1;
                        }
                    }
                    sizes.push(run);
                    cs.push(Case { layer, len, plan: WP::Seq(sizes) });
                }
            }
        }
        // D: zero-then-progress
        for layer in [Layer::Tpkt, Layer::Link, Layer::X224] {
            for len in [0usize, 1, 5, 300] {
                cs.push(Case { layer, len, plan: WP::Seq(vec![0]) });
                cs.push(Case { layer, len, plan: WP::Seq(vec![2, 0]) });
                cs.push(Case { layer, len, plan: WP::Seq(vec![0, 0, 0]) });
            }
        }
        // E: write error injected at every byte position
        for layer in [Layer::Tpkt, Layer::Link, Layer::X224] {
            let mut ls: Vec<usize> = (0..=64).collect();
            ls.extend([255usize, 256, 65531, 65528, 65527]);
            for &len in &ls {
                if len > max_len(layer) {
                    continue;
                }
                let total = reference(layer, &payload(len)).len();
                let positions: Vec<usize> = if total <= 80 { (0..total).collect() } else { vec![0, 1, 3, 4, 5, 7, total / 2, total - 2, total - 1] };
                for pos in positions {
                    for cap in [usize::MAX, 3] {
                        cs.push(Case { layer, len, plan: WP::ErrAt(pos, cap) });
                    }
                }
            }
        }
        // F: EINTR once
        for layer in [Layer::Tpkt, Layer::Link, Layer::X224] {
            for len in [0usize, 1, 100] {
                for k in [0usize, 1] {
                    cs.push(Case { layer, len, plan: WP::Interrupted(k) });
                }
            }
        }
        // G: whole conversations with a short-writing transport (end to end through OpenSSL and CredSSP)
        for nla in [1usize, 0] {
            for k in [1usize, 2, 3, 5, 7, 16, 1024] {
                cs.push(Case { layer: Layer::Conversation, len: nla, plan: WP::Cap(k) });
            }
            cs.push(Case { layer: Layer::Conversation, len: nla, plan: WP::Seq(vec![1, 2, 3, 1, 1, 5, 7, 1, 2]) });
            cs.push(Case { layer: Layer::Conversation, len: nla, plan: WP::Interrupted(3) });
        }
        self.cases = cs;
        Ok(())
    }
    fn n_cases(&self) -> u64 {
        self.cases.len() as u64
    }
    fn describe(&self, idx: u64) -> Value {
        json!({"idx": idx, "case": self.cases[idx as usize]})
    }
    fn rule(&self) -> String {
        "cases = (layer in {tpkt, x224, link}, payload length, write behaviour of the stream); lengths 0..70000 all enumerated on an accepting stream; short-write caps {1,2,3,4,5,7,8,1024} for every length <= 300 and every 16-bit boundary length; every composition of write sizes for frames <= 12 bytes; zero-length writes; an error injected at every byte position for lengths <= 64 and boundary lengths; EINTR once; plus 18 full real conversations over TLS (NLA on/off) with a transport accepting k bytes per write, k in {1,2,3,5,7,16,1024}, an irregular size sequence, and EINTR. Non-trivial: the stream deviates from accepting everything, or the length is within 8 of a 7/14/15/16-bit boundary or above the frame limit.".into()
    }
    fn assumptions(&self) -> Vec<String> {
        vec![
            "Write::write returning Ok(0) for a non-empty buffer is treated like any other inability to make progress: the call may fail, but must then have delivered a prefix".into(),
            "an over-long message must be refused before anything is written".into(),
        ]
    }
    fn mem_rule(&self, _peak: usize, maxreq: usize, _bytes_in: u64) -> Option<String> {
        if maxreq > (4 << 20) {
            Some(format!("single allocation of {} bytes for a message of at most 70000 bytes", maxreq))
        } else {
            None
        }
    }
    fn run_case(&mut self, idx: u64) -> Outcome {
        let c = self.cases[idx as usize].clone();
        if c.layer == Layer::Conversation {
            let nla = c.len == 1;
            let wp = match &c.plan {
                WP::Cap(k) => WritePlan::Cap(*k),
                WP::Seq(v) => WritePlan::Seq(v.clone()),
                WP::Interrupted(k) => WritePlan::InterruptedAt(*k),
                _ => WritePlan::All,
            };
            let cfg = crate::tls::ConnCfg { use_nla: nla, ..Default::default() };
            let p = crate::peer::ServerParams { selected: if nla { 2 } else { 1 }, reactivations: 1, ..Default::default() };
            return match crate::wire::converse_fragmented(&cfg, &p, crate::tls::Cert::A, true, crate::memlink::ReadPlan::All, wp) {
                Err(e) => Outcome::fail("setup", "machinery", e),
                Ok(t) => match crate::wire::check_c03(&t) {
                    Some(f) => Outcome::fail("mismatch", format!("conversation-fails-with-short-writing-transport: {}", f.sig), format!("{:?}: {}", c.plan, f.detail)),
                    None => Outcome::pass("conversation-with-short-writes", true),
                },
            };
        }
        let p = payload(c.len);
        let link = MemLink::scripted(&[]);
        link.sh.borrow_mut().write_plan = match &c.plan {
            WP::All => WritePlan::All,
            WP::Cap(k) => WritePlan::Cap(*k),
            WP::Seq(v) => WritePlan::Seq(v.clone()),
            WP::ErrAt(pos, cap) => WritePlan::ErrAt { pos: *pos, cap: *cap },
            WP::Interrupted(k) => WritePlan::InterruptedAt(*k),
        };
        let sh = link.sh.clone();
        let l = Link::new(Stream::Raw(link));
        let res = match c.layer {
            Layer::Link => {
                let mut l = l;
                l.write(&p.clone()).is_ok()
            }
            Layer::Tpkt => tpkt::Client::new(l).write(p.clone()).is_ok(),
            Layer::X224 => x224::Client::verif_new_raw(tpkt::Client::new(l), x224::Protocols::ProtocolSSL).write(p.clone()).is_ok(),
            Layer::Conversation => unreachable!(),
        };
        let delivered = sh.borrow().from_client.clone();
        let near = |b: usize| c.len + 8 >= b && c.len <= b + 8;
        let nontrivial = !matches!(c.plan, WP::All) || near(127) || near(16383) || near(32767) || near(65535) || c.len > max_len(c.layer);
        if c.len > max_len(c.layer) {
            if res {
                return Outcome::fail("oversize", "oversize-message-accepted", format!("{} byte message accepted by {:?}; {} bytes emitted, header {:02x?}", c.len, c.layer, delivered.len(), &delivered[..delivered.len().min(4)]));
            }
            if !delivered.is_empty() {
                return Outcome::fail("oversize", "oversize-message-partially-sent", format!("{} bytes emitted for a refused message", delivered.len()));
            }
            return Outcome::pass("refused-oversize", true);
        }
        let want = reference(c.layer, &p);
        if res {
            if delivered != want {
                let sig = if delivered.len() < want.len() && want.starts_with(&delivered) { "ok-but-bytes-lost" } else { "ok-but-wrong-bytes" };
                return Outcome::fail("mismatch", sig, format!("write returned Ok; {} of {} frame bytes reached the stream (plan {:?})", delivered.len(), want.len(), c.plan));
            }
            if matches!(c.plan, WP::ErrAt(..)) {
                // the whole frame cannot have been delivered past an injected error unless pos >= total
            }
            Outcome::pass("ok-complete", nontrivial)
        } else {
            if !want.starts_with(&delivered) {
                return Outcome::fail("mismatch", "err-with-non-prefix", format!("write failed and the {} delivered bytes are not a prefix of the frame", delivered.len()));
            }
            match c.plan {
                WP::All | WP::Cap(_) => Outcome::fail("mismatch", "spurious-error", format!("write failed although the stream makes progress (plan {:?}, len {})", c.plan, c.len)),
                WP::Seq(ref v) if !v.contains(&0) => Outcome::fail("mismatch", "spurious-error", format!("write failed although the stream makes progress (plan {:?}, len {})", c.plan, c.len)),
                _ => Outcome::pass("err-prefix", nontrivial),
            }
        }
    }
}
