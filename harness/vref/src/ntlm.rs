//! Reference NTLMv2 *server* side (MS-NLMP): CHALLENGE builder, AUTHENTICATE verifier,
//! signing / sealing with extended session security and key exchange.

use crate::bytes::*;
use crate::crypto::*;

pub const F_UNICODE: u32 = 0x0000_0001;
pub const F_OEM: u32 = 0x0000_0002;
pub const F_REQUEST_TARGET: u32 = 0x0000_0004;
pub const F_SIGN: u32 = 0x0000_0010;
pub const F_SEAL: u32 = 0x0000_0020;
pub const F_NTLM: u32 = 0x0000_0200;
pub const F_ALWAYS_SIGN: u32 = 0x0000_8000;
pub const F_TARGET_TYPE_SERVER: u32 = 0x0002_0000;
pub const F_ESS: u32 = 0x0008_0000;
pub const F_TARGET_INFO: u32 = 0x0080_0000;
pub const F_VERSION: u32 = 0x0200_0000;
pub const F_128: u32 = 0x2000_0000;
pub const F_KEY_EXCH: u32 = 0x4000_0000;
pub const F_56: u32 = 0x8000_0000;

/// flags of a Windows-like server answering this client
pub const DEFAULT_FLAGS: u32 =
    F_UNICODE | F_REQUEST_TARGET | F_SIGN | F_SEAL | F_NTLM | F_ALWAYS_SIGN | F_TARGET_TYPE_SERVER | F_ESS | F_TARGET_INFO | F_VERSION | F_128 | F_KEY_EXCH | F_56;

pub const AV_EOL: u16 = 0;
pub const AV_NB_COMPUTER: u16 = 1;
pub const AV_NB_DOMAIN: u16 = 2;
pub const AV_DNS_COMPUTER: u16 = 3;
pub const AV_DNS_DOMAIN: u16 = 4;
pub const AV_DNS_TREE: u16 = 5;
pub const AV_FLAGS: u16 = 6;
pub const AV_TIMESTAMP: u16 = 7;
pub const AV_SINGLE_HOST: u16 = 8;
pub const AV_TARGET_NAME: u16 = 9;
pub const AV_CHANNEL_BINDINGS: u16 = 10;

#[derive(Clone, Debug, PartialEq, Eq, serde::Serialize, serde::Deserialize)]
pub struct ServerCfg {
    pub flags: u32,
    pub challenge: [u8; 8],
    pub target_name: String,
    /// AV pairs in order, without the terminating EOL
    pub av_pairs: Vec<(u16, Vec<u8>)>,
    /// value written into the TargetInfo and TargetName MaxLen fields instead of their Len (receivers ignore MaxLen)
    pub maxlen_override: Option<u16>,
    /// payload layout: 0 = TargetName then TargetInfo (Windows), 1 = TargetInfo then TargetName, 2 = name, info, then 12
    /// bytes that no field refers to, 3 = 8 unreferenced bytes between the header and the name, 4 / 5 = no target name and a
    /// zeroed / stale TargetName descriptor (only with REQUEST_TARGET clear: MUST be ignored on receipt)
    pub layout: u8,
}

impl ServerCfg {
    pub fn windows_like() -> Self {
        ServerCfg {
            flags: DEFAULT_FLAGS,
            challenge: [0x01, 0x23, 0x45, 0x67, 0x89, 0xab, 0xcd, 0xef],
            target_name: "SRV".into(),
            av_pairs: vec![
                (AV_NB_DOMAIN, utf16le("SRV")),
                (AV_NB_COMPUTER, utf16le("SRV")),
                (AV_DNS_DOMAIN, utf16le("srv.local")),
                (AV_DNS_COMPUTER, utf16le("srv.local")),
                (AV_TIMESTAMP, vec![0x00, 0x80, 0x3e, 0xd5, 0xde, 0xb1, 0x9d, 0x01]),
            ],
            maxlen_override: None,
            layout: 0,
        }
    }
}

pub fn av_bytes(pairs: &[(u16, Vec<u8>)], with_eol: bool) -> Vec<u8> {
    let mut w = W::new();
    for (id, v) in pairs {
        w.u16le(*id).u16le(v.len() as u16).bytes(v);
    }
    if with_eol {
        w.u16le(0).u16le(0);
    }
    w.done()
}

pub fn challenge_message(cfg: &ServerCfg) -> Vec<u8> {
    let version = cfg.flags & F_VERSION != 0;
    let hdr: u32 = if version { 56 } else { 48 };
    let tn = if cfg.flags & F_UNICODE != 0 { utf16le(&cfg.target_name) } else { cfg.target_name.as_bytes().to_vec() };
    let ti = av_bytes(&cfg.av_pairs, true);
    // (offset of the name, offset of the info, payload bytes)
    let (tn_off, ti_off, payload): (u32, u32, Vec<u8>) = match cfg.layout {
        1 => (hdr + ti.len() as u32, hdr, [ti.clone(), tn.clone()].concat()),
        2 => (hdr, hdr + tn.len() as u32, [tn.clone(), ti.clone(), b"SERVERPAD\0\0\0".to_vec()].concat()),
        3 => (hdr + 8, hdr + 8 + tn.len() as u32, [vec![0xEE; 8], tn.clone(), ti.clone()].concat()),
        // 4 / 5: no target name (the caller clears REQUEST_TARGET): the descriptor is zeroed / holds stale values
        4 | 5 => (0, hdr, ti.clone()),
        _ => (hdr, hdr + tn.len() as u32, [tn.clone(), ti.clone()].concat()),
    };
    let mut w = W::new();
    w.bytes(b"NTLMSSP\0").u32le(2);
    match cfg.layout {
        4 => w.u16le(0).u16le(0).u32le(0),
        5 => w.u16le(0x20).u16le(0x20).u32le(0x4000),
        _ => w.u16le(tn.len() as u16).u16le(cfg.maxlen_override.unwrap_or(tn.len() as u16)).u32le(tn_off),
    };
    w.u32le(cfg.flags);
    w.bytes(&cfg.challenge);
    w.zeros(8);
    w.u16le(ti.len() as u16).u16le(cfg.maxlen_override.unwrap_or(ti.len() as u16)).u32le(ti_off);
    if version {
        w.bytes(&[6, 1, 0xb1, 0x1d, 0, 0, 0, 15]);
    }
    w.bytes(&payload);
    w.done()
}

pub fn nt_hash(password: &str) -> [u8; 16] {
    md4(&utf16le(password))
}

/// simple (per-UTF-16-unit) upper-casing as Windows does; only used where it agrees with the full mapping
pub fn ntowfv2(nt_hash: &[u8; 16], user: &str, domain: &str) -> [u8; 16] {
    let s = format!("{}{}", user.to_uppercase(), domain);
    hmac_md5(nt_hash, &utf16le(&s))
}

/// true if Rust's full upper-case mapping of `s` equals the simple per-unit mapping (same length, BMP-wise)
pub fn uppercase_unambiguous(s: &str) -> bool {
    s.chars().all(|c| {
        let mut up = c.to_uppercase();
        match (up.next(), up.next()) {
            (Some(u), None) => (c as u32 > 0xffff) == (u as u32 > 0xffff) && (c as u32 <= 0xffff || u == c),
            _ => false,
        }
    })
}

#[derive(Clone, Debug, PartialEq, Eq)]
pub struct Negotiate {
    pub flags: u32,
    pub len: usize,
}

/// strict parse of a NEGOTIATE_MESSAGE
pub fn parse_negotiate(b: &[u8]) -> PResult<Negotiate> {
    let mut r = R::new(b);
    if r.take(8)? != b"NTLMSSP\0" {
        return Err("NEGOTIATE: signature".into());
    }
    if r.u32le()? != 1 {
        return Err("NEGOTIATE: message type".into());
    }
    let flags = r.u32le()?;
    let fields = [("DomainName", r.u16le()?, r.u16le()?, r.u32le()?), ("Workstation", r.u16le()?, r.u16le()?, r.u32le()?)];
    let mut fixed = 32;
    if flags & F_VERSION != 0 {
        r.take(8)?;
        fixed = 40;
    } else if r.remaining() >= 8 && fields.iter().all(|f| f.1 == 0) {
        // Version field may be present but zero/ignored
    }
    for (name, len, maxlen, off) in fields {
        if maxlen < len {
            return Err(format!("NEGOTIATE {}: MaxLen {} < Len {}", name, maxlen, len));
        }
        if len > 0 && ((off as usize) < fixed || off as usize + len as usize > b.len()) {
            return Err(format!("NEGOTIATE {}: offset {} len {} outside token of {}", name, off, len, b.len()));
        }
    }
    Ok(Negotiate { flags, len: b.len() })
}

#[derive(Clone, Debug, PartialEq, Eq)]
pub struct Field {
    pub name: &'static str,
    pub len: u16,
    pub maxlen: u16,
    pub off: u32,
}

#[derive(Clone, Debug, PartialEq, Eq)]
pub struct Authenticate {
    pub fields: Vec<Field>,
    pub flags: u32,
    pub payload_start: usize,
    pub lm: Vec<u8>,
    pub nt: Vec<u8>,
    pub domain: Vec<u8>,
    pub user: Vec<u8>,
    pub workstation: Vec<u8>,
    pub enc_key: Vec<u8>,
    pub mic_offset: usize,
    pub notes: Vec<String>,
}

/// strict structural parse of an AUTHENTICATE_MESSAGE (MS-NLMP 2.2.1.3)
pub fn parse_authenticate(b: &[u8]) -> PResult<Authenticate> {
    let mut r = R::new(b);
    if r.take(8)? != b"NTLMSSP\0" {
        return Err("AUTHENTICATE: signature".into());
    }
    if r.u32le()? != 3 {
        return Err("AUTHENTICATE: message type".into());
    }
    let names = ["LmChallengeResponse", "NtChallengeResponse", "DomainName", "UserName", "Workstation", "EncryptedRandomSessionKey"];
    let mut fields = vec![];
    for n in names {
        fields.push(Field { name: n, len: r.u16le()?, maxlen: r.u16le()?, off: r.u32le()? });
    }
    let flags = r.u32le()?;
    let mut notes = vec![];
    // payload start: the smallest offset of any field (all fields carry an offset even when empty)
    let payload_start = fields.iter().map(|f| f.off as usize).min().unwrap();
    let version_present = flags & F_VERSION != 0;
    let expect_start = if version_present { 88 } else { 80 };
    if payload_start != expect_start {
        if !version_present && payload_start == 88 {
            notes.push("Version field present although not negotiated".into());
        } else {
            return Err(format!("AUTHENTICATE: payload starts at {}, fixed part (+MIC) ends at {}", payload_start, expect_start));
        }
    }
    let mut spans: Vec<(usize, usize, &'static str)> = vec![];
    let mut get = |f: &Field| -> PResult<Vec<u8>> {
        if f.maxlen != f.len {
            return Err(format!("AUTHENTICATE {}: MaxLen {} != Len {}", f.name, f.maxlen, f.len));
        }
        let s = f.off as usize;
        let e = s + f.len as usize;
        if s < payload_start || e > b.len() {
            return Err(format!("AUTHENTICATE {}: [{}..{}) outside payload [{}..{})", f.name, s, e, payload_start, b.len()));
        }
        if f.len > 0 {
            spans.push((s, e, f.name));
        }
        Ok(b[s..e].to_vec())
    };
    let lm = get(&fields[0])?;
    let nt = get(&fields[1])?;
    let domain = get(&fields[2])?;
    let user = get(&fields[3])?;
    let workstation = get(&fields[4])?;
    let enc_key = get(&fields[5])?;
    spans.sort();
    for w in spans.windows(2) {
        if w[0].1 > w[1].0 {
            return Err(format!("AUTHENTICATE: {} overlaps {}", w[0].2, w[1].2));
        }
    }
    let covered: usize = spans.iter().map(|s| s.1 - s.0).sum();
    if payload_start + covered != b.len() {
        return Err(format!("AUTHENTICATE: {} payload bytes not addressed by any field", b.len() - payload_start - covered));
    }
    Ok(Authenticate { fields, flags, payload_start, lm, nt, domain, user, workstation, enc_key, mic_offset: payload_start - 16, notes })
}

#[derive(Clone, Debug, PartialEq, Eq)]
pub struct AuthOk {
    pub exported_session_key: [u8; 16],
    pub user: String,
    pub domain: String,
    pub client_challenge: Vec<u8>,
    pub notes: Vec<String>,
}

fn decode_name(b: &[u8], unicode: bool, what: &str) -> PResult<String> {
    if unicode {
        if b.len() % 2 != 0 {
            return Err(format!("{}: odd UTF-16 length", what));
        }
        let u: Vec<u16> = b.chunks(2).map(|c| u16::from_le_bytes([c[0], c[1]])).collect();
        String::from_utf16(&u).map_err(|_| format!("{}: invalid UTF-16", what))
    } else {
        String::from_utf8(b.to_vec()).map_err(|_| format!("{}: invalid OEM/UTF-8", what))
    }
}

/// Full server-side acceptance of an AUTHENTICATE token (MS-NLMP 3.2.5.1.2 server side)
pub fn verify_authenticate(negotiate: &[u8], challenge: &[u8], auth: &[u8], cfg: &ServerCfg, user: &str, domain: &str, nt_hash_: &[u8; 16]) -> PResult<AuthOk> {
    let a = parse_authenticate(auth)?;
    let mut notes = a.notes.clone();
    let unicode = cfg.flags & F_UNICODE != 0;
    // an OEM session has no defined spelling for characters outside ASCII (it depends on the code page): such a name
    // is only required to be a NUL-free byte string that is not the UTF-16 spelling
    for (field, want, what) in [(&a.user, user, "UserName"), (&a.domain, domain, "DomainName")] {
        if !unicode && !want.is_ascii() {
            if field.is_empty() || field.contains(&0) || field[..] == utf16le(want)[..] {
                return Err(format!("{}: {:02x?} is not an OEM spelling of {:?} (UTF-16 or NUL bytes in a non-Unicode token)", what, field, want));
            }
            continue;
        }
        let got = decode_name(field, unicode, what)?;
        if got != want {
            return Err(format!("{} {:?} != account {:?}", what, got, want));
        }
    }
    let key = ntowfv2(nt_hash_, user, domain);
    // NTLMv2 response
    if a.nt.len() < 16 + 28 {
        return Err(format!("NtChallengeResponse of {} bytes", a.nt.len()));
    }
    let proof = &a.nt[..16];
    let temp = &a.nt[16..];
    if temp[0] != 1 || temp[1] != 1 {
        return Err("NTLMv2_CLIENT_CHALLENGE: RespType/HiRespType".into());
    }
    if temp[2..8] != [0u8; 6] {
        return Err("NTLMv2_CLIENT_CHALLENGE: reserved".into());
    }
    let time = &temp[8..16];
    let client_challenge = temp[16..24].to_vec();
    if temp[24..28] != [0u8; 4] {
        return Err("NTLMv2_CLIENT_CHALLENGE: reserved3".into());
    }
    let expect = hmac_md5(&key, &[&cfg.challenge[..], temp].concat());
    if expect[..] != *proof {
        return Err("NTProofStr does not verify".into());
    }
    if let Some((_, ts)) = cfg.av_pairs.iter().find(|p| p.0 == AV_TIMESTAMP) {
        if ts.len() == 8 && time != &ts[..] {
            return Err("NTLMv2 timestamp differs from MsvAvTimestamp".into());
        }
    }
    // AV pairs echoed by the client must parse up to an EOL
    {
        let mut r = R::new(&temp[28..]);
        let mut eol = false;
        while r.remaining() >= 4 {
            let id = r.u16le()?;
            let len = r.u16le()? as usize;
            if id == 0 {
                if len != 0 {
                    return Err("client AV pairs: EOL with length".into());
                }
                eol = true;
                break;
            }
            r.take(len).map_err(|e| format!("client AV pairs: {}", e))?;
        }
        if !eol {
            return Err("client AV pairs: no MsvAvEOL".into());
        }
        // MS-NLMP 3.3.2: temp ends with the AV pairs and Z(4); anything else after MsvAvEOL is not part of the structure
        let rest = r.take(r.remaining()).unwrap_or(&[]);
        if rest.len() > 4 || rest.iter().any(|b| *b != 0) {
            return Err(format!("client AV pairs: {} bytes after MsvAvEOL ({:02x?}..): NtChallengeResponse covers more than the NTLMv2 structure", rest.len(), &rest[..rest.len().min(8)]));
        }
    }
    // LMv2 response: either Z(24) (when a timestamp was offered) or a valid LMv2 proof
    if a.lm.len() != 24 {
        return Err(format!("LmChallengeResponse of {} bytes", a.lm.len()));
    }
    if a.lm != vec![0u8; 24] {
        let cc = &a.lm[16..24];
        let e = hmac_md5(&key, &[&cfg.challenge[..], cc].concat());
        if e[..] != a.lm[..16] {
            return Err("LMv2 response does not verify".into());
        }
        if cfg.av_pairs.iter().any(|p| p.0 == AV_TIMESTAMP) {
            notes.push("LmChallengeResponse sent although MsvAvTimestamp was offered (SHOULD be Z(24))".into());
        }
    }
    let session_base = hmac_md5(&key, proof);
    let exported: [u8; 16] = if cfg.flags & F_KEY_EXCH != 0 {
        if a.enc_key.len() != 16 {
            return Err(format!("EncryptedRandomSessionKey of {} bytes", a.enc_key.len()));
        }
        let v = Rc4::new(&session_base).apply(&a.enc_key);
        let mut k = [0u8; 16];
        k.copy_from_slice(&v);
        k
    } else {
        if !a.enc_key.is_empty() {
            return Err("EncryptedRandomSessionKey present without KEY_EXCH".into());
        }
        session_base
    };
    // MIC
    let mut zeroed = auth.to_vec();
    for b in &mut zeroed[a.mic_offset..a.mic_offset + 16] {
        *b = 0;
    }
    let mic = hmac_md5(&exported, &[negotiate, challenge, &zeroed[..]].concat());
    if mic[..] != auth[a.mic_offset..a.mic_offset + 16] {
        return Err("MIC does not verify".into());
    }
    if a.flags & F_KEY_EXCH == 0 && cfg.flags & F_KEY_EXCH != 0 {
        notes.push("AUTHENTICATE flags drop KEY_EXCH".into());
    }
    Ok(AuthOk { exported_session_key: exported, user: user.to_string(), domain: domain.to_string(), client_challenge, notes })
}

// ------------------------------------------------------------------ session security

#[derive(Clone)]
pub struct SealCtx {
    pub rc4: Rc4,
    pub sign_key: [u8; 16],
    pub seq: u32,
    /// false: NTLMSSP_NEGOTIATE_SEAL was not negotiated — messages are signed but travel in clear (MS-NLMP 3.4.3)
    pub confidential: bool,
}

const C2S_SIGN: &[u8] = b"session key to client-to-server signing key magic constant\0";
const S2C_SIGN: &[u8] = b"session key to server-to-client signing key magic constant\0";
const C2S_SEAL: &[u8] = b"session key to client-to-server sealing key magic constant\0";
const S2C_SEAL: &[u8] = b"session key to server-to-client sealing key magic constant\0";

impl SealCtx {
    /// direction: true = client-to-server keys
    pub fn new(exported: &[u8], client_to_server: bool) -> Self {
        let sign_key = md5(&[exported, if client_to_server { C2S_SIGN } else { S2C_SIGN }].concat());
        let seal_key = md5(&[exported, if client_to_server { C2S_SEAL } else { S2C_SEAL }].concat());
        SealCtx { rc4: Rc4::new(&seal_key), sign_key, seq: 0, confidential: true }
    }

    /// MS-NLMP 3.4.3 / 3.4.4.2 with extended session security and key exchange: signature(16) || ciphertext
    pub fn wrap(&mut self, msg: &[u8]) -> Vec<u8> {
        let ct = if self.confidential { self.rc4.apply(msg) } else { msg.to_vec() };
        let mac = hmac_md5(&self.sign_key, &[&self.seq.to_le_bytes()[..], msg].concat());
        let chk = self.rc4.apply(&mac[..8]);
        let mut w = W::new();
        w.u32le(1).bytes(&chk).u32le(self.seq).bytes(&ct);
        self.seq = self.seq.wrapping_add(1);
        w.done()
    }

    /// verify + decrypt a message sealed by the peer with these keys
    pub fn unwrap(&mut self, sealed: &[u8]) -> PResult<Vec<u8>> {
        if sealed.len() < 16 {
            return Err("sealed message shorter than a signature".into());
        }
        let mut r = R::new(sealed);
        if r.u32le()? != 1 {
            return Err("signature version".into());
        }
        let chk = r.take(8)?.to_vec();
        let seq = r.u32le()?;
        if seq != self.seq {
            return Err(format!("sequence number {} expected {}", seq, self.seq));
        }
        let pt = if self.confidential { self.rc4.apply(r.rest()) } else { r.rest().to_vec() };
        let mac = hmac_md5(&self.sign_key, &[&seq.to_le_bytes()[..], &pt[..]].concat());
        let want = self.rc4.apply(&mac[..8]);
        if want != chk {
            return Err("checksum".into());
        }
        self.seq = self.seq.wrapping_add(1);
        Ok(pt)
    }
}

pub fn self_test() -> Result<(), String> {
    // MS-NLMP 4.2.4 (NTLMv2): User "User", Domain "Domain", Password "Password"
    let nt = nt_hash("Password");
    if hex(&nt) != "a4f49c406510bdcab6824ee7c30fd852" {
        return Err(format!("NTOWFv1 {}", hex(&nt)));
    }
    let k = ntowfv2(&nt, "User", "Domain");
    if hex(&k) != "0c868a403bfd7a93a3001ef22ef02e3f" {
        return Err(format!("NTOWFv2 {}", hex(&k)));
    }
    // 4.2.4.1.3 / 4.2.4.2.2: temp and NTProofStr
    let server_challenge = unhex("0123456789abcdef");
    let client_challenge = unhex("aaaaaaaaaaaaaaaa");
    let time = [0u8; 8];
    let av = av_bytes(&[(AV_NB_DOMAIN, utf16le("Domain")), (AV_NB_COMPUTER, utf16le("Server"))], true);
    let temp = [&[1u8, 1, 0, 0, 0, 0, 0, 0][..], &time, &client_challenge, &[0u8; 4], &av, &[0u8; 4]].concat();
    let proof = hmac_md5(&k, &[&server_challenge[..], &temp].concat());
    if hex(&proof) != "68cd0ab851e51c96aabc927bebef6a1c" {
        return Err(format!("NTProofStr {}", hex(&proof)));
    }
    let sbk = hmac_md5(&k, &proof);
    if hex(&sbk) != "8de40ccadbc14a82f15cb0ad0de95ca3" {
        return Err(format!("SessionBaseKey {}", hex(&sbk)));
    }
    let lm = hmac_md5(&k, &[&server_challenge[..], &client_challenge].concat());
    if hex(&lm) != "86c35097ac9cec102554764a57cccc19" {
        return Err(format!("LMv2 {}", hex(&lm)));
    }
    // 4.2.4.4: SEAL with key exchange: RandomSessionKey 55*16, plaintext "Plaintext" in UTF-16
    let rsk = [0x55u8; 16];
    let enc = Rc4::new(&sbk).apply(&rsk);
    if hex(&enc) != "c5dad2544fc9799094ce1ce90bc9d03e" {
        return Err(format!("EncryptedRandomSessionKey {}", hex(&enc)));
    }
    let mut c = SealCtx::new(&rsk, true);
    if hex(&c.sign_key) != "4788dc861b4782f35d43fd98fe1a2d39" {
        return Err(format!("ClientSigningKey {}", hex(&c.sign_key)));
    }
    let sealed = c.wrap(&utf16le("Plaintext"));
    if hex(&sealed[16..]) != "54e50165bf1936dc996020c1811b0f06fb5f" {
        return Err(format!("sealed ciphertext {}", hex(&sealed[16..])));
    }
    if hex(&sealed[..16]) != "010000007fb38ec5c55d497600000000" {
        return Err(format!("signature {}", hex(&sealed[..16])));
    }
    let mut s = SealCtx::new(&rsk, true);
    let back = s.unwrap(&sealed).map_err(|e| format!("seal roundtrip: {}", e))?;
    if back != utf16le("Plaintext") {
        return Err("seal roundtrip plaintext".into());
    }
    Ok(())
}

#[cfg(test)]
mod t {
    #[test]
    fn st() {
        super::self_test().unwrap();
    }
}
